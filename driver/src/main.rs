// scverif-driver: a rustc_private driver that dumps the type-checked item table
// and the MIR of every body of the primary package as one JSON file.
//
// It is injected with RUSTC_WORKSPACE_WRAPPER under `cargo +nightly check`.
// It never executes the analysed code; it only reads rustc's own IR.
#![feature(rustc_private)]
#![allow(rustc::usage_of_ty_tykind)]

extern crate rustc_abi;
extern crate rustc_driver;
extern crate rustc_hir;
extern crate rustc_interface;
extern crate rustc_middle;
extern crate rustc_span;

use rustc_driver::Compilation;
use rustc_hir::def::DefKind;
use rustc_hir::def_id::DefId;
use rustc_interface::interface::Compiler;
use rustc_middle::mir::*;
use rustc_middle::ty::{self, GenericArgsRef, Instance, Ty, TyCtxt, TypingEnv};
use rustc_span::Span;
use std::fmt::Write as _;

mod json;
use json::J;

struct Dump;

fn s(x: impl Into<String>) -> J {
    J::Str(x.into())
}

struct Cx<'tcx> {
    tcx: TyCtxt<'tcx>,
}

impl<'tcx> Cx<'tcx> {
    fn loc(&self, span: Span) -> J {
        let sp = if span.from_expansion() { span.source_callsite() } else { span };
        let sm = self.tcx.sess.source_map();
        let lo = sm.lookup_char_pos(sp.lo());
        let file = format!("{}", lo.file.name.prefer_local_unconditionally());
        J::Arr(vec![s(file), J::Int(lo.line as i128), J::Int(lo.col.0 as i128 + 1)])
    }

    fn place(&self, body: &Body<'tcx>, p: &Place<'tcx>) -> J {
        let tcx = self.tcx;
        let mut elems = Vec::new();
        let mut pty = PlaceTy::from_ty(body.local_decls[p.local].ty);
        for elem in p.projection.iter() {
            let e = match elem {
                ProjectionElem::Deref => s("*"),
                ProjectionElem::Field(f, fty) => {
                    let mut name = format!("{}", f.index());
                    match pty.ty.kind() {
                        ty::Adt(adt, _) => {
                            let v = match pty.variant_index {
                                Some(v) => adt.variant(v),
                                None => adt.non_enum_variant(),
                            };
                            name = v.fields[f].name.to_string();
                        }
                        _ => {}
                    }
                    J::obj(vec![
                        ("f", J::Int(f.index() as i128)),
                        ("n", s(name)),
                        ("ty", s(format!("{}", fty))),
                    ])
                }
                ProjectionElem::Index(l) => J::obj(vec![("i", J::Int(l.index() as i128))]),
                ProjectionElem::ConstantIndex { offset, from_end, .. } => J::obj(vec![
                    ("ci", J::Int(offset as i128)),
                    ("fe", J::Bool(from_end)),
                ]),
                ProjectionElem::Subslice { from, to, from_end } => J::obj(vec![
                    ("sub", J::Arr(vec![J::Int(from as i128), J::Int(to as i128)])),
                    ("fe", J::Bool(from_end)),
                ]),
                ProjectionElem::Downcast(name, vi) => J::obj(vec![
                    ("dc", s(name.map(|n| n.to_string()).unwrap_or_default())),
                    ("vi", J::Int(vi.index() as i128)),
                ]),
                _ => J::obj(vec![("other", s(format!("{:?}", elem)))]),
            };
            elems.push(e);
            pty = pty.projection_ty(tcx, elem);
        }
        J::obj(vec![("l", J::Int(p.local.index() as i128)), ("pr", J::Arr(elems))])
    }

    fn callee(&self, body_did: DefId, did: DefId, args: GenericArgsRef<'tcx>) -> J {
        let tcx = self.tcx;
        let mut v = vec![
            ("path", s(tcx.def_path_str(did))),
            ("name", s(tcx.item_name(did).to_string())),
            ("local", J::Bool(did.is_local())),
            ("crate", s(tcx.crate_name(did.krate).to_string())),
            ("args", J::Arr(args.iter().map(|a| s(format!("{}", a))).collect())),
        ];
        let dk = tcx.def_kind(did);
        if matches!(dk, DefKind::AssocFn) {
            if let Some(tr) = tcx.trait_of_assoc(did) {
                v.push(("trait", s(tcx.def_path_str(tr))));
                if args.len() > 0 {
                    if let Some(t) = args[0].as_type() {
                        v.push(("self_ty", s(format!("{}", t))));
                    }
                }
            } else if let Some(im) = tcx.impl_of_assoc(did) {
                let st = tcx.type_of(im).instantiate_identity().skip_norm_wip();
                v.push(("impl_self", s(format!("{}", st))));
            }
        }
        if matches!(dk, DefKind::Fn | DefKind::AssocFn) {
            let env = TypingEnv::post_analysis(tcx, body_did);
            if let Ok(Some(inst)) = Instance::try_resolve(tcx, env, did, args) {
                let rd = inst.def_id();
                if rd != did {
                    v.push(("resolved", s(tcx.def_path_str(rd))));
                    v.push(("resolved_local", J::Bool(rd.is_local())));
                    if let ty::InstanceKind::Item(_) = inst.def {
                        v.push((
                            "resolved_args",
                            J::Arr(inst.args.iter().map(|a| s(format!("{}", a))).collect()),
                        ));
                    }
                }
            }
        }
        J::obj(v)
    }

    fn operand(&self, body: &Body<'tcx>, body_did: DefId, o: &Operand<'tcx>) -> J {
        match o {
            Operand::Copy(p) => J::obj(vec![("k", s("copy")), ("p", self.place(body, p))]),
            Operand::Move(p) => J::obj(vec![("k", s("move")), ("p", self.place(body, p))]),
            Operand::Constant(c) => {
                let ty = c.const_.ty();
                let mut v = vec![
                    ("k", s("const")),
                    ("ty", s(format!("{}", ty))),
                    ("v", s(format!("{}", c.const_))),
                ];
                match ty.kind() {
                    ty::FnDef(did, args) => {
                        v.push(("fn", self.callee(body_did, *did, args)));
                    }
                    ty::Int(_) | ty::Uint(_) | ty::Bool | ty::Char => {
                        let env = TypingEnv::post_analysis(self.tcx, body_did);
                        if let Some(si) = c.const_.try_eval_scalar_int(self.tcx, env) {
                            let size = si.size();
                            let bits = si.to_bits(size);
                            let val: i128 = match ty.kind() {
                                ty::Int(_) => size.sign_extend(bits) as i128,
                                _ => bits as i128,
                            };
                            v.push(("int", J::Str(format!("{}", val))));
                        }
                    }
                    _ => {}
                }
                // named constant items (e.g. `i64::MIN`, `std::f64::EPSILON`)
                if let Const::Unevaluated(uv, _) = c.const_ {
                    v.push(("item", s(self.tcx.def_path_str(uv.def))));
                }
                J::obj(v)
            }
            #[allow(unreachable_patterns)]
            _ => J::obj(vec![("k", s("other")), ("d", s(format!("{:?}", o)))]),
        }
    }

    fn rvalue(&self, body: &Body<'tcx>, body_did: DefId, r: &Rvalue<'tcx>) -> J {
        let op = |o: &Operand<'tcx>| self.operand(body, body_did, o);
        match r {
            Rvalue::Use(o, ..) => J::obj(vec![("k", s("use")), ("o", op(o))]),
            Rvalue::Repeat(o, _) => J::obj(vec![("k", s("repeat")), ("o", op(o))]),
            Rvalue::Ref(_, bk, p) => J::obj(vec![
                ("k", s("ref")),
                ("m", J::Bool(matches!(bk, BorrowKind::Mut { .. }))),
                ("p", self.place(body, p)),
            ]),
            Rvalue::RawPtr(_, p) => J::obj(vec![("k", s("rawptr")), ("p", self.place(body, p))]),
            Rvalue::Cast(ck, o, ty) => J::obj(vec![
                ("k", s("cast")),
                ("ck", s(format!("{:?}", ck))),
                ("o", op(o)),
                ("ty", s(format!("{}", ty))),
            ]),
            Rvalue::BinaryOp(b, ops) => J::obj(vec![
                ("k", s("bin")),
                ("op", s(format!("{:?}", b))),
                ("a", op(&ops.0)),
                ("b", op(&ops.1)),
            ]),
            Rvalue::UnaryOp(u, o) => J::obj(vec![
                ("k", s("un")),
                ("op", s(format!("{:?}", u))),
                ("a", op(o)),
            ]),
            Rvalue::Discriminant(p) => J::obj(vec![("k", s("discr")), ("p", self.place(body, p))]),
            Rvalue::CopyForDeref(p) => {
                J::obj(vec![("k", s("copyderef")), ("p", self.place(body, p))])
            }
            Rvalue::Aggregate(ak, ops) => {
                let mut v = vec![("k", s("agg"))];
                match &**ak {
                    AggregateKind::Array(_) => v.push(("ak", s("array"))),
                    AggregateKind::Tuple => v.push(("ak", s("tuple"))),
                    AggregateKind::Adt(did, vi, _, _, _) => {
                        v.push(("ak", s("adt")));
                        let adt = self.tcx.adt_def(*did);
                        v.push(("name", s(self.tcx.def_path_str(*did))));
                        let var = adt.variant(*vi);
                        v.push(("variant", s(var.name.to_string())));
                        v.push(("vi", J::Int(vi.index() as i128)));
                        v.push((
                            "fields",
                            J::Arr(var.fields.iter().map(|f| s(f.name.to_string())).collect()),
                        ));
                    }
                    AggregateKind::Closure(did, _) => {
                        v.push(("ak", s("closure")));
                        v.push(("name", s(self.tcx.def_path_str(*did))));
                    }
                    other => {
                        v.push(("ak", s("other")));
                        v.push(("d", s(format!("{:?}", other))));
                    }
                }
                v.push(("ops", J::Arr(ops.iter().map(|o| op(o)).collect())));
                J::obj(v)
            }
            other => J::obj(vec![("k", s("other")), ("d", s(format!("{:?}", other)))]),
        }
    }

    fn body(&self, did: DefId) -> J {
        let tcx = self.tcx;
        let body: &Body<'tcx> = tcx.optimized_mir(did);
        let dk = tcx.def_kind(did);
        let mut v: Vec<(&str, J)> = vec![
            ("path", s(tcx.def_path_str(did))),
            ("defpath", s(tcx.def_path(did).to_string_no_crate_verbose())),
            ("kind", s(format!("{:?}", dk))),
            ("loc", self.loc(body.span)),
            ("span_x", J::Bool(body.span.from_expansion())),
            ("arg_count", J::Int(body.arg_count as i128)),
        ];
        if !matches!(dk, DefKind::Closure) {
            v.push(("name", s(tcx.item_name(did).to_string())));
            v.push(("vis", s(format!("{:?}", tcx.visibility(did)))));
        }
        if matches!(dk, DefKind::Closure) {
            v.push(("parent", s(tcx.def_path_str(tcx.typeck_root_def_id(did)))));
        }
        if matches!(dk, DefKind::AssocFn) {
            if let Some(tr) = tcx.trait_of_assoc(did) {
                v.push(("trait_default", s(tcx.def_path_str(tr))));
            }
            if let Some(im) = tcx.impl_of_assoc(did) {
                let st = tcx.type_of(im).instantiate_identity().skip_norm_wip();
                v.push(("impl_self", s(format!("{}", st))));
                if let Some(tr) = tcx.impl_opt_trait_ref(im) {
                    let tr = tr.instantiate_identity().skip_norm_wip();
                    v.push(("impl_trait", s(tcx.def_path_str(tr.def_id))));
                    v.push(("impl_trait_full", s(format!("{}", tr))));
                }
            }
        }
        // generics
        let gens = tcx.generics_of(did);
        let mut gnames = Vec::new();
        let mut g = Some(gens);
        let mut stack = Vec::new();
        while let Some(gg) = g {
            stack.push(gg);
            g = gg.parent.map(|p| tcx.generics_of(p));
        }
        for gg in stack.iter().rev() {
            for p in &gg.own_params {
                gnames.push(s(p.name.to_string()));
            }
        }
        v.push(("generics", J::Arr(gnames)));

        // locals
        let mut names: Vec<Option<String>> = vec![None; body.local_decls.len()];
        for vdi in &body.var_debug_info {
            if let VarDebugInfoContents::Place(p) = &vdi.value {
                if p.projection.is_empty() && names[p.local.index()].is_none() {
                    names[p.local.index()] = Some(vdi.name.to_string());
                }
            }
        }
        let mut upvars = Vec::new();
        for vdi in &body.var_debug_info {
            if let VarDebugInfoContents::Place(p) = &vdi.value {
                if !p.projection.is_empty() {
                    upvars.push(J::obj(vec![
                        ("name", s(vdi.name.to_string())),
                        ("p", self.place(body, p)),
                    ]));
                }
            }
        }
        v.push(("upvars", J::Arr(upvars)));
        let locals: Vec<J> = body
            .local_decls
            .iter_enumerated()
            .map(|(l, d)| {
                let mut lv = vec![("ty", s(format!("{}", d.ty)))];
                let _ = &d;
                if let Some(n) = &names[l.index()] {
                    lv.push(("name", s(n.clone())));
                }
                J::obj(lv)
            })
            .collect();
        v.push(("locals", J::Arr(locals)));

        let bb = |b: BasicBlock| J::Int(b.index() as i128);
        let obb = |b: Option<BasicBlock>| match b {
            Some(b) => J::Int(b.index() as i128),
            None => J::Null,
        };
        let unw = |u: UnwindAction| match u {
            UnwindAction::Cleanup(b) => J::Int(b.index() as i128),
            _ => J::Null,
        };
        let mut blocks = Vec::new();
        for (_bbi, data) in body.basic_blocks.iter_enumerated() {
            let mut stmts = Vec::new();
            for st in &data.statements {
                match &st.kind {
                    StatementKind::Assign(b) => {
                        let (p, r) = &**b;
                        stmts.push(J::obj(vec![
                            ("k", s("assign")),
                            ("p", self.place(body, p)),
                            ("r", self.rvalue(body, did, r)),
                            ("s", self.loc(st.source_info.span)),
                            ("x", J::Bool(st.source_info.span.from_expansion())),
                        ]));
                    }
                    StatementKind::SetDiscriminant { place, variant_index } => {
                        stmts.push(J::obj(vec![
                            ("k", s("setdiscr")),
                            ("p", self.place(body, place)),
                            ("vi", J::Int(variant_index.index() as i128)),
                        ]));
                    }
                    _ => {}
                }
            }
            let term = data.terminator();
            let tspan = term.source_info.span;
            let mut t: Vec<(&str, J)> = Vec::new();
            match &term.kind {
                TerminatorKind::Goto { target } => {
                    t.push(("k", s("goto")));
                    t.push(("t", bb(*target)));
                }
                TerminatorKind::SwitchInt { discr, targets } => {
                    t.push(("k", s("switch")));
                    t.push(("o", self.operand(body, did, discr)));
                    t.push((
                        "targets",
                        J::Arr(
                            targets
                                .iter()
                                .map(|(val, b)| J::Arr(vec![J::Str(format!("{}", val)), bb(b)]))
                                .collect(),
                        ),
                    ));
                    t.push(("otherwise", bb(targets.otherwise())));
                }
                TerminatorKind::Return => t.push(("k", s("return"))),
                TerminatorKind::Unreachable => t.push(("k", s("unreachable"))),
                TerminatorKind::UnwindResume => t.push(("k", s("resume"))),
                TerminatorKind::UnwindTerminate(_) => t.push(("k", s("abort"))),
                TerminatorKind::Drop { place, target, unwind, .. } => {
                    t.push(("k", s("drop")));
                    t.push(("p", self.place(body, place)));
                    t.push(("t", bb(*target)));
                    t.push(("u", unw(*unwind)));
                }
                TerminatorKind::Call { func, args, destination, target, unwind, fn_span, .. } => {
                    t.push(("k", s("call")));
                    match func.const_fn_def() {
                        Some((cd, cargs)) => t.push(("f", self.callee(did, cd, cargs))),
                        None => t.push(("fo", self.operand(body, did, func))),
                    }
                    t.push((
                        "args",
                        J::Arr(args.iter().map(|a| self.operand(body, did, &a.node)).collect()),
                    ));
                    t.push(("d", self.place(body, destination)));
                    t.push(("t", obb(*target)));
                    t.push(("u", unw(*unwind)));
                    t.push(("fs", self.loc(*fn_span)));
                }
                TerminatorKind::Assert { cond, expected, msg, target, unwind } => {
                    t.push(("k", s("assert")));
                    t.push(("c", self.operand(body, did, cond)));
                    t.push(("exp", J::Bool(*expected)));
                    let (mk, ops): (String, Vec<&Operand<'tcx>>) = match &**msg {
                        AssertKind::BoundsCheck { len, index } => {
                            ("BoundsCheck".into(), vec![len, index])
                        }
                        AssertKind::Overflow(op, a, b) => (format!("Overflow({:?})", op), vec![a, b]),
                        AssertKind::OverflowNeg(a) => ("OverflowNeg".into(), vec![a]),
                        AssertKind::DivisionByZero(a) => ("DivisionByZero".into(), vec![a]),
                        AssertKind::RemainderByZero(a) => ("RemainderByZero".into(), vec![a]),
                        other => (format!("{:?}", other), vec![]),
                    };
                    t.push(("msg", s(mk)));
                    t.push((
                        "mops",
                        J::Arr(ops.iter().map(|o| self.operand(body, did, o)).collect()),
                    ));
                    t.push(("t", bb(*target)));
                    t.push(("u", unw(*unwind)));
                }
                TerminatorKind::FalseEdge { real_target, .. } => {
                    t.push(("k", s("goto")));
                    t.push(("t", bb(*real_target)));
                }
                TerminatorKind::FalseUnwind { real_target, .. } => {
                    t.push(("k", s("goto")));
                    t.push(("t", bb(*real_target)));
                }
                other => {
                    t.push(("k", s("other")));
                    t.push(("d", s(format!("{:?}", other))));
                }
            }
            t.push(("s", self.loc(tspan)));
            t.push(("x", J::Bool(tspan.from_expansion())));
            blocks.push(J::obj(vec![
                ("cleanup", J::Bool(data.is_cleanup)),
                ("stmts", J::Arr(stmts)),
                ("term", J::obj(t)),
            ]));
        }
        v.push(("blocks", J::Arr(blocks)));
        J::obj(v)
    }

    fn items(&self) -> (J, J, J) {
        let tcx = self.tcx;
        let mut adts = Vec::new();
        let mut impls = Vec::new();
        let mut traits = Vec::new();
        for ldid in tcx.hir_crate_items(()).definitions() {
            let did = ldid.to_def_id();
            match tcx.def_kind(did) {
                DefKind::Struct | DefKind::Enum => {
                    let adt = tcx.adt_def(did);
                    let mut variants = Vec::new();
                    for var in adt.variants() {
                        let fields: Vec<J> = var
                            .fields
                            .iter()
                            .map(|f| {
                                let fty: Ty<'tcx> =
                                    tcx.type_of(f.did).instantiate_identity().skip_norm_wip();
                                J::obj(vec![
                                    ("name", s(f.name.to_string())),
                                    ("ty", s(format!("{}", fty))),
                                    ("vis", s(format!("{:?}", f.vis))),
                                ])
                            })
                            .collect();
                        variants.push(J::obj(vec![
                            ("name", s(var.name.to_string())),
                            ("fields", J::Arr(fields)),
                        ]));
                    }
                    let gens = tcx.generics_of(did);
                    adts.push(J::obj(vec![
                        ("path", s(tcx.def_path_str(did))),
                        ("name", s(tcx.item_name(did).to_string())),
                        ("kind", s(format!("{:?}", tcx.def_kind(did)))),
                        ("vis", s(format!("{:?}", tcx.visibility(did)))),
                        ("loc", self.loc(tcx.def_span(did))),
                        (
                            "generics",
                            J::Arr(gens.own_params.iter().map(|p| s(p.name.to_string())).collect()),
                        ),
                        ("variants", J::Arr(variants)),
                    ]));
                }
                DefKind::Impl { .. } => {
                    let st = tcx.type_of(did).instantiate_identity().skip_norm_wip();
                    let mut v = vec![
                        ("self_ty", s(format!("{}", st))),
                        ("loc", self.loc(tcx.def_span(did))),
                        ("x", J::Bool(tcx.def_span(did).from_expansion())),
                    ];
                    if let ty::Adt(a, _) = st.kind() {
                        v.push(("self_adt", s(tcx.def_path_str(a.did()))));
                    }
                    if let Some(tr) = tcx.impl_opt_trait_ref(did) {
                        let tr = tr.instantiate_identity().skip_norm_wip();
                        v.push(("trait", s(tcx.def_path_str(tr.def_id))));
                        v.push(("trait_full", s(format!("{}", tr))));
                    }
                    let preds = tcx.predicates_of(did).instantiate_identity(tcx);
                    v.push((
                        "preds",
                        J::Arr(
                            preds.predicates.iter().map(|p| s(format!("{}", p.skip_norm_wip()))).collect(),
                        ),
                    ));
                    let items: Vec<J> = tcx
                        .associated_item_def_ids(did)
                        .iter()
                        .map(|i| {
                            J::obj(vec![
                                ("name", s(tcx.item_name(*i).to_string())),
                                ("path", s(tcx.def_path_str(*i))),
                                ("kind", s(format!("{:?}", tcx.def_kind(*i)))),
                            ])
                        })
                        .collect();
                    v.push(("items", J::Arr(items)));
                    impls.push(J::obj(v));
                }
                DefKind::Trait => {
                    let items: Vec<J> = tcx
                        .associated_items(did)
                        .in_definition_order()
                        .map(|ai| {
                            J::obj(vec![
                                ("name", s(ai.name().to_string())),
                                ("path", s(tcx.def_path_str(ai.def_id))),
                                ("kind", s(format!("{:?}", tcx.def_kind(ai.def_id)))),
                                ("has_default", J::Bool(ai.defaultness(tcx).has_value())),
                            ])
                        })
                        .collect();
                    traits.push(J::obj(vec![
                        ("path", s(tcx.def_path_str(did))),
                        ("name", s(tcx.item_name(did).to_string())),
                        ("items", J::Arr(items)),
                    ]));
                }
                _ => {}
            }
        }
        (J::Arr(adts), J::Arr(impls), J::Arr(traits))
    }
}

impl rustc_driver::Callbacks for Dump {
    fn after_analysis<'tcx>(&mut self, _c: &Compiler, tcx: TyCtxt<'tcx>) -> Compilation {
        let out = match std::env::var("SCVERIF_OUT") {
            Ok(o) => o,
            Err(_) => return Compilation::Continue,
        };
        let cx = Cx { tcx };
        let mut bodies = Vec::new();
        for ldid in tcx.hir_body_owners() {
            let did = ldid.to_def_id();
            match tcx.def_kind(did) {
                DefKind::Fn | DefKind::AssocFn | DefKind::Closure => {}
                _ => continue,
            }
            bodies.push(cx.body(did));
        }
        let (adts, impls, traits) = cx.items();
        let mut feats: Vec<String> = Vec::new();
        for a in std::env::args() {
            if let Some(f) = a.strip_prefix("feature=\"") {
                feats.push(f.trim_end_matches('"').to_string());
            }
        }
        feats.sort();
        let root = J::obj(vec![
            ("nonce", s(std::env::var("SCVERIF_NONCE").unwrap_or_default())),
            ("crate", s(tcx.crate_name(rustc_hir::def_id::LOCAL_CRATE).to_string())),
            ("features", J::Arr(feats.into_iter().map(s).collect())),
            ("bodies", J::Arr(bodies)),
            ("adts", adts),
            ("impls", impls),
            ("traits", traits),
        ]);
        let mut text = String::new();
        root.write(&mut text);
        let _ = write!(text, "\n");
        // one write per process
        let tmp = format!("{}.tmp.{}", out, std::process::id());
        std::fs::write(&tmp, text).expect("write facts");
        std::fs::rename(&tmp, &out).expect("rename facts");
        Compilation::Continue
    }
}

fn main() {
    let mut args: Vec<String> = std::env::args().collect();
    // wrapper mode: argv[1] is the real rustc path
    if args.len() > 1 && (args[1].ends_with("rustc") || args[1].contains("/rustc")) {
        args.remove(1);
    }
    let primary = std::env::var("CARGO_PRIMARY_PACKAGE").is_ok();
    let want = std::env::var("SCVERIF_CRATE").unwrap_or_else(|_| "smartcore".into());
    let is_target = args.windows(2).any(|w| w[0] == "--crate-name" && w[1] == want);
    // only the library target (not build scripts, not proc macros)
    let is_lib = args.windows(2).any(|w| w[0] == "--crate-type" && (w[1] == "lib" || w[1] == "rlib"));
    if primary && is_target && is_lib {
        rustc_driver::run_compiler(&args, &mut Dump);
    } else {
        struct Nop;
        impl rustc_driver::Callbacks for Nop {}
        rustc_driver::run_compiler(&args, &mut Nop);
    }
}
