"""E6: backend sibling rules and library-semantics tables; E2d sign-sensitivity rule."""
import re

from . import guards, e1
from .e1 import G, BodyCtx
from .match import Dim, Base, Arg, Prod, Pred, SHAPE_CALLS, dim_of
from .prov import Resolver, render, subterms, alts

# ---------------------------------------------------------------------------------------------
# Library table.  Each entry: (crate, callee path regex, class, source)
#   REJECT    : the call panics / returns Err for every shape mismatch of its two array operands
#   BROADCAST : the call silently broadcasts a mismatching operand when that is possible
#   LAYOUT    : the call reinterprets the memory buffer (result depends on the memory layout)
LIB = [
    ("ndarray", r"^std::ops::(Add|Sub|Mul|Div)Assign::\w+$", "BROADCAST",
     "ndarray 0.15 impl_ops.rs: `If their shapes disagree, rhs is broadcast to the shape of self. Panics if broadcasting isn't possible.`"),
    ("ndarray", r"^std::ops::(Add|Sub|Mul|Div)::\w+$", "BROADCAST",
     "ndarray 0.15 impl_ops.rs (&A op &B): `If their shapes disagree, self and rhs is broadcast to their broadcast shape`"),
    ("ndarray", r"ArrayBase<S, D>>::assign$", "BROADCAST",
     "ndarray 0.15 impl_methods.rs assign: `If their shapes disagree, rhs is broadcast to the shape of self. Panics if broadcasting isn't possible.`"),
    ("ndarray", r"ArrayBase<S, ndarray::Dim<\[usize; [12]\]>>>::dot$", "REJECT",
     "ndarray 0.15 linalg/impl_linalg.rs dot: `Panics if shapes are incompatible` (1-D: lengths; 2-D: inner dimensions)"),
    ("ndarray", r"^ndarray::concatenate$", "REJECT",
     "ndarray 0.15 stacking.rs concatenate: `Errors if the arrays have mismatching shapes, apart from along axis` (the impl unwraps)"),
    ("ndarray", r"ArrayBase<S, D>>::into_shape$", "LAYOUT",
     "ndarray 0.15 impl_methods.rs into_shape: `Errors if the shapes don't have the same number of elements` (size check, the impl unwraps) "
     "but `only c- and f-contiguous` inputs are accepted and an f-contiguous input (e.g. after t()) is reshaped in f order"),
    ("ndarray", r"::into_raw_vec$", "LAYOUT", "ndarray 0.15 into_raw_vec: returns the buffer in memory order"),
    ("ndarray", r"::as_slice_memory_order(_mut)?$", "LAYOUT", "ndarray 0.15 as_slice_memory_order: `Return the array's data as a slice if it is contiguous` - in memory order, not logical order"),
    ("ndarray", r"::(as_ptr|as_mut_ptr|raw_view|raw_view_mut)$", "LAYOUT", "ndarray 0.15: raw buffer access"),
    ("nalgebra", r"Matrix::<T, R, C, S>::(as_slice|as_mut_slice|as_ptr|as_mut_ptr)$", "LAYOUT", "nalgebra 0.31: the matrix buffer in column-major order"),
    ("nalgebra", r"^std::ops::(Add|Sub)Assign::\w+$", "REJECT",
     "nalgebra 0.31 base/ops.rs: `assert_eq!(self.shape(), rhs.shape(), \"Matrix addition/subtraction dimensions mismatch.\")`"),
    ("nalgebra", r"component_(mul|div)_assign$", "REJECT",
     "nalgebra 0.31 base/componentwise.rs: `assert_eq!(self.shape(), rhs.shape(), \"Componentwise mul/div: mismatched matrix dimensions.\")`"),
    ("nalgebra", r"Matrix::<T, R, C, S>::copy_from$", "REJECT",
     "nalgebra 0.31 base/matrix.rs copy_from: `assert!(self.shape() == other.shape(), \"Unable to copy from a matrix with a different shape.\")`"),
    ("nalgebra", r"^std::ops::Mul::mul$", "REJECT",
     "nalgebra 0.31 base/ops.rs Mul for matrices (gemm): `assert!(ncols1 == nrows2, \"gemm: dimensions mismatch\")` for Dynamic dimensions"),
    ("nalgebra", r"blas::<impl nalgebra::Matrix<T, R, C, S>>::dot$", "REJECT",
     "nalgebra 0.31 base/blas.rs dot: `assert!(self.shape() == rhs.shape(), \"Dot product dimensions mismatch ...\")`"),
    ("nalgebra", r"::from_rows$", "REJECT",
     "nalgebra 0.31 base/construction.rs from_rows: `assert!(rows.iter().all(|r| r.len() == ncols), \"The provided rows must all have the same dimension.\")`"),
    ("nalgebra", r"::from_columns$", "REJECT",
     "nalgebra 0.31 base/construction.rs from_columns: `assert!(columns.iter().all(|c| c.shape().0 == nrows), ...)`"),
    ("nalgebra", r"::from_row_slice$", "REJECT",
     "nalgebra 0.31 base/construction.rs from_row_slice: `assert!(slice.len() == nrows * ncols, \"The slice should contain the same number of elements as the matrix dimensions\")`"),
    ("nalgebra", r"::from_iterator$", "REJECT",
     "nalgebra 0.31 base/construction.rs from_iterator: `assert!(.. \"Matrix init. from iterator: iterator not long enough.\")`"),
    ("ndarray", r"::from_shape_vec$", "REJECT",
     "ndarray 0.15 impl_constructors.rs from_shape_vec: `Errors if shape does not correspond to the number of elements in v` (the impl unwraps)"),
    ("nalgebra", r"::reshape_generic$", "LAYOUT", "nalgebra 0.31 base/edition.rs reshape_generic: reinterprets the column-major buffer"),
]


def lib_class(f):
    """(class, source) of a call into ndarray/nalgebra that takes array operands, else None"""
    crate = f.get("crate")
    st = (f.get("self_ty") or "") + " " + " ".join(f.get("args", []))
    lib = "ndarray" if ("ndarray::" in st or crate == "ndarray") else "nalgebra" if ("nalgebra::" in st or crate == "nalgebra") else None
    if not lib:
        return None
    for (cr, rx, cls, src) in LIB:
        if cr == lib and re.search(rx, f["path"]):
            return cls, src, lib
    return None


class ShapeOf:
    """whole-shape term of an argument: shape(x) / x.dim() / x.raw_dim()"""

    def __init__(self, arg):
        self.arg = arg

    def __call__(self, t):
        return t[0] == "call" and (SHAPE_CALLS.search(t[1]) or t[1].endswith(("::dim", "::raw_dim", "::shape"))) and t[2] and \
            t[2][0][0] == "arg" and t[2][0][1] == self.arg

    def remap(self, m):
        return ShapeOf(m[self.arg]) if self.arg in m else None

    def __repr__(self):
        return f"shape(arg{self.arg})"


NE, EQ = frozenset("np"), frozenset("z")
ROWS, COLS, LEN = (lambda a: Dim("rows", a)), (lambda a: Dim("cols", a)), (lambda a: Dim("len", a))

# method -> list of alternative guard sets; a set is a list of (subject, bound) pairs that must ALL be guarded
MATRIX_CONTRACT = {
    "add_mut": "same", "sub_mut": "same", "mul_mut": "same", "div_mut": "same", "copy_from": "same",
    "matmul": [(COLS(1), ROWS(2))], "v_stack": [(COLS(1), COLS(2))], "h_stack": [(ROWS(1), ROWS(2))],
    "dot": [(Prod(ROWS(1), COLS(1)), Prod(ROWS(2), COLS(2)))],   # or total lengths, see explicit_guard
    "reshape": [(Prod(ROWS(1), COLS(1)), Prod(Arg(2), Arg(3)))],
}
VECTOR_CONTRACT = {m: [(LEN(1), LEN(2))] for m in ("dot", "add_mut", "sub_mut", "mul_mut", "div_mut", "copy_from")}


def explicit_guard(prog, body, pairs, want):
    """all (subject, bound) pairs are refused with `want` on mismatch (or the whole shapes are compared)"""
    cx = BodyCtx.of(body)
    if pairs == "same":
        alts_ = [[(ShapeOf(1), ShapeOf(2))], [(ROWS(1), ROWS(2)), (COLS(1), COLS(2))]]
    elif len(pairs) == 1 and isinstance(pairs[0][0], Prod) and isinstance(pairs[0][1], Prod) and isinstance(pairs[0][1].a, Dim):
        # total sizes: rows*cols on both sides, or the arrays' total lengths
        alts_ = [pairs, [(LEN(1), LEN(2))], [(ShapeOf(1), ShapeOf(2))]]
    else:
        alts_ = [pairs, [(ShapeOf(1), ShapeOf(2))]] if all(isinstance(p[0], Dim) and isinstance(p[1], Dim) for p in pairs) and len(pairs) == 1 \
            and pairs[0][0].kind == "len" else [pairs]
    why = []
    for alt in alts_:
        ok = True
        for (s, b) in alt:
            g = G("guard", body, s, b, NE, EQ, want, interproc=True)
            r, detail, sites, _ = e1.eval_guard(prog, g, body)
            if not r:
                ok = False
                why.append(detail)
                break
        if ok:
            return True, "explicit guard"
    return False, "; ".join(why[:2])


def binary_lib_calls(body):
    """library calls whose operands derive from both self (arg 1) and other (arg 2)"""
    res = Resolver(body)
    out = []
    for bb, t in body.calls():
        f = t.get("f")
        if not f:
            continue
        lc = lib_class(f)
        if not lc:
            continue
        terms = [res.operand(a) for a in t["args"]]
        has1 = any(any(s[0] == "arg" and s[1] == 1 for s in subterms(x)) for x in terms)
        has2 = any(any(s[0] == "arg" and s[1] >= 2 for s in subterms(x)) for x in terms)
        out.append((bb, f, lc, has1 and has2))
    return out


def classify_contract(prog, body, pairs, want):
    """returns (ok, how, detail)"""
    ok, how = explicit_guard(prog, body, pairs, want)
    libs = binary_lib_calls(body)
    if ok:
        return True, "explicit", how
    both = [(bb, f, lc) for (bb, f, lc, b2) in libs if b2]
    bc = [(bb, f, lc) for (bb, f, lc) in both if lc[0] == "BROADCAST"]
    if bc:
        bb, f, lc = bc[0]
        return False, "broadcast", f"{f['path']} on {lc[2]} arrays broadcasts a mismatching operand instead of rejecting it [{lc[1]}] at {body.where(bb)}"
    if want == "false":
        return False, "none", "no explicit shape comparison returning false; " + how
    rej = [(bb, f, lc) for (bb, f, lc) in both if lc[0] == "REJECT"]
    lay = [(bb, f, lc) for (bb, f, lc, _) in libs if lc[0] == "LAYOUT"]
    if rej:
        return True, "delegated", f"{rej[0][1]['path'].split('::')[-1]} rejects every mismatch [{rej[0][2][1][:90]}]"
    if lay and pairs and pairs != "same":
        # e.g. reshape through into_shape(..).unwrap(): size mismatch is an Err -> unwrap panics
        return True, "delegated", f"{lay[0][1]['path'].split('::')[-1]} errors on a size mismatch (unwrapped)"
    return False, "none", "neither an explicit guard nor a library call that rejects the mismatch; " + how


# ------------------------------------------------------------------ E2d sign sensitivity
INF = {"max": "neg_infinity", "min": "infinity", "argmax": "neg_infinity"}


def sign_rule(prog, body, kind):
    """problems (list of str) for max / min / argmax / softmax_mut bodies"""
    problems = []
    bodies = [body] + prog.closures_of.get(body.path, [])
    for bd in bodies:
        for bb, t in bd.calls():
            f = t.get("f")
            if f and f["path"].endswith("::abs"):
                problems.append(f"absolute value taken at {bd.where(bb)}: the result depends on |x|, not on x")
    if kind in ("max", "min"):
        res = Resolver(body)
        seeds = []
        ret = res.local(0)

        def collect(t):
            for a in alts(t):
                if a[0] == "call" and a[1].endswith("Iterator::fold") and len(a[2]) >= 2:
                    seeds.append(a[2][1])
                elif a[0] == "call" and a[1].endswith(("::max", "::min")) or (a[0] == "call" and a[1].startswith("mut:")):
                    continue
                else:
                    seeds.append(a)
        collect(ret)
        for s in seeds:
            good_inf = s[0] == "call" and s[1].endswith("::" + INF[kind]) and not s[2]
            elem = s[0] in ("idx",) or (s[0] == "call" and s[1].endswith(("::get", "Index::index")))
            if not (good_inf or elem):
                problems.append(f"the reduction starts from `{render(s)[:40]}` instead of {INF[kind]}() or a data element")
        if not seeds:
            problems.append("could not identify the start value of the reduction")
    if kind == "softmax":
        # the stabilising shift subtracted before exp() is a maximum: it must start from -inf or a data element
        res = Resolver(body)
        shifts = []
        for bb, t in body.calls():
            f = t.get("f")
            if f and f["path"].endswith("::exp") and t["args"]:
                a = res.operand(t["args"][0])
                if a[0] == "call" and a[1] == "std::ops::Sub::sub" and len(a[2]) == 2:
                    shifts.append(a[2][1])
        if not shifts:
            problems.append("could not identify the shift subtracted before exp()")
        for sh in shifts:
            seeds = []
            for a in alts(sh):
                if a[0] == "call" and a[1].endswith("Iterator::fold") and len(a[2]) >= 2:
                    seeds.append(a[2][1])
                elif a[0] == "call" and (a[1].endswith(("::max", "::min")) or a[1].startswith("mut:")):
                    continue
                else:
                    seeds.append(a)
            for s in seeds:
                good = (s[0] == "call" and s[1].endswith("::neg_infinity") and not s[2]) or s[0] == "idx" or \
                    (s[0] == "call" and s[1].endswith(("::get", "Index::index", "BaseMatrix::max")))
                if not good:
                    problems.append(f"the shift (maximum) starts from `{render(s)[:40]}` instead of neg_infinity() or a data element")
    if kind == "argmax":
        found = False
        allcmps = []
        for bd in bodies:
            allcmps.extend(BodyCtx.of(bd).cmps)
        for c in allcmps:
            for (L, R) in ((c.lhs, c.rhs), (c.rhs, c.lhs)):
                isdata = L[0] == "idx" or (L[0] == "call" and L[1].endswith(("::get", "Index::index"))) or \
                (L[0] == "field" and any(s_[0] == "call" and s_[1].endswith("Iterator::next") for s_ in subterms(L)))
                if isdata and R[0] == "phi":
                    found = True
                    for a in R[2]:
                        if a == L or (a[0] == "call" and a[1].startswith("mut:")):
                            continue
                        good = (a[0] == "call" and a[1].endswith("::neg_infinity") and not a[2]) or a[0] == "idx" or \
                            (a[0] == "call" and a[1].endswith(("::get", "Index::index")))
                        if not good:
                            problems.append(f"the running maximum starts from `{render(a)[:40]}` instead of neg_infinity() or a data element")
        if not found:
            # iterator form (max_by / fold): no start value to get wrong
            its = [bd for bd in bodies for _, t in bd.calls() if t.get("f") and t["f"]["path"].endswith(("Iterator::max_by", "Iterator::max_by_key"))]
            folds = []
            for bd in bodies:
                rs_ = Resolver(bd)
                for _, t in bd.calls():
                    if t.get("f") and t["f"]["path"].endswith("Iterator::fold") and len(t["args"]) == 3:
                        folds.append(rs_.operand(t["args"][1]))
            for seed in folds:
                # fold((start, 0), |(best, at), (i, v)| if v > best { (v, i) } else { (best, at) }): the start value of the maximum
                first = seed[2][0] if seed[0] == "agg" and seed[2] else seed
                good = (first[0] == "call" and first[1].endswith("::neg_infinity") and not first[2]) or first[0] == "idx" or \
                    (first[0] == "call" and first[1].endswith(("::get", "Index::index")))
                if not good:
                    problems.append(f"the running maximum starts from `{render(first)[:40]}` instead of neg_infinity() or a data element")
            if not its and not folds:
                problems.append("could not identify the running-maximum comparison")
    return problems


def argmax_tie_class(prog, body):
    """'first' / 'last' (which of several equal maxima wins) or None if the idiom is not recognised"""
    r = _argmax_tie_class(prog, body)
    if r is None:
        stack = list(prog.closures_of.get(body.path, []))
        while stack:
            cb = stack.pop()
            stack.extend(prog.closures_of.get(cb.path, []))
            r = r or _argmax_tie_class(prog, cb) or _argmax_tie_fold(cb)
    return r


def _argmax_tie_fold(cb):
    """closure of `fold((start, 0), |(best, at), (i, v)| if v > best { (v, i) } else { (best, at) })`: the comparison between
    the item (closure argument 3) and the accumulator (argument 2); the edge on which a new tuple is built decides"""
    cx = BodyCtx.of(cb)
    acc = lambda t: any(x[0] == "arg" and x[1] == 2 for x in [t] + list(subterms(t)))
    itm = lambda t: any(x[0] == "arg" and x[1] == 3 for x in [t] + list(subterms(t)))
    builds = [i for i, j, st in cb.stmts() if st["k"] == "assign" and st["r"]["k"] == "agg" and len(st["r"].get("ops", [])) == 2
              and any(itm(cx.res.operand(o)) for o in st["r"]["ops"])]
    for c in cx.cmps:
        for (L, R, rel) in ((c.lhs, c.rhs, c.rel), (c.rhs, c.lhs, guards.FLIP[c.rel])):
            if itm(L) and not acc(L) and acc(R) and not itm(R):
                for er, dst, other in ((rel, c.true_bb, c.false_bb), (guards.NEG[rel], c.false_bb, c.true_bb)):
                    if any(cb.dominates(dst, u) and not cb.dominates(other, u) for u in builds):
                        atoms = guards.ATOMS[er]
                        if atoms == frozenset("p"):
                            return "first"
                        if atoms == frozenset("pz"):
                            return "last"
    return None


def _argmax_tie_class(prog, body):
    cx = BodyCtx.of(body)
    for c in cx.cmps:
        for (L, R, rel) in ((c.lhs, c.rhs, c.rel), (c.rhs, c.lhs, guards.FLIP[c.rel])):
            isdata = L[0] == "idx" or (L[0] == "call" and L[1].endswith(("::get", "Index::index"))) or \
                (L[0] == "field" and any(s_[0] == "call" and s_[1].endswith("Iterator::next") for s_ in subterms(L)))
            if isdata and R[0] == "phi":
                # the edge on which the running maximum is replaced by the element
                upd = [d.bb for d in body.defs.get(R[1], []) if d.kind == "assign" and d.bb != 0]
                for er, dst, other in ((rel, c.true_bb, c.false_bb), (guards.NEG[rel], c.false_bb, c.true_bb)):
                    reach = body.reachable_from([dst], cut_edges=guards.back_edges(body), cut_blocks=frozenset([other]))
                    if any(bb in reach for bb in upd) and not any(bb in body.reachable_from([other], cut_edges=guards.back_edges(body), cut_blocks=frozenset([dst])) for bb in upd if bb in reach):
                        atoms = guards.ATOMS[er]   # sign(elem - max) on the updating edge
                        if atoms == frozenset("p"):
                            return "first"
                        if atoms == frozenset("pz"):
                            return "last"
    bodies = [body] + prog.closures_of.get(body.path, [])
    for bd in bodies:
        for bb, t in bd.calls():
            f = t.get("f")
            if f and f["path"].endswith(("Iterator::max_by", "Iterator::max_by_key")):
                return "last"
    return None


PARTIAL_ON_NEGATIVE = ("::powf", "::sqrt", "::ln", "::log", "::log2", "::log10", "::ln_1p")


def _raw_dep(t, leaf):
    """does term t depend on a leaf satisfying `leaf` other than through abs(..)?"""
    seen = set()
    work = [t]
    while work:
        s = work.pop()
        if not isinstance(s, tuple) or not s or id(s) in seen:
            continue
        seen.add(id(s))
        if isinstance(s[0], str):
            if s[0] == "call" and s[1].endswith("::abs"):
                # abs() shields the sign only if nothing undefined for negative arguments was applied before it:
                # |x^p| is NaN for x < 0 and fractional p, |x|^p is not
                inner = [u for u in subterms(s[2][0]) if u[0] == "call" and u[1].endswith(PARTIAL_ON_NEGATIVE)] if s[2] else []
                if any(_raw_dep(u, leaf) for u in inner):
                    return True
                continue
            if leaf(s):
                return True
            for x in s[1:]:
                if isinstance(x, tuple):
                    work.append(x)
        else:
            work.extend(s)
    return False


def norm_sign_rule(prog, body):
    """the norms depend on the data only through |x|: every element that reaches an accumulator passes through abs()"""
    problems = []
    n_sites = 0
    res = Resolver(body)

    def closure_of(t):
        if t[0] == "agg" and t[1].startswith("closure:"):
            return prog.get(t[1][len("closure:"):])
        return None
    for bb, t in body.calls():
        f = t.get("f")
        if not f:
            continue
        if f["path"].endswith("Iterator::fold") and len(t["args"]) == 3:
            n_sites += 1
            recv = res.operand(t["args"][0])
            upstream_abs = False
            for s in subterms(recv):
                if s[0] == "call" and s[1].endswith("Iterator::map") and len(s[2]) == 2:
                    mc = closure_of(s[2][1])
                    if mc is not None:
                        mr = Resolver(mc).local(0)
                        if mr[0] == "call" and mr[1].endswith("::abs"):
                            upstream_abs = True
            k = closure_of(res.operand(t["args"][2]))
            if k is None:
                problems.append(f"fold at {body.where(bb)}: combiner is not a closure literal")
                continue
            kr = Resolver(k).local(0)
            item = lambda s: s[0] == "arg" and s[1] == 3
            for a in alts(kr):
                if _raw_dep(a, item) and not upstream_abs:
                    problems.append(f"fold at {body.where(bb)}: the element reaches the accumulator without abs(): `{render(a)[:60]}`")
        if f["path"] in ("std::ops::AddAssign::add_assign",) and len(t["args"]) == 2:
            v = res.operand(t["args"][1])
            elem = lambda s: (s[0] == "variant" and s[2] == "Some") or s[0] == "idx" or (s[0] == "call" and s[1].endswith("::get"))
            if any(elem(s) for s in subterms(v)):
                n_sites += 1
                if _raw_dep(v, elem):
                    problems.append(f"accumulation at {body.where(bb)}: the element is added without abs(): `{render(v)[:60]}`")
    # loop form of a running extremum: `if !(largest > v) { largest = v; }` with v derived from the element
    elem = lambda s: (s[0] == "variant" and s[2] == "Some") or s[0] == "idx" or (s[0] == "call" and s[1].endswith("::get"))
    seen_acc = set()
    for c in BodyCtx.of(body).cmps:
        for (A, V) in ((c.lhs, c.rhs), (c.rhs, c.lhs)):
            if A[0] != "phi" or A[1] in seen_acc or not any(elem(x) for x in subterms(V)):
                continue
            if any(d.kind == "assign" and res.rvalue(d.data["r"], 0, ()) == V for d in body.defs.get(A[1], [])):
                seen_acc.add(A[1])
                n_sites += 1
                if _raw_dep(V, elem):
                    problems.append(f"running extremum at {c.where}: the element is compared / stored without abs(): `{render(V)[:60]}`")
    if n_sites < 3:
        problems.append(f"only {n_sites} accumulation sites recognised (expected the +inf, -inf and p-norm branches)")
    return problems


def dot_orientation(prog, body):
    """BaseMatrix::dot is the inner product of two vectors in either orientation.  'elementwise' (sums a_i*b_i over all
    elements: orientation-free) or 'product-pick' (a matrix product of which one entry is picked: only right for row vectors)"""
    res = Resolver(body)
    ret = res.local(0)
    picks = [s for s in subterms(ret) if s[0] == "idx" and s[1][0] == "call" and re.search(r"ArrayBase<S, ndarray::Dim<\[usize; 2\]>>>::dot$|^std::ops::Mul::mul$", s[1][1])]
    if picks:
        return "product-pick", render(picks[0])[:100]
    for bb, t in body.calls():
        f = t.get("f")
        if f and re.search(r"blas::<impl nalgebra::Matrix<T, R, C, S>>::dot$", f["path"]):
            return "elementwise", "nalgebra dot: sum of a_ij * b_ij over equal-shaped operands"
    # loop / iterator accumulation of products of corresponding elements
    for s in subterms(ret):
        if s[0] == "call" and s[1] in ("mut:std::ops::AddAssign::add_assign", "std::ops::Mul::mul"):
            return "elementwise", render(s)[:100]
        if s[0] == "call" and s[1].endswith(("Iterator::sum", "Iterator::fold")):
            return "elementwise", render(s)[:100]
    return None, render(ret)[:100]


def _bool_eval(prog, body, assign, depth=0):
    """propagate Boolean locals through `body` under an assignment of the four unit-dimension atoms
    (self.rows == 1, self.cols == 1, other.rows == 1, other.cols == 1; None = unknown).
    returns (reachable blocks, set of values of the return place at the return blocks; None in the set = unknown)"""
    res = Resolver(body)
    atoms = {("rows", 1): 0, ("cols", 1): 1, ("rows", 2): 2, ("cols", 2): 3}

    def atom_test(term):
        c = guards._cond(res, term) if term[0] in ("bin", "call", "un") else None
        if not c:
            return None
        for (L, R, rel) in ((c[0], c[2], c[1]), (c[2], c[0], guards.FLIP[c[1]])):
            d = dim_of(L)
            if d and d[0] in ("rows", "cols") and d[1][0] == "arg" and (d[0], d[1][1]) in atoms and R == ("int", 1) and rel in ("==", "!="):
                return atoms[(d[0], d[1][1])], rel
        return None
    state = {0: {}}
    work = [0]
    rets = set()
    while work:
        bb = work.pop()
        blk = body.blocks[bb]
        if blk["cleanup"]:
            continue
        env = dict(state[bb])
        for st in blk["stmts"]:
            if st["k"] != "assign" or st["p"]["pr"]:
                continue
            l, r = st["p"]["l"], st["r"]
            val = None
            if r["k"] == "use":
                o = r["o"]
                if o["k"] == "const" and o.get("ty") == "bool":
                    val = False if "false" in str(o).lower() else (True if "true" in str(o).lower() else None)
                elif o["k"] in ("copy", "move") and not o["p"]["pr"] and o["p"]["l"] in env:
                    val = env[o["p"]["l"]]
            elif r["k"] == "bin":
                at = atom_test(res.rvalue(r, 0, ()))
                if at and assign[at[0]] is not None:
                    val = assign[at[0]] if at[1] == "==" else (not assign[at[0]])
            elif r["k"] == "un" and r.get("op") == "Not":
                o = r["o"]
                if o["k"] in ("copy", "move") and not o["p"]["pr"] and o["p"]["l"] in env:
                    val = not env[o["p"]["l"]]
            if val is None:
                env.pop(l, None)
            else:
                env[l] = val
        t = blk["term"]
        if t["k"] == "return":
            rets.add(env.get(0))
        succ = []
        if t["k"] == "switch" and t["o"]["k"] in ("copy", "move") and not t["o"]["p"]["pr"] and t["o"]["p"]["l"] in env \
                and len(t["targets"]) == 1 and t["targets"][0][0] == "0":
            succ = [t["otherwise"]] if env[t["o"]["p"]["l"]] else [t["targets"][0][1]]
        else:
            succ = [x for x in body.succs[bb]]
            if t["k"] == "call" and t.get("d") and not t["d"]["pr"]:
                env.pop(t["d"]["l"], None)
                # a local Boolean helper applied to one of the two operands: `is_vector(self)`
                f = t.get("f")
                cal = None
                if f and prog is not None and depth < 2:
                    for key in (f.get("resolved"), f.get("path")):
                        if key and key in prog.bodies:
                            cal = prog.bodies[key]
                if cal is not None and cal is not body and cal.local_ty(0) == "bool" and "{closure" in cal.path and len(t["args"]) == 2:
                    # a Boolean closure applied to one operand: `let is_vector = |m: &Self| ..; is_vector(self)`; the closure's
                    # parameter is its argument 2
                    tup = res.operand(t["args"][1])
                    x = tup[2][0] if tup[0] == "agg" and tup[2] else None
                    if x is not None and x[0] == "arg" and x[1] in (1, 2) and len(tup[2]) == 1:
                        src = (0, 1) if x[1] == 1 else (2, 3)
                        sub = [None, None, assign[src[0]], assign[src[1]]]
                        _, rv = _bool_eval(prog, cal, sub, depth + 1)
                        if len(rv) == 1 and None not in rv:
                            env[t["d"]["l"]] = next(iter(rv))
                elif cal is not None and cal is not body and cal.local_ty(0) == "bool" and len(t["args"]) >= 1:
                    sub = [None, None, None, None]
                    for j, a in enumerate(t["args"][:2]):
                        at_ = res.operand(a)
                        if at_[0] == "arg" and at_[1] in (1, 2):
                            src = (0, 1) if at_[1] == 1 else (2, 3)
                            sub[2 * j], sub[2 * j + 1] = assign[src[0]], assign[src[1]]
                    _, rv = _bool_eval(prog, cal, sub, depth + 1)
                    if len(rv) == 1 and None not in rv:
                        env[t["d"]["l"]] = next(iter(rv))
                elif cal is not None and cal is not body and cal.local_ty(0) in ("()", "!") and len(t["args"]) >= 2:
                    # a private checking helper that receives the two operands and panics: `self.check_operands(other);`
                    ats = [res.operand(a) for a in t["args"][:2]]
                    if all(a[0] == "arg" and a[1] in (1, 2) for a in ats) and {a[1] for a in ats} == {1, 2}:
                        sub = [None, None, None, None]
                        for j, a in enumerate(ats):
                            src = (0, 1) if a[1] == 1 else (2, 3)
                            sub[2 * j], sub[2 * j + 1] = assign[src[0]], assign[src[1]]
                        hreach, _ = _bool_eval(prog, cal, sub, depth + 1)
                        if not any(r in hreach for r in cal.returns):
                            succ = []                              # the helper refuses this combination: the call diverges
        for sx in succ:
            if body.blocks[sx]["cleanup"]:
                continue
            if sx not in state:
                state[sx] = dict(env)
                work.append(sx)
            else:
                merged = {k: v for k, v in state[sx].items() if env.get(k) == v}
                if merged != state[sx]:
                    state[sx] = merged
                    work.append(sx)
    return set(state), rets


def dot_vector_gate(body, prog=None):
    """truth table over (self.rows == 1, self.cols == 1, other.rows == 1, other.cols == 1): a non-panicking return must be
    reachable exactly when each operand has a unit dimension. Boolean locals and local Boolean helpers are propagated (the
    tests may be combined through named flags or `fn is_vector(m) -> bool`). returns (n_tests, bad[list of str])"""
    import itertools
    res = Resolver(body)
    n_tests = 0
    for i, j, st in body.stmts():
        if st["k"] == "assign" and st["r"]["k"] == "bin" and not st["p"]["pr"]:
            c = guards._cond(res, res.rvalue(st["r"], 0, ()))
            if c and (c[2] == ("int", 1) or c[0] == ("int", 1)) and (dim_of(c[0]) or dim_of(c[2])):
                n_tests += 1
    # tests that live in a private helper called with the two operands
    if prog is not None:
        for bb, t in body.calls():
            f = t.get("f")
            cal = None
            for key in ((f or {}).get("resolved"), (f or {}).get("path")):
                if key and key in prog.bodies:
                    cal = prog.bodies[key]
            if cal is not None and cal is not body and (len(t["args"]) >= 2 or "{closure" in cal.path):
                hres = Resolver(cal)
                for i, j, st in cal.stmts():
                    if st["k"] == "assign" and st["r"]["k"] == "bin" and not st["p"]["pr"]:
                        c = guards._cond(hres, hres.rvalue(st["r"], 0, ()))
                        if c and (c[2] == ("int", 1) or c[0] == ("int", 1)) and (dim_of(c[0]) or dim_of(c[2])):
                            n_tests += 1
    bad = []
    for assign in itertools.product((False, True), repeat=4):
        reach, _ = _bool_eval(prog, body, list(assign))
        can_return = any(r in reach for r in body.returns)
        must_reject = not ((assign[0] or assign[1]) and (assign[2] or assign[3]))
        shape = lambda r1, c1: f"{'1' if r1 else 'm'}x{'1' if c1 else 'n'}"
        if must_reject and can_return:
            bad.append(f"accepts {shape(assign[0], assign[1])} . {shape(assign[2], assign[3])}")
        if not must_reject and not can_return:
            bad.append(f"refuses {shape(assign[0], assign[1])} . {shape(assign[2], assign[3])}")
    return n_tests, bad
