"""E1: comparison records, edge outcomes, guard matching."""
from collections import namedtuple

from .mir import Body, PANIC_NAMES
from .prov import Resolver, render, alts

# relation asserted between L and R
NEG = {"<": ">=", "<=": ">", ">": "<=", ">=": "<", "==": "!=", "!=": "=="}
FLIP = {"<": ">", "<=": ">=", ">": "<", ">=": "<=", "==": "==", "!=": "!="}
ATOMS = {  # sign of (L - R)
    "<": frozenset("n"), "<=": frozenset("nz"), ">": frozenset("p"), ">=": frozenset("pz"),
    "==": frozenset("z"), "!=": frozenset("np"),
}
BINOPS = {"Lt": "<", "Le": "<=", "Gt": ">", "Ge": ">=", "Eq": "==", "Ne": "!="}
CMP_CALLS = {
    "std::cmp::PartialOrd::lt": "<", "std::cmp::PartialOrd::le": "<=",
    "std::cmp::PartialOrd::gt": ">", "std::cmp::PartialOrd::ge": ">=",
    "std::cmp::PartialEq::eq": "==", "std::cmp::PartialEq::ne": "!=",
}

Cmp = namedtuple("Cmp", "bb lhs rhs rel true_bb false_bb where")
INT_TYS = {"usize", "u8", "u16", "u32", "u64", "u128", "isize", "i8", "i16", "i32", "i64", "i128"}
# rel: relation asserted on the edge bb->true_bb ; NEG[rel] on bb->false_bb


def _cond(res: Resolver, t):
    """term -> (lhs, rel, rhs) asserted when the term is true, or None"""
    if t[0] == "bin" and t[1] in BINOPS:
        return (t[2], BINOPS[t[1]], t[3])
    if t[0] == "call" and t[1] in CMP_CALLS and len(t[2]) == 2:
        return (t[2][0], CMP_CALLS[t[1]], t[2][1])
    if t[0] == "un" and t[1] == "Not":
        c = _cond(res, t[2])
        if c:
            return (c[0], NEG[c[1]], c[2])
    return None


def comparisons(body: Body, res: Resolver = None):
    """All two-way switches whose discriminant resolves to a comparison."""
    res = res or Resolver(body)
    out = []
    for i, blk in enumerate(body.blocks):
        if blk["cleanup"] or i not in body.reach:
            continue
        t = blk["term"]
        if t["k"] != "switch":
            continue
        o = t["o"]
        if o["k"] not in ("copy", "move"):
            continue
        oty = body.local_ty(o["p"]["l"]) if not o["p"]["pr"] else ""
        if oty in INT_TYS:
            # `match k { 0 => .., 3 => .., _ => .. }` on an integer: one equality test per listed value
            term = res.operand(o)
            if term[0] == "discr":
                continue
            bits = {"i8": 8, "i16": 16, "i32": 32, "i64": 64, "i128": 128, "isize": 64}.get(oty)
            for v, dst in t["targets"]:
                iv = int(v)
                if bits and iv >= (1 << (bits - 1)):
                    iv -= (1 << bits)                      # switch values are raw bit patterns: -1i32 is 0xFFFF_FFFF
                out.append(Cmp(i, term, ("int", iv), "==", dst, t["otherwise"], body.where(i)))
            continue
        if len(t["targets"]) != 1 or t["targets"][0][0] != "0":
            continue
        term = res.operand(o)
        for a in alts(term):
            c = _cond(res, a)
            if c:
                out.append(Cmp(i, c[0], c[2], c[1], t["otherwise"], t["targets"][0][1], body.where(i)))
    return out


def bool_switches(body: Body, res: Resolver = None):
    """two-way switches on a bool that is NOT a comparison: (bb, term, true_bb, false_bb)"""
    res = res or Resolver(body)
    out = []
    for i, blk in enumerate(body.blocks):
        if blk["cleanup"] or i not in body.reach:
            continue
        t = blk["term"]
        if t["k"] != "switch" or len(t["targets"]) != 1 or t["targets"][0][0] != "0":
            continue
        o = t["o"]
        if o["k"] not in ("copy", "move"):
            continue
        term = res.operand(o)
        neg = False
        while term[0] == "un" and term[1] == "Not":
            term = term[2]
            neg = not neg
        if _cond(res, term):
            continue
        tb, fb = t["otherwise"], t["targets"][0][1]
        if neg:
            tb, fb = fb, tb
        out.append((i, term, tb, fb))
    return out


# ------------------------------------------------------------------ outcomes
def _ret_kind(body: Body, res: Resolver, d):
    """classify one definition of _0"""
    if d.kind == "call":
        f = d.data.get("f")
        if f and f["path"] == "std::ops::FromResidual::from_residual":
            return "Err"  # `?` propagation of the residual (Err / None)
        return "call:" + (f["path"] if f else "?")
    if d.kind == "assign":
        r = d.data["r"]
        if r["k"] == "agg" and r["ak"] == "adt":
            if r["name"] == "std::result::Result":
                return r["variant"]
            if r["name"] == "std::option::Option":
                return r["variant"]
            return "adt"
        if r["k"] == "use" and r["o"]["k"] == "const" and "int" in r["o"] and r["o"]["ty"] == "bool":
            return "true" if r["o"]["int"] == "1" else "false"
        if r["k"] == "use" and r["o"]["k"] in ("copy", "move"):
            t = res.operand(r["o"])
            for a in alts(t):
                if a[0] == "agg" and a[1] in ("std::result::Result::Err", "std::option::Option::None"):
                    continue
                break
            else:
                return "Err"
            if t[0] == "int" and body.local_ty(0) == "bool":
                return "true" if t[1] == 1 else "false"
        return "other"
    return "other"


def _bool_infeasible(body: Body, src, dst):
    """Edges that cannot be taken after the edge src->dst, by constant propagation of Boolean locals: the edge fixes the
    value of the switch operand of `src`; `x = const bool`, `x = copy y` propagate; a two-way switch on a known local has
    one feasible successor.  Joins intersect.  (`let same = a == b && c == d; if same && .. { .. } else { false }`: on the
    a != b edge `same` is false, so only the else branch follows.)"""
    t = body.blocks[src]["term"]
    env0 = {}
    if t["k"] == "switch" and t["o"]["k"] in ("copy", "move") and not t["o"]["p"]["pr"] and len(t["targets"]) == 1 and t["targets"][0][0] == "0" \
            and body.local_ty(t["o"]["p"]["l"]) == "bool" and t["targets"][0][1] != t["otherwise"]:
        env0[t["o"]["p"]["l"]] = (dst == t["otherwise"])
    if not env0:
        return frozenset()
    state = {dst: dict(env0)}
    work = [dst]
    infeasible = set()
    feasible = set()
    guard = 0
    while work and guard < 5000:
        guard += 1
        bb = work.pop()
        blk = body.blocks[bb]
        if blk["cleanup"]:
            continue
        env = dict(state[bb])
        for st in blk["stmts"]:
            if st["k"] != "assign":
                continue
            l = st["p"]["l"]
            if st["p"]["pr"]:
                env.pop(l, None)
                continue
            r, val = st["r"], None
            if r["k"] == "use":
                o = r["o"]
                if o["k"] == "const" and o.get("ty") == "bool":
                    txt = str(o).lower()
                    val = False if "false" in txt else (True if "true" in txt else None)
                elif o["k"] in ("copy", "move") and not o["p"]["pr"] and o["p"]["l"] in env:
                    val = env[o["p"]["l"]]
            elif r["k"] == "un" and r.get("op") == "Not" and r["a"]["k"] in ("copy", "move") and not r["a"]["p"]["pr"] and r["a"]["p"]["l"] in env:
                val = not env[r["a"]["p"]["l"]]
            if val is None:
                env.pop(l, None)
            else:
                env[l] = val
        tt = blk["term"]
        succs = list(body.succs[bb])
        if tt["k"] == "call" and tt.get("d") and not tt["d"]["pr"]:
            env.pop(tt["d"]["l"], None)
        if tt["k"] == "switch" and tt["o"]["k"] in ("copy", "move") and not tt["o"]["p"]["pr"] and tt["o"]["p"]["l"] in env \
                and len(tt["targets"]) == 1 and tt["targets"][0][0] == "0":
            take = tt["otherwise"] if env[tt["o"]["p"]["l"]] else tt["targets"][0][1]
            for x in succs:
                if x != take:
                    infeasible.add((bb, x))
            succs = [take]
        for x in succs:
            feasible.add((bb, x))
            old = state.get(x)
            if old is None:
                state[x] = dict(env)
                work.append(x)
            else:
                met = {k: v for k, v in old.items() if env.get(k, None) is v}
                if met != old:
                    state[x] = met
                    work.append(x)
    # an edge found infeasible under a stronger (earlier) environment may be feasible after a join weakened it
    return frozenset(e for e in infeasible if e not in feasible) if guard < 5000 else frozenset()


def edge_outcomes(body: Body, src, dst, res: Resolver = None, cut_edges=frozenset()):
    """Set of outcomes on all paths starting with the edge src->dst:
       'panic' (diverges) and/or the kinds of the last definition of _0 at Return."""
    res = res or Resolver(body)
    cut_edges = frozenset(cut_edges) | _bool_infeasible(body, src, dst)
    # forward dataflow: state[bb] = set of last-def ids of _0 on entry
    ret_defs = {}
    for d in body.defs.get(0, []):
        ret_defs[(d.bb, d.idx)] = d
    # partial definitions of _0 (field-wise construction) count as 'other'
    pdefs = {(d.bb, d.idx): d for d in body.partial_defs.get(0, [])}
    state = {}
    work = [(dst, frozenset(["<none>"]))]
    outcomes = set()
    while work:
        bb, inc = work.pop()
        old = state.get(bb)
        if old is not None and inc <= old:
            continue
        cur = (old or frozenset()) | inc
        state[bb] = cur
        # transfer through the block
        out = cur
        blk = body.blocks[bb]
        last = None
        for j, s in enumerate(blk["stmts"]):
            if (bb, j) in ret_defs:
                last = ("def", bb, j)
            elif (bb, j) in pdefs:
                last = ("pdef", bb, j)
        if (bb, "term") in ret_defs:
            last = ("def", bb, "term")
        elif (bb, "term") in pdefs:
            last = ("pdef", bb, "term")
        if last:
            out = frozenset([last])
        t = blk["term"]
        if t["k"] == "return":
            for o in out:
                if o == "<none>":
                    outcomes.add("unit")
                elif o[0] == "pdef":
                    outcomes.add("other")
                else:
                    outcomes.add(_ret_kind(body, res, ret_defs[(o[1], o[2])]))
            continue
        if not body.succs[bb]:
            outcomes.add("panic")
            continue
        for s in body.succs[bb]:
            if (bb, s) in cut_edges:
                continue
            work.append((s, out))
    return outcomes


def classify_edges(body: Body, res: Resolver = None):
    """For every switch edge, its outcome set. Returns {(src,dst): outcomes}"""
    res = res or Resolver(body)
    out = {}
    for i, blk in enumerate(body.blocks):
        if blk["cleanup"] or i not in body.reach:
            continue
        if blk["term"]["k"] == "switch":
            for s in body.succs[i]:
                out[(i, s)] = edge_outcomes(body, i, s, res)
    return out


def outcome_ok(outs, want):
    """does the outcome set `outs` realise the wanted outcome on *every* path?
       want: 'panic' | 'Err' | 'false' | 'reject' (panic or Err)"""
    if not outs:
        return False
    if want == "panic":
        return outs <= {"panic"}
    if want == "Err":
        return outs <= {"Err", "panic"} and "Err" in outs
    if want == "false":
        return outs <= {"false"}
    if want == "reject":
        return outs <= {"Err", "panic", "None"}
    raise ValueError(want)


def success_subgraph_cuts(body, want, res=None, edges=None):
    """edges whose every path ends in the rejecting outcome (they are not part of
    a successful execution)"""
    edges = edges if edges is not None else classify_edges(body, res)
    return frozenset(e for e, o in edges.items() if outcome_ok(o, "reject" if want in ("Err", "panic", "reject") else want))


class GuardResult:
    def __init__(self):
        self.found = []      # list of dict(cmp, edge, rel_atoms, outcome)
        self.violating = frozenset()
        self.problems = []
        self.sites = []

    @property
    def ok(self):
        return not self.problems


def check_guard(body: Body, subject, bound, reject, accept, want, res=None, cmps=None, edges=None,
                dominate=True, int_domain=None):
    """Generic two-sided guard check.

    subject, bound: predicates term->bool selecting the two sides of the comparison.
    reject / accept: sets of atoms of sign(subject - bound) in {'n','z','p'} that must
        be refused / must be let through.  For integer subjects compared with an
        integer constant, `bound` may be an int c and reject/accept sets of ints
        or ('ge', k) / ('le', k) half-lines over `int_domain` (default usize).
    want: required outcome of refusing edges.
    Returns GuardResult.
    """
    res = res or Resolver(body)
    cmps = cmps if cmps is not None else comparisons(body, res)
    edges = edges if edges is not None else classify_edges(body, res)
    r = GuardResult()
    cuts = success_subgraph_cuts(body, want, res, edges)
    violating = set()
    for c in cmps:
        for (L, R, rel) in ((c.lhs, c.rhs, c.rel), (c.rhs, c.lhs, FLIP[c.rel])):
            if not (_match(subject, L) and _match(bound, R)):
                continue
            for edge_rel, dst in ((rel, c.true_bb), (NEG[rel], c.false_bb)):
                outs = edges.get((c.bb, dst))
                if outs is None:
                    outs = edge_outcomes(body, c.bb, dst, res)
                if outcome_ok(outs, want):
                    atoms = _atoms(edge_rel, R, int_domain)
                    violating |= atoms
                    r.found.append(dict(where=c.where, lhs=render(L), rel=edge_rel, rhs=render(R),
                                        outcome=sorted(outs), bb=c.bb))
                    # domination: the comparison must lie on every successful path
                    if dominate:
                        ok = _on_every_success_path(body, c.bb, cuts)
                        if not ok:
                            r.problems.append(
                                f"guard `{render(L)} {edge_rel} {render(R)}` at {c.where} does not lie on every successful path")
            r.sites.append(c.where)
    r.violating = frozenset(violating)
    rej = _norm_set(reject, int_domain)
    acc = _norm_set(accept, int_domain)
    missing = rej - r.violating
    extra = r.violating & acc
    if missing:
        r.problems.append(f"not refused with outcome {want}: {_show(missing)}"
                          + ("" if r.found else " (no matching comparison with that outcome)"))
    if extra:
        r.problems.append(f"refuses values the statement requires to be accepted: {_show(extra)}")
    return r


def _on_every_success_path(body, bb, cuts):
    """bb lies on every path entry -> Return in the success subgraph"""
    reach_wo = body.reachable_from([0], cut_edges=cuts, cut_blocks=frozenset([bb]))
    if bb == 0:
        return True
    for rb in body.returns:
        if rb in reach_wo:
            return False
    return True


def _match(pred, term):
    if callable(pred):
        return any(pred(a) for a in alts(term)) if term[0] == "phi" else pred(term)
    if isinstance(pred, int):
        return term == ("int", pred)
    return pred == term


USIZE = (0, 2 ** 64 - 1)


def _atoms(rel, R, int_domain):
    """set of values of (subject) asserted by `subject rel R`"""
    if int_domain is not None and R[0] == "int":
        c = R[1]
        lo, hi = int_domain
        if rel == "<":
            return _iv(lo, c - 1, lo, hi)
        if rel == "<=":
            return _iv(lo, c, lo, hi)
        if rel == ">":
            return _iv(c + 1, hi, lo, hi)
        if rel == ">=":
            return _iv(c, hi, lo, hi)
        if rel == "==":
            return _iv(c, c, lo, hi)
        if rel == "!=":
            return _iv(lo, c - 1, lo, hi) | _iv(c + 1, hi, lo, hi)
    return set(ATOMS[rel])


W = 64


class Unrepresentable(Exception):
    pass


def _iv(a, b, lo, hi):
    """integer interval [a,b] within the domain [lo,hi], represented exactly as
    probe points lo..lo+W plus the symbol 'tail' = every value above lo+W.
    Intervals whose finite end lies beyond the window are not representable
    (the guards of this crate compare with 0, 1, 2)."""
    a = max(a, lo)
    b = min(b, hi)
    s = set()
    if a > b:
        return s
    if a > lo + W + 1 or (lo + W < b < hi):
        raise Unrepresentable((a, b))
    for v in range(a, min(b, lo + W) + 1):
        s.add(v)
    if b >= hi:
        s.add("tail")
    return s


def _norm_set(spec, int_domain):
    if int_domain is None:
        return frozenset(spec)
    lo, hi = int_domain
    out = set()
    for x in spec:
        if isinstance(x, tuple) and x[0] == "ge":
            out |= _iv(x[1], hi, lo, hi)
        elif isinstance(x, tuple) and x[0] == "le":
            out |= _iv(lo, x[1], lo, hi)
        else:
            out.add(x)
    return frozenset(out)


def _show(s):
    names = {"n": "subject < bound", "z": "subject == bound", "p": "subject > bound"}
    return "{" + ", ".join(sorted(names.get(x, str(x)) for x in s)) + "}"


# ------------------------------------------------------------------ gates
def back_edges(body: Body):
    out = set()
    for u in body.reach:
        for v in body.succs[u]:
            if body.dominates(v, u):
                out.add((u, v))
    return frozenset(out)


def gate_atoms(body: Body, cmp: Cmp, sinks, lhs_is_subject=True):
    """atoms of sign(subject-bound) under which some sink block is reachable from the
    comparison within the same loop iteration (back edges removed)."""
    be = back_edges(body)
    rel = cmp.rel if lhs_is_subject else FLIP[cmp.rel]
    acc = set()
    for edge_rel, dst in ((rel, cmp.true_bb), (NEG[rel], cmp.false_bb)):
        r = body.reachable_from([dst], cut_edges=be)
        if r & set(sinks):
            acc |= ATOMS[edge_rel]
    return frozenset(acc)


def call_blocks(body: Body, pred):
    return [bb for bb, t in body.calls() if t.get("f") and pred(t["f"])]
