"""Magnitude against a signed raw element (contradiction rule).

A comparison `|a| REL b` (REL an ordering) where b is, on every alternative, either a raw element read (get / index of a
container) or the additive zero, and at least one alternative is a raw element read: one side states the belief that the
sign does not matter, the other side carries a sign.  In pivot / arg-max searches (`if |cand| > best { best = cand }`) this
makes every candidate win once a negative value has been selected, including an exact zero.

check(body) -> [(where, text)] of such comparisons; comparisons whose other side is itself a magnitude (abs, hypot, sqrt,
norm, products with a magnitude), a data-derived tolerance (any arithmetic) or a constant are not reported."""
from .prov import Resolver, render, alts, subterms
from .scale import t_comparisons

IS_ABS = lambda t: t[0] == "call" and t[1].endswith("::abs") and len(t[2]) == 1


def _raw_elem(t):
    if t[0] == "idx":
        return True
    return t[0] == "call" and t[1].split("::")[-1] in ("get", "index") and len(t[2]) >= 2


def _zero(t):
    return t[0] == "call" and t[1].endswith("::zero") and not t[2]


def check(body):
    res = Resolver(body)
    out, seen = [], 0
    for c in t_comparisons(body, res):
        if c["rel"] not in ("<", "<=", ">", ">="):
            continue
        for a, b in ((c["lhs"], c["rhs"]), (c["rhs"], c["lhs"])):
            if not IS_ABS(a) or IS_ABS(b):
                continue
            seen += 1
            al = list(alts(b))
            if al and all(_raw_elem(x) or _zero(x) for x in al) and any(_raw_elem(x) for x in al):
                out.append((c["where"], f"{render(a)[:60]} {c['rel']} {render(b)[:60]}"))
    return out, seen


def run_rule(ck, prog, files, rule="E2d-sign", inst="no magnitude is compared with a signed raw element"):
    n = 0
    for b in prog.bodies.values():
        if b.loc[0] not in files or "::tests::" in b.path:
            continue
        bad, seen = check(b)
        n += seen
        for where, text in bad:
            ck.violation(rule, inst, b.path, where, expected="both sides of a magnitude comparison are magnitudes (|cand| REL |best|)",
                         found=f"`{text}`: the right-hand value keeps its sign; once it is negative every candidate compares greater")
    if n:
        ck.ok(rule, inst, "", "", f"{n} one-sided-abs ordering comparisons inspected in {len(files)} file(s); the other side is never a signed raw element")
    else:
        ck.note(f"{inst}: no one-sided abs comparison in scope: no instance")
