"""Negative-to-unsigned casts behind a sign test.

`while i >= 0 { .. i -= 1 }` leaves i < 0 when it runs to completion; `(i as usize) + 1` / `v[i as usize]` after it then
overflows (debug builds panic with 'attempt to add with overflow') or indexes out of bounds.  Rule: on the edge of a
comparison that asserts a signed local i < 0 (or <= -1), no cast of i to an unsigned type is reachable before i is
re-defined.  Path rule on the CFG; the only assumption is that the asserting edge is feasible - it is the loop's
regular exit."""
from .guards import ATOMS, NEG, FLIP, comparisons
from .prov import Resolver

SIGNED = ("i8", "i16", "i32", "i64", "i128", "isize")
UNSIGNED = ("u8", "u16", "u32", "u64", "u128", "usize")


def _source(body, l, depth=0):
    """the user local a temporary is a plain copy of"""
    ds = body.defs.get(l, [])
    if depth < 4 and len(ds) == 1 and ds[0].kind == "assign" and ds[0].data["r"]["k"] == "use" and \
            ds[0].data["r"]["o"]["k"] in ("copy", "move") and not ds[0].data["r"]["o"]["p"]["pr"]:
        return _source(body, ds[0].data["r"]["o"]["p"]["l"], depth + 1)
    return l


def check(body):
    """returns (n_sign_tests, problems[(where, msg)])"""
    res = Resolver(body)
    n, problems = 0, []
    seen = set()
    for c in comparisons(body, res):
        for (L, R, rel) in ((c.lhs, c.rhs, c.rel), (c.rhs, c.lhs, FLIP[c.rel])):
            if not (L[0] in ("phi", "local") and R == ("int", 0)):
                continue
            l = L[1]
            if body.local_ty(l) not in SIGNED:
                continue
            n += 1
            for er, dst in ((rel, c.true_bb), (NEG[rel], c.false_bb)):
                if not ATOMS[er] <= frozenset("n"):
                    continue
                # forward from the negative edge, stopping at re-definitions of l
                defs = {(d.bb, d.idx) for d in body.defs.get(l, []) if d.kind in ("assign", "call")}
                work, visited = [dst], set()
                while work:
                    bb = work.pop()
                    if bb in visited or body.blocks[bb]["cleanup"]:
                        continue
                    visited.add(bb)
                    killed = False
                    for j, s in enumerate(body.blocks[bb]["stmts"]):
                        if s["k"] == "assign" and s["r"]["k"] == "cast" and s["r"]["ty"] in UNSIGNED and \
                                s["r"]["o"]["k"] in ("copy", "move") and not s["r"]["o"]["p"]["pr"] and _source(body, s["r"]["o"]["p"]["l"]) == l:
                            key = (bb, j)
                            if key not in seen:
                                seen.add(key)
                                problems.append((body.where(bb, j), f"`{body.local_name(l) or '_%d' % l}` is cast to {s['r']['ty']} at "
                                                 f"{body.where(bb, j)} on a path where the test at {c.where} has just established that it is negative"))
                        if (bb, j) in defs:
                            killed = True
                            break
                    if killed:
                        continue
                    if (bb, "term") in defs:
                        continue
                    work.extend(body.succs[bb])
    return n, problems


def run_rule(ck, prog, files, rule="E2i-negcast"):
    tot = 0
    for path, b in sorted(prog.bodies.items()):
        if not b.loc or b.loc[0] not in files:
            continue
        n, problems = check(b)
        if not n:
            continue
        tot += n
        inst = "no unsigned cast of a signed counter on a path where it is known to be negative"
        for k, (where, msg) in enumerate(problems):
            ck.violation(rule, inst, b.path, where, ordinal=k,
                         expected="after `i >= 0` fails the counter is not converted to an unsigned index (use i + 1 before the cast, or an unsigned counter)",
                         found=msg + ": the conversion wraps to a huge value; the following `+ 1` overflows (panic in debug builds) or the index is out of bounds")
        if not problems:
            ck.ok(rule, inst, b.path, f"{b.loc[0]}:{b.loc[1]}", f"{n} sign test(s) on signed counters, no unsigned cast on the negative side")
    return tot
