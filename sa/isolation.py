"""Iteration isolation for row loops of predict-like functions.

Rule: in `for i in 0..rows(x)` every piece of state that one iteration reads was (re)defined completely earlier in the
same iteration - except the loop's own iterator and the result container, which is only ever written at a position that
depends on i and never read inside the loop. A buffer that is allocated before the loop and only partly reset inside it
carries data from the rows already processed into the prediction of the current row.

Positive identification only: a local is reported when (a) it is changed inside the loop through a store / &mut call,
(b) some in-loop mention of it is not dominated by an in-loop complete definition, and (c) it is not the iterator or the
result container.  Complete definitions: whole-local assignment, call result, `fill/clear/copy_from_slice/clone_from/
copy_row_as_vec/copy_col_as_vec` applied to the whole local, and reset loops over the local's full length."""
from .guards import back_edges
from .match import dim_of
from .prov import Resolver, render, subterms, alts

FULL_OVERWRITE = ("::fill", "::clear", "::copy_from_slice", "::clone_from", "::copy_row_as_vec", "::copy_col_as_vec",
                  "::clone_from_slice")
WHOLE_VIEW = ("::deref_mut", "::as_mut_slice", "::as_mut", "::borrow_mut", "::iter_mut", "::deref", "::as_slice",
              "::as_ref", "::iter", "::into_iter")
RESULT_WRITES = ("::set", "::add_element_mut", "::sub_element_mut", "::mul_element_mut", "::div_element_mut",
                 "::index_mut", "::push", "::insert")
ITER_NEXT = ("Iterator::next",)


def _places(j, out):
    if isinstance(j, dict):
        if "l" in j and "pr" in j and isinstance(j["pr"], list):
            out.append(j)
            for e in j["pr"]:
                if isinstance(e, dict) and "i" in e:
                    out.append({"l": e["i"], "pr": []})
            return
        for k, v in j.items():
            if k in ("s", "f", "d"):
                continue
            _places(v, out)
    elif isinstance(j, list):
        for v in j:
            _places(v, out)


def mentions(body, bb):
    """[(idx, local)] every local mentioned (read, borrowed or written through a projection) per statement/terminator"""
    out = []
    b = body.blocks[bb]
    for j, s in enumerate(b["stmts"]):
        ps = []
        if s["k"] == "assign":
            _places(s["r"], ps)
            if s["p"]["pr"]:
                ps.append(s["p"])
                for e in s["p"]["pr"]:
                    if isinstance(e, dict) and "i" in e:
                        ps.append({"l": e["i"], "pr": []})
        elif s["k"] == "setdiscr":
            ps.append(s["p"])
        for p in ps:
            out.append((j, p["l"]))
    t = b["term"]
    ps = []
    for k, v in t.items():
        if k in ("s", "f", "d", "t", "u", "targets", "otherwise"):
            continue
        _places(v, ps)
    if t["k"] == "call" and t["d"]["pr"]:
        ps.append(t["d"])
    for p in ps:
        out.append((len(b["stmts"]), p["l"]))
    return out


def natural_loops(body):
    loops = {}
    for (u, h) in back_edges(body):
        nodes = loops.setdefault(h, {h})
        work = [u]
        while work:
            n = work.pop()
            if n in nodes:
                continue
            nodes.add(n)
            work.extend(p for p in body.preds[n] if p in body.reach)
    return loops


def _idx_of(d, body):
    return len(body.blocks[d.bb]["stmts"]) if d.idx == "term" else d.idx


def _ref_chain_whole(body, l, target, depth=0):
    """does reference local l denote the whole of `target` (no sub-range / element selection on the way)?"""
    if depth > 8:
        return False
    ds = body.defs.get(l, [])
    ds = [d for d in ds if d.kind in ("assign", "call")]
    if len(ds) != 1:
        return False
    d = ds[0]
    if d.kind == "assign":
        r = d.data["r"]
        if r["k"] in ("ref", "rawptr"):
            p = r["p"]
            if not all(e == "*" for e in p["pr"]):
                return False
            if not p["pr"]:
                return p["l"] == target
            return _ref_chain_whole(body, p["l"], target, depth + 1) or p["l"] == target
        if r["k"] == "use" and r["o"]["k"] in ("move", "copy") and not r["o"]["p"]["pr"]:
            return _ref_chain_whole(body, r["o"]["p"]["l"], target, depth + 1)
        if r["k"] == "cast" and r["o"]["k"] in ("move", "copy") and not r["o"]["p"]["pr"]:
            return _ref_chain_whole(body, r["o"]["p"]["l"], target, depth + 1)
        return False
    f = d.data.get("f")
    if not f or not f["path"].endswith(WHOLE_VIEW):
        return False
    a = d.data["args"][0]
    if a["k"] not in ("move", "copy") or a["p"]["pr"]:
        return False
    return _ref_chain_whole(body, a["p"]["l"], target, depth + 1)


def _alloc_size_terms(body, res, l):
    """size terms of the allocations that define l (vec![v; n] -> n, zeros(r, c) ...)"""
    out = []
    for d in body.defs.get(l, []):
        if d.kind == "call":
            f = d.data.get("f")
            if f and f["path"].endswith(("from_elem", "with_capacity", "::zeros", "::fill", "::ones")):
                for a in d.data["args"]:
                    out.append(res.operand(a))
    return out


def _reset_loops(body, res, loops, l, row_nodes, prog=None):
    """headers of inner loops that overwrite every element of l: index form over 0..len(l) (or the allocation size,
    or 0..=size-1), or iterator form over iter_mut() of the whole local; every element receives a value that does not
    depend on the old contents"""
    out = []
    sizes = _alloc_size_terms(body, res, l)
    for h, nodes in loops.items():
        if not nodes < row_nodes:
            continue
        kind = None
        for bb in nodes:
            t = body.blocks[bb]["term"]
            if not (t["k"] == "call" and t.get("f") and t["f"]["path"].endswith(ITER_NEXT)):
                continue
            it = res.operand(t["args"][0])
            for a in alts(it):
                if a[0] == "agg" and a[1].endswith("Range::Range"):
                    lo, hi = a[2][0], a[2][1]
                    if lo != ("int", 0):
                        continue
                    if _len_of_local(body, hi, l, res) or any(hi == s for s in sizes):
                        kind = "index"
                if a[0] == "call" and a[1].endswith("RangeInclusive::<Idx>::new") and len(a[2]) == 2 and a[2][0] == ("int", 0):
                    hi = a[2][1]
                    if any(s_[0] == "bin" and s_[1] == "Add" and ((s_[2] == hi and s_[3] == ("int", 1)) or
                                                                 (s_[3] == hi and s_[2] == ("int", 1))) for s_ in sizes):
                        kind = "index"
                if a[0] == "call" and a[1].endswith("::iter_mut") and _iter_mut_whole(body, t["args"][0], l):
                    kind = "itermut"
        if kind is None:
            continue
        calls_in = [body.blocks[bb]["term"] for bb in nodes if body.blocks[bb]["term"]["k"] == "call"]
        other = [t for t in calls_in if t.get("f") and not t["f"]["path"].endswith(ITER_NEXT + WHOLE_VIEW + ("::index_mut",))]
        if other:
            continue
        if kind == "index":
            stores = [d for d in body.defs.get(l, []) if d.kind == "store" and d.bb in nodes]
            ok = bool(stores)
            for d in stores:
                ps = []
                _places(d.data.get("r"), ps)
                if any(p["l"] == l for p in ps):
                    ok = False
        else:
            ok = False
            for bb in nodes:
                for st in body.blocks[bb]["stmts"]:
                    if st["k"] == "assign" and st["p"]["pr"] and st["p"]["pr"][-1] == "*" or \
                            (st["k"] == "assign" and "*" in [e for e in st["p"]["pr"] if isinstance(e, str)]):
                        ps = []
                        _places(st["r"], ps)
                        if not any("*" in [e for e in p["pr"] if isinstance(e, str)] for p in ps):
                            ok = True
                        else:
                            ok = False
                            break
        if ok:
            out.append(h)
    return out


def _foreach_resets(body, prog, l, row_nodes):
    """call sites `l.iter_mut().for_each(|v| *v = c)` : [(bb, idx)]"""
    out = []
    for bb in row_nodes:
        t = body.blocks[bb]["term"]
        if not (t["k"] == "call" and t.get("f") and t["f"]["path"].endswith("Iterator::for_each") and len(t["args"]) == 2):
            continue
        a = t["args"][0]
        if a["k"] not in ("move", "copy") or a["p"]["pr"]:
            continue
        ds = [d for d in body.defs.get(a["p"]["l"], []) if d.kind in ("call", "assign")]
        if len(ds) != 1 or ds[0].kind != "call" or not ds[0].data.get("f") or not ds[0].data["f"]["path"].endswith("::iter_mut"):
            continue
        ra = ds[0].data["args"][0]
        if not (ra["k"] in ("move", "copy") and not ra["p"]["pr"] and _ref_chain_whole(body, ra["p"]["l"], l)):
            continue
        # the closure stores a value that does not read the element
        clo = None
        fty = body.local_ty(t["args"][1]["p"]["l"]) if t["args"][1]["k"] in ("move", "copy") else ""
        for cb in (prog.closures_of.get(body.path, []) if prog else []):
            if cb.path.split("::")[-1] in fty or cb.path in fty:
                clo = cb
        cands = [clo] if clo else (prog.closures_of.get(body.path, []) if prog else [])
        for cb in cands:
            good = False
            bad = False
            for bb2, blk in enumerate(cb.blocks):
                if blk["cleanup"]:
                    continue
                if blk["term"]["k"] == "call":
                    bad = True
                for st in blk["stmts"]:
                    if st["k"] == "assign" and st["p"]["l"] == 2 and st["p"]["pr"] == ["*"]:
                        ps = []
                        _places(st["r"], ps)
                        if any(p["l"] == 2 for p in ps):
                            bad = True
                        else:
                            good = True
            if good and not bad and cb.arg_count == 2:
                out.append((bb, len(body.blocks[bb]["stmts"])))
                break
    return out


def _len_of_local(body, hi, l, res):
    """hi == len(<value of local l>)"""
    dh = dim_of(hi)
    if not dh or dh[0] != "len":
        return False
    base = dh[1]
    for a in [base] + list(alts(base)):
        if a[0] in ("phi", "local") and a[1] == l:
            return True
    lt = res.local(l)
    return base == lt


def _iter_mut_whole(body, operand, l):
    if operand["k"] not in ("move", "copy") or operand["p"]["pr"]:
        return False
    it = operand["p"]["l"]
    # &mut iter  <- ref of iterator local <- call into_iter/iter_mut(whole view of l)
    seen = 0
    cur = it
    while seen < 8:
        seen += 1
        ds = [d for d in body.defs.get(cur, []) if d.kind in ("assign", "call")]
        if len(ds) != 1:
            return False
        d = ds[0]
        if d.kind == "assign":
            r = d.data["r"]
            if r["k"] in ("ref", "rawptr") and all(e == "*" for e in r["p"]["pr"]):
                cur = r["p"]["l"]
                continue
            if r["k"] == "use" and r["o"]["k"] in ("move", "copy") and not r["o"]["p"]["pr"]:
                cur = r["o"]["p"]["l"]
                continue
            return False
        f = d.data.get("f")
        if f and f["path"].endswith(("::into_iter",)):
            a = d.data["args"][0]
            if a["k"] in ("move", "copy") and not a["p"]["pr"]:
                cur = a["p"]["l"]
                continue
            return False
        if f and f["path"].endswith(("::iter_mut",)):
            a = d.data["args"][0]
            return a["k"] in ("move", "copy") and not a["p"]["pr"] and _ref_chain_whole(body, a["p"]["l"], l)
        return False
    return False


def row_loops(body, res, xarg):
    """[(header, nodes, loopvar_term)] loops iterating 0..rows(x) / 0..len(x)"""
    out = []
    loops = natural_loops(body)
    for h, nodes in loops.items():
        for bb in sorted(nodes):
            t = body.blocks[bb]["term"]
            if not (t["k"] == "call" and t.get("f") and t["f"]["path"].endswith(ITER_NEXT)):
                continue
            if not body.dominates(bb, h) and bb != h and not all(body.dominates(bb, u) for (u, hh) in back_edges(body) if hh == h):
                continue
            it = res.operand(t["args"][0])
            hit = False
            for a in alts(it):
                if a[0] == "agg" and a[1].endswith("Range::Range"):
                    dh = dim_of(a[2][1])
                    if a[2][0] == ("int", 0) and dh and dh[0] in ("rows", "len") and dh[1][0] == "arg" and dh[1][1] == xarg:
                        hit = True
            if hit:
                out.append((h, nodes, bb))
                break
    return out, loops


def _callee_overwrites(prog, body, d, l, depth=0):
    """the call hands `&mut l` to a local function that completely overwrites the referent before any other use of it
    (`fn helper(.., buf: &mut Vec<_>) { buf.clear(); buf.resize(..); .. }`)"""
    f = d.data.get("f")
    if not f or depth > 1:
        return False
    cal = None
    for key in (f.get("resolved"), f.get("path")):
        if key and key in prog.bodies:
            cal = prog.bodies[key]
    if cal is None:
        return False
    pos = [j for j, a in enumerate(d.data["args"]) if a["k"] in ("move", "copy") and not a["p"]["pr"]
           and body.mutref_of.get(a["p"]["l"]) == l and _ref_chain_whole(body, a["p"]["l"], l)]
    if len(pos) != 1 or pos[0] + 1 > cal.arg_count:
        return False
    prm = pos[0] + 1
    if not cal.local_ty(prm).startswith("&mut"):
        return False
    full = []
    for dd in cal.defs.get(prm, []):
        if dd.kind == "mutcall" and dd.data["f"]["path"].endswith(FULL_OVERWRITE):
            for a in dd.data["args"][:1]:
                if a["k"] in ("move", "copy") and not a["p"]["pr"] and (a["p"]["l"] == prm or _ref_chain_whole(cal, a["p"]["l"], prm)):
                    full.append((dd.bb, _idx_of(dd, cal)))
    if not full:
        return False
    for bb in cal.reach:
        if cal.blocks[bb]["cleanup"]:
            continue
        for idx, ll in mentions(cal, bb):
            if ll != prm:
                continue
            st = cal.blocks[bb]["stmts"]
            if idx < len(st) and st[idx]["k"] == "assign" and st[idx]["r"]["k"] in ("ref", "rawptr") and not st[idx]["p"]["pr"]:
                # a reborrow: judged where the new reference is consumed
                tgt = st[idx]["p"]["l"]
                cons = _consumers(cal, cal.reach, tgt)
                sites = [(cb, len(cal.blocks[cb]["stmts"])) for cb, _ in cons]
                if sites and all(any(s == fd or (fd[0] != s[0] and cal.dominates(fd[0], s[0])) or (fd[0] == s[0] and fd[1] <= s[1])
                                     for fd in full) for s in sites):
                    continue
            ok = any((fb == bb and fi <= idx) or (fb != bb and cal.dominates(fb, bb)) for (fb, fi) in full)
            if not ok:
                return False
    return True


def _is_rowvar(t, xarg):
    for s in subterms(t):
        if s[0] == "call" and s[1].endswith(ITER_NEXT) and s[2]:
            for a in alts(s[2][0]):
                if a[0] == "agg" and a[1].endswith("Range::Range"):
                    dh = dim_of(a[2][1])
                    if dh and dh[0] in ("rows", "len") and dh[1][0] == "arg" and dh[1][1] == xarg:
                        return True
    return False


def _consumers(body, nodes, ref_local):
    out = []
    for bb in nodes:
        t = body.blocks[bb]["term"]
        if t["k"] == "call":
            for a in t["args"]:
                if a["k"] in ("move", "copy") and not a["p"]["pr"] and a["p"]["l"] == ref_local:
                    out.append((bb, t))
    return out


def check(prog, body, xarg=2):
    """returns (instances, problems); instances = [(header_where, n_locals_examined, exempt)]"""
    res = Resolver(body)
    rl, loops = row_loops(body, res, xarg)
    instances, problems = [], []
    for h, nodes, next_bb in rl:
        if any(nodes < n2 for (h2, n2, _) in rl if h2 != h):
            continue
        ment = {}
        for bb in nodes:
            if body.blocks[bb]["cleanup"]:
                continue
            for idx, l in mentions(body, bb):
                ment.setdefault(l, []).append((bb, idx))
        examined, exempt = 0, []
        for l, uses in sorted(ment.items()):
            if body.is_arg(l) or l == 0:
                continue
            ds_in = [d for d in body.defs.get(l, []) if d.bb in nodes]
            muts = [d for d in ds_in if d.kind in ("store", "mutcall")]
            real = [d for d in muts if not (d.kind == "mutcall" and d.data["f"]["path"].endswith(ITER_NEXT + WHOLE_VIEW))]
            if not real:
                continue
            name = body.local_name(l) or f"_{l}"
            examined += 1
            full = []
            for d in ds_in:
                if d.kind in ("assign", "call"):
                    full.append((d.bb, _idx_of(d, body)))
                elif d.kind == "mutcall" and d.data["f"]["path"].endswith(FULL_OVERWRITE):
                    for a in d.data["args"]:
                        if a["k"] in ("move", "copy") and not a["p"]["pr"] and body.mutref_of.get(a["p"]["l"]) == l \
                                and _ref_chain_whole(body, a["p"]["l"], l):
                            full.append((d.bb, _idx_of(d, body)))
                elif d.kind == "mutcall" and _callee_overwrites(prog, body, d, l):
                    full.append((d.bb, _idx_of(d, body)))
            reset_headers = _reset_loops(body, res, loops, l, nodes)
            full += _foreach_resets(body, prog, l, nodes)

            def covered(bb, idx):
                for (fb, fi) in full:
                    if fb == bb and fi <= idx:
                        return True
                    if fb != bb and body.dominates(fb, bb):
                        return True
                for rh in reset_headers:
                    if bb in loops[rh] or body.dominates(rh, bb):
                        return True
                return False
            events = []   # (bb, idx, kind)
            for (bb, idx) in uses:
                st = body.blocks[bb]["stmts"]
                if idx < len(st) and st[idx]["k"] == "assign" and st[idx]["r"]["k"] in ("ref", "rawptr") and st[idx]["r"]["p"]["l"] == l \
                        and not st[idx]["p"]["pr"]:
                    r = st[idx]["r"]
                    if body.locals[st[idx]["p"]["l"]]["ty"].startswith(("&mut", "*mut")):
                        continue                                   # consumed by a store / &mut call recorded below
                    cons = _consumers(body, nodes, st[idx]["p"]["l"])
                    if cons and all(t["f"] and t["f"]["path"].endswith(("::len", "::is_empty", "::capacity", "::shape")) for (_, t) in cons):
                        continue                                   # reads a dimension, not the contents
                    if cons and all(t["f"] and t["f"]["path"].endswith(("::get", "::index")) and
                                    any(_is_rowvar(res.operand(a), xarg) for a in t["args"][1:]) for (_, t) in cons):
                        events.append((bb, idx, "posread"))
                    else:
                        events.append((bb, idx, "read"))
                else:
                    events.append((bb, idx, "read"))
            for d in real:
                site = (d.bb, _idx_of(d, body))
                if site in full:
                    continue
                if d.kind == "mutcall":
                    fp = d.data["f"]["path"]
                    if fp.endswith(("::push",)):
                        events.append(site + ("poswrite",))
                    elif fp.endswith(RESULT_WRITES) and any(_is_rowvar(res.operand(a), xarg) for a in d.data["args"][1:]):
                        events.append(site + ("poswrite",))
                    else:
                        events.append(site + ("mut",))
                else:
                    rl_ = d.data["p"]["l"]
                    rd = [x for x in body.defs.get(rl_, []) if x.kind == "call"]
                    if len(rd) == 1 and rd[0].data.get("f") and rd[0].data["f"]["path"].endswith("::index_mut") and \
                            any(_is_rowvar(res.operand(a), xarg) for a in rd[0].data["args"][1:]):
                        events.append(site + ("poswrite",))
                    else:
                        events.append(site + ("mut",))
            unc = [e for e in events if not covered(e[0], e[1])]
            if not unc:
                continue
            if all(e[2] in ("posread", "poswrite") for e in unc) and any(e[2] == "poswrite" for e in unc):
                exempt.append(name)
                continue
            badk = sorted(e for e in unc if e[2] in ("read", "mut")) or sorted(unc)
            bb, idx, kind = badk[0]
            w = body.where(bb, idx if idx < len(body.blocks[bb]["stmts"]) else "term")
            problems.append((name, w,
                             f"`{name}` is changed inside the row loop and {'read' if kind == 'read' else 'partly updated'} at {w} "
                             f"without a complete re-definition earlier in the same iteration: its contents carry over from the rows "
                             f"already processed"))
        instances.append((body.where(h), examined, exempt))
    return instances, problems


def _flows_to_return(body, l, depth=0):
    """the local (or a view/conversion of it) is what the function returns"""
    if l == 0:
        return True
    if depth > 6:
        return False
    for bb, blk in enumerate(body.blocks):
        if blk["cleanup"] or bb not in body.reach:
            continue
        for s in blk["stmts"]:
            if s["k"] == "assign" and not s["p"]["pr"]:
                ps = []
                _places(s["r"], ps)
                if any(p["l"] == l for p in ps) and s["p"]["l"] != l:
                    if _flows_to_return(body, s["p"]["l"], depth + 1):
                        return True
        t = blk["term"]
        if t["k"] == "call" and not t["d"]["pr"]:
            ps = []
            _places(t["args"], ps)
            if any(p["l"] == l for p in ps) and t["d"]["l"] != l:
                if _flows_to_return(body, t["d"]["l"], depth + 1):
                    return True
    return False


def run_rule(ck, prog, fns, xarg=2, rule="E2-isolation", floor=None):
    """fns: [(label, regex)] ; one instance per row loop found; anchors must exist; a function without a
    `for i in 0..rows(x)` loop has no instance (iterator/matrix forms are outside the rule)"""
    from .mir import AnchorError
    n = 0
    for label, rx in fns:
        inst = f"{label}: each row iteration reads only state re-defined in that iteration"
        try:
            b = prog.one(rx)
        except AnchorError as e:
            ck.violation(rule, inst, rx, "", expected="anchor exists", found=f"anchor vanished: {e}")
            continue
        instances, problems = check(prog, b, xarg)
        for k, (name, where, msg) in enumerate(problems):
            ck.violation(rule, inst, b.path, where, ordinal=k,
                         expected="state read by a row iteration is completely re-defined in that iteration (or is the result, written at row i only)",
                         found=msg)
        if not problems:
            for (hw, examined, exempt) in instances:
                n += 1
                ck.ok(rule, inst, b.path, hw, f"row loop at {hw}: {examined} mutated local(s) examined; row-positional container(s): {exempt}")
            if not instances:
                ck.note(f"{rule}: {label} has no `for i in 0..rows(x)` loop (iterator or matrix form): no instance")
        else:
            n += len(instances)
    if floor is not None:
        ck.floor(rule, floor)
    return n
