"""Structural summaries of the element-wise in-place operations and of their copying
counterparts (C03 by-construction clause; axiom discharge for C10).

A  elem_op(body)      : `fn op_element_mut(&mut self, pos, x)`  ==  self[pos] op= x  (exactly one update)
B  vec_op(prog, body) : `fn op_mut(&mut self, other)`           ==  for i in 0..len(self): self[i] op= other[i]
C  copying(prog, body): `fn op(&self, args..) -> Self`          ==  { let mut r = self.clone(); r.op_mut(args..); r }
"""
from .guards import back_edges
from .match import dim_of
from .prov import Resolver, render, alts

OPASSIGN = {"std::ops::AddAssign::add_assign": "Add", "std::ops::SubAssign::sub_assign": "Sub",
            "std::ops::MulAssign::mul_assign": "Mul", "std::ops::DivAssign::div_assign": "Div"}
VIEW_ONLY = ("IndexMut::index_mut", "::deref_mut", "::iter_mut", "::as_mut_slice", "::as_mut", "Index::index", "::deref",
             "::len", "::iter", "::get", "::as_slice", "::is_empty", "::shape", "::clone")


def _mutations_of(body, l):
    """definitions of local l that may change its contents (excluding view-only calls)"""
    out = []
    for d in body.defs.get(l, []):
        if d.kind == "store":
            out.append(d)
        elif d.kind == "mutcall":
            f = d.data.get("f")
            if f and f["path"].endswith(VIEW_ONLY):
                continue
            out.append(d)
    return out


def elem_op(body):
    """returns (op, problem)"""
    res = Resolver(body)
    muts = _mutations_of(body, 1)
    ops = []
    for bb, t in body.calls():
        f = t.get("f")
        if f and f["path"] in OPASSIGN:
            tgt = res.operand(t["args"][0])
            val = res.operand(t["args"][1])
            ok_t = any(a[0] == "idx" and _is_arg(a[1], 1) and _is_arg(a[2], 2) for a in alts(tgt)) or \
                (tgt[0] == "idx" and _is_arg(tgt[1], 1) and _is_arg(tgt[2], 2))
            ok_v = _is_arg(val, 3)
            ops.append((OPASSIGN[f["path"]], ok_t, ok_v, render(tgt)[:60], render(val)[:40]))
    stores = [d for d in muts if d.kind == "store"]
    other = [d for d in muts if d.kind == "mutcall" and d.data.get("f", {}).get("path") not in OPASSIGN]
    if len(ops) != 1:
        return None, f"expected exactly one op-assign on self[pos], found {len(ops)}"
    op, ok_t, ok_v, tt, vv = ops[0]
    if not ok_t or not ok_v:
        return None, f"update is `{tt} {op}= {vv}`, not `self[pos] {op}= x`"
    if stores or other:
        return None, "self is also modified elsewhere"
    return op, None


def _is_arg(t, i):
    while t[0] == "phi":
        base = [a for a in t[2] if not (a[0] == "call" and a[1].startswith("mut:"))]
        if len(base) != 1:
            return False
        t = base[0]
    return t[0] == "arg" and t[1] == i


def vec_op(prog, body):
    """returns (op, problem) for `fn op_mut(&mut self, other: &Self)`"""
    res = Resolver(body)
    muts = _mutations_of(body, 1)
    if any(d.kind == "store" for d in muts):
        return None, "self is written directly"
    calls = [d for d in muts if d.kind == "mutcall"]
    if len(calls) != 1:
        return None, f"expected exactly one element update call, found {len(calls)}"
    d = calls[0]
    t = d.data
    f = t["f"]
    cal = None
    for key in (f.get("resolved"), f.get("path")):
        if key and key in prog.bodies:
            cal = prog.bodies[key]
    if cal is None:
        return None, f"element update `{f['path']}` is not a local function"
    op, prob = elem_op(cal)
    if prob:
        return None, f"{cal.path}: {prob}"
    a = [res.operand(x) for x in t["args"]]
    if len(a) != 3 or not _is_arg(a[0], 1):
        return None, "element update is not applied to self"
    i, v = a[1], a[2]
    # i is the loop variable of `for i in 0..len(self)`
    rng = _loop_range(i)
    if rng is None:
        return None, f"index `{render(i)[:60]}` is not the variable of a range loop"
    lo, hi = rng
    dh = dim_of(hi)
    if lo != ("int", 0) or not (dh and dh[0] == "len" and _is_arg(dh[1], 1)):
        return None, f"loop range is {render(lo)}..{render(hi)[:40]}, not 0..len(self)"
    # v = other[i] (get(other, i) or other[i])
    okv = (v[0] == "call" and v[1].endswith("BaseVector::get") and _is_arg(v[2][0], 2) and v[2][1] == i) or \
          (v[0] == "idx" and _is_arg(v[1], 2) and v[2] == i)
    if not okv:
        return None, f"operand `{render(v)[:60]}` is not other[i]"
    # executed once per iteration: the call block dominates every back edge of its loop
    be = [u for (u, w) in back_edges(body) if body.dominates(w, d.bb)]
    if not be or not all(body.dominates(d.bb, u) for u in be):
        return None, "the element update is not executed on every iteration"
    return op, None


def _loop_range(i):
    """i == (next(phi(Range{lo,hi} | mut:next(..))) as Some).0  -> (lo, hi)"""
    t = i
    if not (t[0] == "field" and t[2] == "0" and t[1][0] == "variant" and t[1][2] == "Some"):
        return None
    n = t[1][1]
    if not (n[0] == "call" and n[1].endswith("Iterator::next") and n[2]):
        return None
    it = n[2][0]
    for a in alts(it):
        if a[0] == "agg" and a[1].endswith("Range::Range"):
            return a[2][0], a[2][1]
    return None


def copying(prog, body):
    """returns (mut_fn_name, problem) for a copying variant: clone self, apply the in-place sibling, return the clone"""
    res = Resolver(body)
    ret = res.local(0)
    clones = [(bb, t) for bb, t in body.calls() if t.get("f") and t["f"]["path"] == "std::clone::Clone::clone"]
    if len(clones) != 1:
        return None, f"expected one clone of self, found {len(clones)}"
    cb, ct = clones[0]
    if not _is_arg(res.operand(ct["args"][0]), 1) or ct["d"]["pr"]:
        return None, "the clone is not a clone of self"
    r = ct["d"]["l"]
    muts = [d for d in _mutations_of(body, r)]
    if len(muts) != 1 or muts[0].kind != "mutcall":
        return None, f"expected exactly one in-place call on the clone, found {len(muts)}"
    t = muts[0].data
    f = t["f"]
    args = [res.operand(x) for x in t["args"]]
    rest = args[1:]
    want = [("arg", k) for k in range(2, body.arg_count + 1)]
    if [(a[0], a[1]) if a[0] == "arg" else None for a in rest] != want:
        return None, f"the in-place call does not receive the remaining arguments unchanged: {[render(a)[:30] for a in rest]}"
    # the returned value is the clone (after mutation)
    base = [a for a in alts(ret) if not (a[0] == "call" and a[1].startswith("mut:"))]
    rl = None
    for d in body.defs.get(0, []):
        if d.kind == "assign" and d.data["r"]["k"] == "use" and d.data["r"]["o"]["k"] in ("move", "copy") and not d.data["r"]["o"]["p"]["pr"]:
            rl = d.data["r"]["o"]["p"]["l"]
    if rl != r:
        return None, "the returned value is not the mutated clone"
    if not body.dominates(cb, muts[0].bb):
        return None, "the clone is not taken before the in-place call"
    return f["name"], None
