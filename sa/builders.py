"""Builder setters: `with_<f>(self, v) -> Self` of a parameter struct changes field f only (to v) and keeps every
other field - 'all settings' in the properties' quantifiers are reachable through these chains."""
import re

from .prov import Resolver, render


def check_builders(ck, prog, adt_regex, rule="E2-builder"):
    rx = re.compile(adt_regex)
    n = 0
    for adt_path, adt in sorted(prog.adts.items()):
        if not rx.search(adt_path) or adt["kind"] != "Struct":
            continue
        fields = [f["name"] for f in adt["variants"][0]["fields"]]
        short = adt_path.split("::")[-1]
        for b in sorted(prog.bodies.values(), key=lambda b: b.path):
            if b.kind == "Closure" or not b.name.startswith("with_") or b.arg_count != 2:
                continue
            if not (b.impl_self or "").startswith(adt_path):
                continue
            target = b.name[len("with_"):]
            inst = f"{short}::{b.name} sets `{target}` and keeps every other field"
            site = f"{b.loc[0]}:{b.loc[1]}"
            if target not in fields:
                ck.violation(rule, inst, b.path, site, expected=f"a field named `{target}`", found=f"fields are {fields}")
                continue
            n += 1
            res = Resolver(b)
            ret = res.local(0)
            problems = []
            if ret[0] == "arg" and ret[1] == 1:
                names = []
                for d in b.partial_defs.get(1, []):
                    if d.kind != "assign":
                        continue
                    fs = [e["n"] for e in d.data["p"]["pr"] if isinstance(e, dict) and "f" in e]
                    names.append(fs[0] if fs else "?")
                    v = res.rvalue(d.data["r"], 0, ())
                    if fs and fs[0] == target and not _is_arg2(v):
                        problems.append(f"`{target}` is set to `{render(v)[:40]}`, not to the argument")
                if sorted(set(names)) != [target]:
                    problems.append(f"stores to fields {sorted(set(names))}")
                if any(d.kind == "mutcall" for d in b.defs.get(1, [])):
                    problems.append("self is also modified through a call")
            elif ret[0] == "agg" and ret[1].split("::")[-2:] == [short, short]:
                vals = dict(zip(ret[3], ret[2]))
                for f in fields:
                    v = vals.get(f)
                    if f == target:
                        if not (v and _is_arg2(v)):
                            problems.append(f"`{f}` is set to `{render(v)[:40] if v else None}`, not to the argument")
                    elif not (v and v[0] == "field" and v[2] == f and v[1][0] == "arg" and v[1][1] == 1) and not _phantom(v):
                        problems.append(f"`{f}` is taken from `{render(v)[:50] if v else None}` instead of self.{f}")
            else:
                problems.append(f"returns `{render(ret)[:80]}`")
            if problems:
                ck.violation(rule, inst, b.path, site, expected="only the named field changes", found="; ".join(problems))
            else:
                ck.ok(rule, inst, b.path, site, render(ret)[:60])
    return n


def _is_arg2(v):
    while v[0] == "agg" and v[1].endswith(("::Some",)) and len(v[2]) == 1:
        v = v[2][0]
    return v[0] == "arg" and v[1] == 2


def _phantom(v):
    return bool(v) and v[0] == "agg" and "PhantomData" in v[1]
