"""Guarded division: a division by a quantity that can be exactly zero on an in-domain input sits behind a zero test of it.

check(body, pred): every `Div::div` / `Div` whose denominator term has a sub-term satisfying `pred`; guarded iff some
comparison of such a sub-term (or of the denominator) with zero has its non-zero edge dominating the division."""
from .e1 import BodyCtx
from .guards import ATOMS, NEG, FLIP
from .match import Zero
from .prov import render, subterms

ZERO = Zero()


def check(body, pred):
    cx = BodyCtx.of(body)
    res = cx.res
    out = []
    sites = []
    for bb, t in body.calls():
        f = t.get("f")
        if f and f["path"].endswith("Div::div") and len(t["args"]) == 2:
            sites.append((bb, res.operand(t["args"][1])))
        if f and f["path"].endswith(("::div_element_mut", "::div_scalar_mut", "::div_scalar")) and t["args"]:
            sites.append((bb, res.operand(t["args"][-1])))
    for i, j, s in body.stmts():
        if s["k"] == "assign" and s["r"]["k"] == "bin" and s["r"]["op"] in ("Div", "Rem"):
            sites.append((i, res.operand(s["r"]["b"])))
    for bb, den in sites:
        facs = [s for s in subterms(den) if pred(s)]
        if not facs:
            continue
        guarded = False
        for c in cx.cmps:
            for (L, R, rel) in ((c.lhs, c.rhs, c.rel), (c.rhs, c.lhs, FLIP[c.rel])):
                if not (ZERO(R) or R == ("int", 0)):
                    continue
                if L == den or any(L == fz for fz in facs) or any(pred(s) for s in subterms(L)):
                    for er, dst, other in ((rel, c.true_bb, c.false_bb), (NEG[rel], c.false_bb, c.true_bb)):
                        if "z" not in ATOMS[er] and body.dominates(dst, bb) and not body.dominates(other, bb):
                            guarded = True
        out.append((body.where(bb), den, guarded))
    return out
