"""Check bookkeeping: rule instances, violations, known findings, floors, evidence."""
import json
import os
import re
import sys
import time

VERIF = os.path.dirname(os.path.dirname(os.path.abspath(__file__)))
# control runs on scratch copies (SCVERIF_REPO != /repo) must not touch the real evidence
_ALT = os.environ.get("SCVERIF_OUTDIR")
OUT = os.path.join(_ALT, "out") if _ALT else os.path.join(VERIF, "out")
EVID = os.path.join(_ALT, "evidence") if _ALT else os.path.join(VERIF, "evidence")
KNOWN = os.path.join(VERIF, "known_findings.json")


def load_known():
    if not os.path.exists(KNOWN):
        return {"findings": [], "fixed": []}
    with open(KNOWN) as fh:
        return json.load(fh)


def _slug(s):
    return re.sub(r"[^A-Za-z0-9_.-]+", "_", s)[:150]


class Check:
    def __init__(self, pid, tier="quick", level="other", only_key=None):
        self.pid = pid
        self.tier = tier
        self.level = level
        self.only_key = only_key
        self.t0 = time.time()
        self.instances = []      # every rule instance evaluated
        self.violations = []     # dict(key=..., ...)
        self.notes = []
        self.floors = {}         # rule -> minimum number of instances
        self.counts = {}
        self.assumptions = []
        self.explanation = ""
        self.extra = {}
        self.configs = []
        self.obligations = 0
        self.discharged = 0
        self.trusted_base = []
        self.controls = []       # positive controls: (name, fired?)

    # ---------------------------------------------------------------- record
    def ok(self, rule, instance, fn, site="", detail=""):
        self.instances.append(dict(rule=rule, instance=instance, function=fn, site=site,
                                   verdict="holds", detail=detail))

    def violation(self, rule, instance, fn, site="", expected="", found="", path=None, ordinal=None):
        key = f"{rule}:{instance}:{fn}" + (f":{ordinal}" if ordinal is not None else "")
        v = dict(key=key, rule=rule, instance=instance, function=fn, site=site,
                 expected=expected, found=found)
        if path:
            v["path"] = path
        self.instances.append(dict(rule=rule, instance=instance, function=fn, site=site,
                                   verdict="VIOLATED", detail=found))
        self.violations.append(v)
        return key

    def obligation(self, rule, instance, fn, discharged, site="", detail="", expected=""):
        self.obligations += 1
        if discharged:
            self.discharged += 1
            self.ok(rule, instance, fn, site, detail)
        else:
            self.violation(rule, instance, fn, site, expected=expected or "obligation discharged", found=detail)

    def floor(self, rule, n):
        self.floors[rule] = n

    def control(self, name, fired, detail=""):
        """positive control: a deliberately violating fixture must make the rule fire"""
        self.controls.append(dict(control=name, fired=bool(fired), detail=detail))
        if not fired:
            self.violation("positive-control", name, "fixtures", "", expected="rule fires on the violating fixture",
                           found="rule stayed silent on the fixture: " + detail)

    def note(self, s):
        self.notes.append(s)

    # ---------------------------------------------------------------- finish
    def finish(self):
        # floors: a rule matching fewer instances than counted by hand fails closed
        by_rule = {}
        for i in self.instances:
            by_rule[i["rule"]] = by_rule.get(i["rule"], 0) + 1
        for rule, n in self.floors.items():
            got = by_rule.get(rule, 0)
            if got < n:
                self.violation("floor", rule, "-", "", expected=f">= {n} instances of rule {rule}",
                               found=f"only {got} instances resolved (anchors vanished?)")
        known = load_known()
        kf = {(f["property"], f["key"]): f for f in known.get("findings", [])}
        lines = []
        real = []
        known_printed = []
        os.makedirs(os.path.join(OUT, self.pid), exist_ok=True)
        for v in self.violations:
            if self.only_key and v["key"] != self.only_key:
                continue
            k = (self.pid, v["key"])
            if k in kf:
                msg = f"KNOWN-FINDING: property={self.pid} {kf[k]['what']} [{v['key']}]"
                if msg not in known_printed:
                    known_printed.append(msg)
                continue
            path = os.path.join(OUT, self.pid, _slug(v["key"]) + ".json")
            with open(path, "w") as fh:
                json.dump(dict(property=self.pid, **v), fh, indent=1)
            real.append(v)
            lines.append(f"VIOLATION property={self.pid} replay={path}")
            lines.append(f"  rule={v['rule']} instance={v['instance']} function={v['function']} site={v['site']}")
            lines.append(f"  expected: {v['expected']}")
            lines.append(f"  found:    {v['found']}")
        for m in known_printed:
            print(m)
        seen = set()
        for l in lines:
            if l.startswith("VIOLATION"):
                if l in seen:
                    continue
                seen.add(l)
            print(l)
        self._evidence(real, known_printed)
        nv = len(real)
        print(f"[{self.pid}] tier={self.tier} instances={len(self.instances)} violations={nv} "
              f"known={len(known_printed)} wall={time.time() - self.t0:.1f}s")
        return 1 if nv else 0

    def _evidence(self, real, known_printed):
        os.makedirs(EVID, exist_ok=True)
        distinct = set()
        for i in self.instances:
            if i["site"] or i["detail"]:
                distinct.add((i["rule"], i["instance"], i["function"], i["site"]))
        # one sample per distinct (rule, instance) first, then fill up in evaluation order
        samples, seen_kinds = [], set()
        for i in self.instances:
            k = (i["rule"], i["instance"])
            if k not in seen_kinds:
                seen_kinds.add(k)
                samples.append(i)
        for i in self.instances:
            if len(samples) >= 60:
                break
            if i not in samples:
                samples.append(i)
        samples = samples[:max(60, len(seen_kinds))]
        kinds = {}
        for i in self.instances:
            e = kinds.setdefault(f'{i["rule"]}: {i["instance"]}', dict(evaluated=0, functions=[]))
            e["evaluated"] += 1
            if i["function"] and i["function"] not in e["functions"] and len(e["functions"]) < 6:
                e["functions"].append(i["function"])
        cov = dict(
            explanation=self.explanation,
            evaluations=len(self.instances),
            distinct_nontrivial=len(distinct),
            rule="one evaluation = one rule instance (rule, instance, function) evaluated on the MIR of /repo's "
                 "current tree; non-trivial = it resolved to a concrete site (file:line) or produced a "
                 "non-vacuous detail; distinct by (rule, instance, function, site)",
            samples=samples,
            floors=self.floors,
            instances_by_rule=self._by_rule(),
            rule_instances=kinds,
            configurations=self.configs,
            positive_controls=self.controls,
            known_findings_printed=known_printed,
            notes=self.notes,
            exhaustive=False,
        )
        cov.update(self.extra)
        if self.level == "proof":
            cov.update(obligations=self.obligations, discharged=self.discharged,
                       checker_cmd=f"./check {self.pid} --tier {self.tier}",
                       trusted_base=self.trusted_base)
        ev = dict(
            property_id=self.pid, tier=self.tier, seed=int(os.environ.get("VERIF_SEED", "0") or 0),
            level=self.level, coverage=cov, assumptions=self.assumptions,
            wall_s=round(time.time() - self.t0, 2), violations=len(real),
        )
        tmp = os.path.join(EVID, f"{self.pid}.json.tmp")
        with open(tmp, "w") as fh:
            json.dump(ev, fh, indent=1, default=str)
        os.replace(tmp, os.path.join(EVID, f"{self.pid}.json"))

    def _by_rule(self):
        d = {}
        for i in self.instances:
            r = d.setdefault(i["rule"], dict(evaluated=0, violated=0))
            r["evaluated"] += 1
            if i["verdict"] != "holds":
                r["violated"] += 1
        return d


COMMON_ASSUMPTIONS = [
    "rustc (nightly 1.97) type checking, trait resolution (Instance::try_resolve) and MIR construction are correct; "
    "facts are the optimized_mir at -Zmir-opt-level=0 of every body of the lib target",
    "the analysed configuration is the `dev` profile (overflow checks on, debug assertions on) with features "
    "serde,ndarray-bindings,nalgebra-bindings,datasets unless stated; #[cfg(test)] code is out of scope",
    "only the clauses named in coverage.explanation are decided; the numerical behaviour of the property is not",
]
