"""E2: call graph, RNG provenance / determinism rules, label-decoding slices."""
from collections import defaultdict

from .prov import Resolver, render, subterms, alts

# calls into the rand crate that consume randomness from their RNG argument
DRAW_SUFFIX = (
    "SliceRandom::shuffle", "SliceRandom::choose", "SliceRandom::choose_mut", "SliceRandom::choose_multiple",
    "SliceRandom::partial_shuffle", "SliceRandom::choose_weighted",
    "Rng::gen", "Rng::gen_range", "Rng::gen_bool", "Rng::gen_ratio", "Rng::sample", "Rng::fill", "Rng::sample_iter",
    "RngCore::next_u32", "RngCore::next_u64", "RngCore::fill_bytes", "RngCore::try_fill_bytes",
    "Distribution::sample", "IteratorRandom::choose", "IteratorRandom::choose_multiple",
)
AMBIENT_CTORS = ("rand::thread_rng", "SeedableRng::from_entropy", "rand::random", "OsRng", "rand::rngs::OsRng")
SEEDED_CTORS = ("SeedableRng::seed_from_u64", "SeedableRng::from_seed")
CLOCK = ("Instant::now", "SystemTime::now")
HASH_ITER = ("HashMap", "HashSet")


class CallGraph:
    def __init__(self, prog):
        self.prog = prog
        self.edges = defaultdict(set)       # caller path -> callee paths
        self.sites = defaultdict(list)      # caller path -> [(bb, term, [callee bodies])]
        impl_methods = defaultdict(list)    # (trait path, method name) -> [body]
        for b in prog.bodies.values():
            if b.impl_trait:
                impl_methods[(b.impl_trait, b.name)].append(b)
            if b.trait_default:
                impl_methods[(b.trait_default, b.name)].append(b)
        self.impl_methods = impl_methods
        for b in prog.bodies.values():
            for bb, t in b.calls():
                f = t.get("f")
                tgts = []
                if f:
                    tgts = self.targets(f)
                self.sites[b.path].append((bb, t, tgts))
                for c in tgts:
                    self.edges[b.path].add(c.path)
            for c in prog.closures_of.get(b.path, []):
                self.edges[b.path].add(c.path)

    def targets(self, f):
        prog = self.prog
        for key in (f.get("resolved"), f.get("path")):
            if key and key in prog.bodies:
                b = prog.bodies[key]
                # a resolved call to a trait's default body is exact; an unresolved trait call is CHA
                if key == f.get("path") and f.get("trait") and not f.get("resolved") and b.trait_default:
                    return list(self.impl_methods.get((f["trait"], f["name"]), [])) or [b]
                return [b]
        if f.get("trait") and f.get("local"):
            return list(self.impl_methods.get((f["trait"], f["name"]), []))
        return []

    def reachable(self, roots):
        seen = set()
        work = list(roots)
        while work:
            n = work.pop()
            if n in seen:
                continue
            seen.add(n)
            work.extend(self.edges.get(n, ()))
        return seen

    def path_to(self, root, target):
        prev = {root: None}
        work = [root]
        while work:
            n = work.pop(0)
            if n == target:
                out = []
                while n is not None:
                    out.append(n)
                    n = prev[n]
                return list(reversed(out))
            for m in self.edges.get(n, ()):
                if m not in prev:
                    prev[m] = n
                    work.append(m)
        return None


def rng_kind(term):
    """classify the provenance of an RNG operand: ('arg', i) | 'ambient' | ('seeded', term) | 'unknown'"""
    kinds = set()
    for a in alts(term):
        # strip mutation alternatives (the rng is `&mut`-passed everywhere)
        if a[0] == "call" and a[1].startswith("mut:"):
            continue
        if a[0] == "arg":
            kinds.add(("arg", a[1]))
        elif a[0] == "upvar":
            kinds.add(("upvar", a[1]))
        elif a[0] == "call" and a[1].endswith(AMBIENT_CTORS):
            kinds.add("ambient")
        elif a[0] == "call" and a[1].endswith(SEEDED_CTORS):
            kinds.add(("seeded", a[2][0] if a[2] else None))
        elif a[0] == "local":
            continue
        else:
            kinds.add("unknown")
    return kinds


class RngFlow:
    """which parameters of which functions are used (transitively) as the RNG of a draw,
    and every draw site with the provenance of its RNG"""

    def __init__(self, prog, cg):
        self.prog, self.cg = prog, cg
        self.res = {}
        self.draws = defaultdict(list)        # fn path -> [(bb, callee, rng term)]
        self.rng_params = defaultdict(set)    # fn path -> {arg index}
        self.ambient_sites = defaultdict(list)
        for b in prog.bodies.values():
            r = self._res(b)
            for bb, t in b.calls():
                f = t.get("f")
                if not f:
                    continue
                p = f["path"]
                if p.endswith(DRAW_SUFFIX) and f.get("crate") in ("rand", "rand_core", "rand_distr"):
                    # the RNG is the argument of RNG type: for Rng::*/RngCore::* it is arg 0, for SliceRandom::shuffle arg 1,
                    # for Distribution::sample arg 1
                    idx = 0 if ("Rng::" in p or "RngCore::" in p) else 1
                    if idx < len(t["args"]):
                        term = r.operand(t["args"][idx])
                        self.draws[b.path].append((bb, p, term))
                        for k in rng_kind(term):
                            if isinstance(k, tuple) and k[0] == "arg":
                                self.rng_params[b.path].add(k[1])
                if p.endswith(AMBIENT_CTORS) or p.endswith(CLOCK) or p.endswith("RealNumber::rand"):
                    self.ambient_sites[b.path].append((bb, p))
        # propagate: passing my param i as argument j of a callee whose param j+1 is an rng param
        changed = True
        while changed:
            changed = False
            for caller, sites in cg.sites.items():
                b = prog.bodies[caller]
                r = self._res(b)
                for bb, t, tgts in sites:
                    for c in tgts:
                        for j in list(self.rng_params.get(c.path, ())):
                            if j - 1 < len(t["args"]):
                                for k in rng_kind(r.operand(t["args"][j - 1])):
                                    if isinstance(k, tuple) and k[0] == "arg" and k[1] not in self.rng_params[caller]:
                                        self.rng_params[caller].add(k[1])
                                        changed = True

    def _res(self, b):
        if b.path not in self.res:
            self.res[b.path] = Resolver(b)
        return self.res[b.path]

    def rng_sources_at_root(self, root):
        """for every (transitive) draw reachable from `root`, the provenance kinds of the RNG as seen from
        the reachable call sites: list of dict(fn, where, callee, kind, via)"""
        out = []
        reach = self.cg.reachable([root])
        for fn in sorted(reach):
            b = self.prog.bodies[fn]
            r = self._res(b)
            # direct draws with non-parameter provenance
            for bb, p, term in self.draws.get(fn, []):
                for k in rng_kind(term):
                    if not (isinstance(k, tuple) and k[0] in ("arg",)):
                        out.append(dict(fn=fn, where=b.where(bb), callee=p, kind=k, term=render(term)[:80]))
            # rng handed to a callee's rng parameter
            for bb, t, tgts in self.cg.sites.get(fn, []):
                for c in tgts:
                    for j in self.rng_params.get(c.path, ()):
                        if j - 1 < len(t["args"]):
                            term = r.operand(t["args"][j - 1])
                            for k in rng_kind(term):
                                if not (isinstance(k, tuple) and k[0] == "arg"):
                                    out.append(dict(fn=fn, where=b.where(bb), callee=c.path, kind=k, term=render(term)[:80]))
        return out


def hash_order_iterations(prog, fns):
    """iteration (order-observing) over std HashMap/HashSet in the given functions"""
    out = []
    for fn in fns:
        b = prog.bodies[fn]
        for bb, t in b.calls():
            f = t.get("f")
            if not f:
                continue
            p = f["path"]
            st = f.get("self_ty", "") + " " + " ".join(f.get("args", []))
            if p.endswith(("::iter", "::keys", "::values", "::into_iter", "::drain", "::iter_mut", "::values_mut", "::into_keys", "::into_values")) \
                    and ("HashMap<" in st or "HashSet<" in st or "collections::hash" in p):
                out.append((fn, b.where(bb), p))
    return out


# ------------------------------------------------------------------ E2a label decoding
def result_local(body, res):
    """local holding the vector that is returned (inside Ok(..) / to_row_vector(..))"""
    t = res.local(0)
    out = set()
    for a in alts(t):
        x = a
        if x[0] == "agg" and x[1].endswith("::Ok") and x[2]:
            x = x[2][0]
        elif x[0] == "agg" and x[1].endswith("::Err"):
            continue
        elif x[0] == "call" and x[1].endswith("FromResidual::from_residual"):
            continue
        while x[0] == "call" and x[1].endswith(("::to_row_vector", "::from_array", "::from_row_vector")) and x[2]:
            x = x[2][0]
        if x[0] == "phi":
            out.add(x[1])
        elif x[0] == "local":
            out.add(x[1])
    return out


def root_local(body, o):
    from props.C16 import root_local as rl
    return rl(body, o)


def label_stores(body, res, store_suffix=("BaseMatrix::set", "BaseVector::set")):
    """(bb, value term) of every store into the returned vector"""
    rls = result_local(body, res)
    out = []
    for bb, t in body.calls():
        f = t.get("f")
        if f and f["path"].endswith(store_suffix):
            dest = root_local(body, t["args"][0])
            if dest in rls:
                out.append((bb, res.operand(t["args"][-1])))
    return out


def is_label_elem(t, table_pred):
    """t is an element of the label table (or a join of such elements) with no arithmetic/conversion on the way"""
    xs = alts(t)
    return bool(xs) and all(x[0] == "idx" and table_pred(x[1]) for x in xs)
