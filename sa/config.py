"""Configuration fields are consulted on every successful path (contradiction rule).

For a function with a by-value / by-reference parameter struct (`parameters`, or any argument the binding names): a field
that is read on some path to a successful return but can be bypassed on another successful path is a stated belief ("this
setting matters") contradicted by a shortcut that ignores it - e.g. a fast path that builds a fresh default configuration
for a delegate and drops the caller's tolerance and iteration limit.  Reads inside a loop body count at the loop header (a
loop may run zero times); passing the whole struct on (move / clone / reference) counts as reading every field.

check(body, arg_local) -> [(field, blocks)] of fields that are not read on every successful path."""
from .guards import success_subgraph_cuts
from .isolation import natural_loops
from .prov import Resolver


def field_reads(b, l):
    fr, whole = {}, set()

    def visit_place(p, bb):
        if p["l"] != l:
            return
        fs = [e for e in p["pr"] if isinstance(e, dict) and "f" in e]
        if fs:
            fr.setdefault(str(fs[0].get("n", fs[0]["f"])), set()).add(bb)
        else:
            whole.add(bb)

    def visit_op(o, bb):
        if o["k"] in ("copy", "move"):
            visit_place(o["p"], bb)
    for i, blk in enumerate(b.blocks):
        if blk["cleanup"] or i not in b.reach:
            continue
        for s in blk["stmts"]:
            if s["k"] != "assign":
                continue
            r = s["r"]
            if r["k"] in ("use", "cast", "repeat"):
                visit_op(r["o"], i)
            elif r["k"] == "un":
                visit_op(r["a"], i)
            elif r["k"] in ("ref", "rawptr", "copyderef", "discr"):
                visit_place(r["p"], i)
            elif r["k"] == "bin":
                visit_op(r["a"], i)
                visit_op(r["b"], i)
            elif r["k"] == "agg":
                for o in r.get("ops", []):
                    visit_op(o, i)
        t = blk["term"]
        if t["k"] == "call":
            for a in t["args"]:
                visit_op(a, i)
        elif t["k"] == "switch":
            visit_op(t["o"], i)
    return fr, whole


def check(b, l):
    fr, whole = field_reads(b, l)
    if not fr:
        return [], 0
    loops = natural_loops(b)

    def lift(blocks):
        out = set(blocks)
        for bb in blocks:
            for h, nodes in loops.items():
                if bb in nodes:
                    out.add(h)
        return out
    cuts = success_subgraph_cuts(b, "reject", Resolver(b))
    wl = lift(whole)
    bad = []
    for f, blocks in sorted(fr.items()):
        reach = b.reachable_from([0], cut_edges=cuts, cut_blocks=frozenset(lift(blocks) | wl))
        if any(rb in reach for rb in b.returns):
            bad.append((f, sorted(blocks)))
    return bad, len(fr)


def run_rule(ck, prog, files, names=("parameters",), rule="E2-config",
             inst="a configuration field read on one successful path is read on every successful path"):
    n = 0
    for b in prog.bodies.values():
        if b.loc[0] not in files or "::tests::" in b.path:
            continue
        for l in range(1, b.arg_count + 1):
            if b.local_name(l) not in names:
                continue
            bad, k = check(b, l)
            n += k
            for f, blocks in bad:
                ck.violation(rule, inst, b.path, b.where(blocks[0]),
                             expected=f"`{b.local_name(l)}.{f}` reaches the result on every path that returns successfully",
                             found=f"`{b.local_name(l)}.{f}` is read at {b.where(blocks[0])} but a successful return is reachable without reading it "
                                   "(a shortcut path ignores the caller's setting)")
            if k and not bad:
                ck.ok(rule, inst, b.path, f"{b.loc[0]}:{b.loc[1]}", f"{k} field(s) of `{b.local_name(l)}`, each on every successful path")
    if n == 0:
        ck.note(f"{inst}: no function with a `{'/'.join(names)}` argument in scope: no instance")
