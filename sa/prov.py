"""Provenance terms: walk definitions backwards from an operand to a normalised,
field-sensitive term.

Term grammar (nested tuples):
  ('arg', i, name)            i-th argument (1-based, MIR local index)
  ('upvar', name)             captured variable of a closure
  ('field', base, name)       struct / tuple field
  ('variant', base, name)     downcast to enum variant (payload)
  ('idx', base, index)        element
  ('call', path, (args...))   call result (path = trait-level path of the callee)
  ('const', text)             non-integer constant (display form)
  ('int', n)                  integer / bool constant
  ('bin', op, a, b) ('un', op, a) ('cast', a, ty, kind)
  ('agg', name, (ops...))     aggregate; name = 'tuple' | 'array' | adt path::Variant | closure path
  ('discr', base)
  ('phi', local, (alts...))   local with several definitions
  ('local', l)                undefined / cyclic local
References and dereferences are transparent (`&x`, `*x` are `x`).
"""
from .mir import Body

MAXDEPTH = 40

# calls that return (a view of) their first argument's value
TRANSPARENT_1 = {
    "std::clone::Clone::clone", "std::ops::Deref::deref", "std::ops::DerefMut::deref_mut",
    "std::convert::AsRef::as_ref", "std::borrow::Borrow::borrow", "std::convert::Into::into",
    "std::convert::From::from", "std::borrow::ToOwned::to_owned", "std::vec::Vec::<T, A>::as_slice",
    "std::slice::<impl [T]>::to_vec", "std::vec::Vec::<T, A>::as_mut_slice",
    "std::convert::AsMut::as_mut", "std::borrow::BorrowMut::borrow_mut",
    "std::iter::IntoIterator::into_iter", "std::slice::<impl [T]>::iter", "std::slice::<impl [T]>::iter_mut",
    "std::iter::Iterator::copied", "std::iter::Iterator::cloned", "std::iter::Iterator::by_ref",
    "std::option::Option::<&T>::copied", "std::option::Option::<&T>::cloned",
}
UNWRAP = {
    "std::option::Option::<T>::unwrap", "std::result::Result::<T, E>::unwrap",
    "std::option::Option::<T>::expect", "std::result::Result::<T, E>::expect",
}


class Resolver:
    def __init__(self, body: Body, prog=None):
        self.b = body
        self.prog = prog
        self.memo = {}
        self.pmemo = {}
        self.cuts = []

    # -------------------------------------------------------------- places
    def place(self, p, depth=0, stack=()):
        base = self.local(p["l"], depth, stack)
        return self.project(base, p["pr"], depth, stack)

    def project(self, base, pr, depth=0, stack=()):
        t = base
        for e in pr:
            if e == "*":
                continue
            if "f" in e:
                t = self.field(t, e["n"], e["f"])
            elif "dc" in e:
                t = ("variant", t, e["dc"])
            elif "i" in e:
                t = ("idx", t, self.local(e["i"], depth + 1, stack))
            elif "ci" in e:
                t = ("idx", t, ("int", e["ci"]))
            else:
                t = ("proj", t, str(e))
        return t

    def field(self, t, name, idx):
        # field of a freshly built aggregate -> the operand
        if t[0] == "agg":
            nm = t[1]
            if nm == "tuple" and idx < len(t[2]):
                return t[2][idx]
            if len(t) > 3 and t[3] and name in t[3]:
                return t[2][t[3].index(name)]
        if t[0] == "variant" and t[1][0] == "agg":
            a = t[1]
            # Some(x).0 -> x when the variant matches
            if a[1].endswith("::" + t[2]) and idx < len(a[2]):
                return a[2][idx]
        if t[0] == "phi":
            alts = tuple(self.field(a, name, idx) for a in t[2])
            if all(a == alts[0] for a in alts):
                return alts[0]
            return ("field", t, name)
        return ("field", t, name)

    # -------------------------------------------------------------- locals
    def local(self, l, depth=0, stack=()):
        """term of a local.  Results that contain a cut point to a local that is still being
        resolved further up the stack are only cached provisionally (for the duration of the
        current top-level query); clean results are cached for good."""
        if l in self.memo:
            return self.memo[l]
        if not stack:
            self.pmemo = {}
            self.cuts = []
        if l in self.pmemo:
            r, cs = self.pmemo[l]
            self.cuts.extend(cs)
            return r
        b = self.b
        if b.is_arg(l):
            if b.kind == "Closure" and l == 1:
                r = ("closure_env",)
            else:
                r = ("arg", l, b.local_name(l) or f"_{l}")
            self.memo[l] = r
            return r
        if l in stack or depth > MAXDEPTH:
            self.cuts.append(l)
            return ("local", l)
        mark = len(self.cuts)
        defs = b.defs.get(l, [])
        if not defs:
            r = ("local", l)
        elif len(defs) == 1:
            r = self.from_def(defs[0], depth + 1, stack + (l,))
        else:
            alts = []
            for d in defs:
                a = self.from_def(d, depth + 1, stack + (l,))
                if a not in alts:
                    alts.append(a)
            if len(alts) == 1:
                r = alts[0]
            else:
                r = ("phi", l, tuple(alts))
        mine = set(self.cuts[mark:])
        outer = mine & set(stack)
        if outer or depth > MAXDEPTH - 2:
            self.pmemo[l] = (r, tuple(outer))
            del self.cuts[mark:]
            self.cuts.extend(outer)
        else:
            self.memo[l] = r
            del self.cuts[mark:]
        return r

    def from_def(self, d, depth, stack):
        if d.kind == "call":
            return self.call(d.data, depth, stack)
        if d.kind == "store":
            return ("call", "mut:store", (self.rvalue(d.data["r"], depth, stack),))
        if d.kind == "mutcall":
            t = d.data
            f = t.get("f")
            args = tuple(self.operand(a, depth, stack) for a in t["args"])
            return ("call", "mut:" + (f["path"] if f else "<indirect>"), args)
        return self.rvalue(d.data["r"], depth, stack)

    def operand(self, o, depth=0, stack=()):
        k = o["k"]
        if k in ("copy", "move"):
            t = self.place(o["p"], depth, stack)
            return self.fix_env(t)
        if k == "const":
            if "int" in o:
                return ("int", int(o["int"]))
            if "fn" in o:
                return ("fnref", o["fn"]["path"])
            if "item" in o:
                return ("const", o["item"])
            return ("const", o["v"])
        return ("unk", "operand")

    def fix_env(self, t):
        # closure environment field -> upvar name
        if t[0] == "field" and t[1] == ("closure_env",):
            return ("upvar", t[2] if not t[2].isdigit() else self.b.upvars.get(int(t[2]), t[2]))
        if t[0] in ("field", "idx", "variant") and isinstance(t[1], tuple):
            inner = self.fix_env(t[1])
            if inner is not t[1]:
                return (t[0], inner) + t[2:]
        return t

    def rvalue(self, r, depth, stack):
        k = r["k"]
        if k == "use":
            return self.operand(r["o"], depth, stack)
        if k in ("ref", "copyderef", "rawptr"):
            return self.fix_env(self.place(r["p"], depth, stack))
        if k == "bin":
            op = r["op"]
            a = self.operand(r["a"], depth, stack)
            c = self.operand(r["b"], depth, stack)
            if op.endswith("WithOverflow"):
                # (result, overflowed) tuple; field 0 is the arithmetic result
                return ("agg", "tuple", (("bin", op[: -len("WithOverflow")], a, c), ("ovf",)), None)
            return ("bin", op, a, c)
        if k == "un":
            return ("un", r["op"], self.operand(r["a"], depth, stack))
        if k == "cast":
            inner = self.operand(r["o"], depth, stack)
            ck = r["ck"]
            if ck.startswith("PointerCoercion") or ck in ("PtrToPtr", "Transmute"):
                return inner
            return ("cast", inner, r["ty"], ck)
        if k == "agg":
            ops = tuple(self.operand(o, depth, stack) for o in r["ops"])
            ak = r["ak"]
            if ak == "tuple":
                return ("agg", "tuple", ops, None)
            if ak == "array":
                return ("agg", "array", ops, None)
            if ak == "adt":
                return ("agg", r["name"] + "::" + r["variant"], ops, tuple(r["fields"]))
            if ak == "closure":
                return ("agg", "closure:" + r["name"], ops, None)
            return ("agg", "other", ops, None)
        if k == "discr":
            return ("discr", self.fix_env(self.place(r["p"], depth, stack)))
        if k == "repeat":
            return ("agg", "repeat", (self.operand(r["o"], depth, stack),), None)
        return ("unk", k)

    def call(self, t, depth, stack):
        f = t.get("f")
        args = tuple(self.operand(a, depth, stack) for a in t["args"])
        if not f:
            return ("call", "<indirect>", (self.operand(t["fo"], depth, stack),) + args)
        path = f["path"]
        if path in TRANSPARENT_1 and args:
            return args[0]
        if path in UNWRAP and args:
            a = args[0]
            if a[0] == "agg" and a[1].endswith(("::Some", "::Ok")) and a[2]:
                return a[2][0]
            return ("call", "unwrap", args[:1])
        if path in ("std::ops::Index::index", "std::ops::IndexMut::index_mut") and len(args) == 2:
            return ("idx", args[0], args[1])
        return ("call", path, args)


def _has_local(t, stack):
    if not stack:
        return False
    if not isinstance(t, tuple):
        return False
    if t and t[0] == "local":
        return True
    return any(_has_local(x, stack) for x in t[1:] if isinstance(x, tuple))


# ------------------------------------------------------------------ rendering
def short(path):
    """last path component(s) for display"""
    p = path
    if p.startswith("<") and ">::" in p:
        p = p[p.rindex(">::") + 3:]
    return p.split("::")[-1]


def render(t, depth=0):
    if not isinstance(t, tuple) or not t:
        return str(t)
    if depth > 14:
        return "..."
    k = t[0]
    if k == "arg":
        return t[2]
    if k == "upvar":
        return "^" + t[1]
    if k == "field":
        return f"{render(t[1], depth + 1)}.{t[2]}"
    if k == "variant":
        return f"({render(t[1], depth + 1)} as {t[2]})"
    if k == "idx":
        return f"{render(t[1], depth + 1)}[{render(t[2], depth + 1)}]"
    if k == "call":
        return f"{short(t[1])}({', '.join(render(a, depth + 1) for a in t[2])})"
    if k == "const":
        return t[1]
    if k == "int":
        return str(t[1])
    if k == "bin":
        return f"({render(t[2], depth + 1)} {t[1]} {render(t[3], depth + 1)})"
    if k == "un":
        return f"{t[1]}({render(t[2], depth + 1)})"
    if k == "cast":
        return f"({render(t[1], depth + 1)} as {t[2]})"
    if k == "agg":
        return f"{short(t[1])}{{{', '.join(render(a, depth + 1) for a in t[2])}}}"
    if k == "discr":
        return f"discr({render(t[1], depth + 1)})"
    if k == "phi":
        return f"phi_{t[1]}({' | '.join(render(a, depth + 1) for a in t[2])})"
    if k == "local":
        return f"_{t[1]}"
    if k == "fnref":
        return "fn " + short(t[1])
    return str(t)


def subterms(t, _seen=None):
    """all distinct subterms, pre-order (terms are DAGs: shared nodes are visited once)"""
    if _seen is None:
        _seen = set()
    if not isinstance(t, tuple) or id(t) in _seen:
        return
    _seen.add(id(t))
    yield t
    for x in t[1:]:
        if isinstance(x, tuple):
            if x and isinstance(x[0], str):
                yield from subterms(x, _seen)
            else:
                for y in x:
                    if isinstance(y, tuple):
                        yield from subterms(y, _seen)


def alts(t):
    """expand top-level phi alternatives"""
    if isinstance(t, tuple) and t and t[0] == "phi":
        out = []
        for a in t[2]:
            out.extend(alts(a))
        return out
    return [t]


def capture_value(prog, body, name):
    """value (a term in the defining body) of the variable `name` captured by closure `body`, followed through nested closures"""
    seen = 0
    while body is not None and seen < 6:
        seen += 1
        par_path = body.path.rsplit("::{closure", 1)[0]
        parent = prog.get(par_path)
        if parent is None:
            return None
        pres = Resolver(parent)
        found = False
        for i, j, s in parent.stmts():
            r = s["r"] if s["k"] == "assign" else None
            if r and r["k"] == "agg" and r["ak"] == "closure" and r["name"] == body.path:
                names = [body.upvars.get(k) for k in range(len(r["ops"]))]
                if name in names:
                    v = pres.operand(r["ops"][names.index(name)])
                    if v[0] == "upvar":
                        body, name = parent, v[1]
                        found = True
                        break
                    return v
        if not found:
            return None
    return None


def subst_upvars(prog, body, t):
    """replace ('upvar', n) leaves of a closure-body term by the captured values"""
    if not isinstance(t, tuple) or not t:
        return t
    if t[0] == "upvar":
        v = capture_value(prog, body, t[1])
        return v if v is not None else t
    if isinstance(t[0], str):
        return (t[0],) + tuple(subst_upvars(prog, body, x) if isinstance(x, tuple) else x for x in t[1:])
    return tuple(subst_upvars(prog, body, x) if isinstance(x, tuple) else x for x in t)


def inline_calls(prog, t, allow=None, depth=0):
    """replace calls to functions whose MIR is in `prog` (free functions / inherent methods of the crate) by their return
    term with the actual arguments substituted; `allow(path)` restricts which callees are inlined; two levels"""
    if not isinstance(t, tuple) or not t:
        return t
    if t[0] == "call" and depth < 3 and isinstance(t[1], str) and t[1] in prog.bodies and not t[1].startswith(("std::", "core::", "alloc::")) \
            and (allow is None or allow(t[1])):
        hb = prog.bodies[t[1]]
        ret = Resolver(hb).local(0)
        actual = t[2]

        def subst(x):
            if not isinstance(x, tuple) or not x:
                return x
            if x[0] == "arg" and len(x) >= 2 and isinstance(x[1], int) and 1 <= x[1] <= len(actual):
                return actual[x[1] - 1]
            return tuple(subst(y) for y in x)
        return inline_calls(prog, subst(ret), allow, depth + 1)
    return tuple(inline_calls(prog, x, allow, depth) if isinstance(x, tuple) else x for x in t)
