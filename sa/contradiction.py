"""E7: dead-variant contradiction (Engler-style belief contradiction).

A local function returns Option/Result, every Return assigns the same variant,
and a caller supplies a default for / branches on the other variant."""
from .guards import _ret_kind
from .prov import Resolver, subterms, render

DEFAULTING = ("::unwrap_or_else", "::unwrap_or", "::map_or", "::map_or_else", "::unwrap_or_default", "::ok_or", "::ok_or_else")


def returned_variants(body):
    res = Resolver(body)
    kinds = set()
    for d in body.defs.get(0, []):
        if d.bb in body.reach:
            kinds.add(_ret_kind(body, res, d))
    return kinds


def default_sites(caller, callee_path):
    """calls in `caller` that supply a default for the None/Err variant of a value
    whose provenance is a call to `callee_path`"""
    res = Resolver(caller)
    out = []
    for bb, t in caller.calls():
        f = t.get("f")
        if not f or not f["path"].endswith(DEFAULTING) or not t["args"]:
            continue
        recv = res.operand(t["args"][0])
        if any(s[0] == "call" and s[1] == callee_path for s in subterms(recv)):
            out.append((caller.where(bb), f["path"], render(recv)[:120]))
    # `match callee(..) { Some(v) => .., None => default }`: a branch on the discriminant of the result
    for i, blk in enumerate(caller.blocks):
        tt = blk["term"]
        if blk["cleanup"] or i not in caller.reach or tt["k"] != "switch" or tt["o"]["k"] not in ("copy", "move"):
            continue
        term = res.operand(tt["o"])
        if term[0] == "discr" and any(s[0] == "call" and s[1] == callee_path for s in subterms(term)) \
                and not any(s[0] == "call" and s[1].endswith("Try::branch") for s in subterms(term)):
            out.append((caller.where(i), "match on the result", render(term)[:120]))
    return out
