"""Term matchers used by the rule instances (semantic, not textual)."""
import re

LEN_CALLS = re.compile(
    r"(^|::)(BaseVector::len|Vec::<T, A>::len|<impl \[T\]>::len|VecDeque::<T, A>::len|"
    r"ArrayBase::<S, D>::len|ArrayBase<S, D>>::len|Matrix::<T, R, C, S>::len|Matrix<T, R, C, S>>::len|ExactSizeIterator::len)$")
SHAPE_CALLS = re.compile(r"(^|::)(BaseMatrix::shape|Matrix::<T, R, C, S>::shape|ArrayBase::<S, D>::dim)$")
NROWS_CALLS = re.compile(r"(^|::)(nrows)$")
NCOLS_CALLS = re.compile(r"(^|::)(ncols)$")


class Base:
    """an argument (by position) optionally followed by a field path"""

    def __init__(self, arg, *fields):
        self.arg = arg
        self.fields = tuple(fields)

    def match(self, t):
        for f in reversed(self.fields):
            if t[0] != "field" or t[2] != f:
                return False
            t = t[1]
        return t[0] == "arg" and t[1] == self.arg

    def remap(self, m):
        if self.arg not in m:
            return None
        return Base(m[self.arg], *self.fields)

    def __repr__(self):
        return "arg%d%s" % (self.arg, "".join("." + f for f in self.fields))


class AnyBase:
    def match(self, t):
        return True

    def remap(self, m):
        return self

    def __repr__(self):
        return "*"


def dim_of(t):
    """(kind, base_term) for a dimension term, kind in len|rows|cols; else None"""
    k = t[0]
    if k == "call":
        p = t[1]
        if LEN_CALLS.search(p) and t[2]:
            return ("len", t[2][0])
        if NROWS_CALLS.search(p) and t[2]:
            return ("rows", t[2][0])
        if NCOLS_CALLS.search(p) and t[2]:
            return ("cols", t[2][0])
    if k == "un" and t[1] == "PtrMetadata":
        return ("len", t[2])
    if k == "field":
        b = t[1]
        if b[0] == "call" and SHAPE_CALLS.search(b[1]) and b[2]:
            if t[2] == "0":
                return ("rows", b[2][0])
            if t[2] == "1":
                return ("cols", b[2][0])
        if t[2] == "nrows":
            return ("rows", b)
        if t[2] == "ncols":
            return ("cols", b)
    return None


class Dim:
    def __init__(self, kind, base):
        self.kind = kind
        self.base = base if not isinstance(base, int) else Base(base)

    def __call__(self, t):
        d = dim_of(t)
        return bool(d) and d[0] == self.kind and self.base.match(d[1])

    def remap(self, m):
        b = self.base.remap(m)
        return Dim(self.kind, b) if b else None

    def __repr__(self):
        return f"{self.kind}({self.base})"


class Field:
    """value of a field path off an argument, e.g. parameters.alpha"""

    def __init__(self, arg, *fields):
        self.base = Base(arg, *fields)

    def __call__(self, t):
        return self.base.match(t)

    def remap(self, m):
        b = self.base.remap(m)
        if not b:
            return None
        f = Field(0)
        f.base = b
        return f

    def __repr__(self):
        return repr(self.base)


class Arg:
    def __init__(self, i):
        self.i = i

    def __call__(self, t):
        return t[0] == "arg" and t[1] == self.i

    def remap(self, m):
        return Arg(m[self.i]) if self.i in m else None

    def __repr__(self):
        return f"arg{self.i}"


class Zero:
    """the additive zero of T or an integer/float literal zero"""

    def __call__(self, t):
        if t == ("int", 0):
            return True
        if t[0] == "call" and t[1] in ("num_traits::Zero::zero",) and not t[2]:
            return True
        if t[0] == "const" and re.fullmatch(r"-?0(\.0*)?(_?f(32|64))?", t[1].replace("const ", "")):
            return True
        return False

    def remap(self, m):
        return self

    def __repr__(self):
        return "0"


class Int:
    def __init__(self, n=None):
        self.n = n

    def __call__(self, t):
        return t[0] == "int" and (self.n is None or t[1] == self.n)

    def remap(self, m):
        return self

    def __repr__(self):
        return f"int({self.n})" if self.n is not None else "int"


class Pred:
    def __init__(self, fn, name="pred"):
        self.fn = fn
        self.name = name

    def __call__(self, t):
        return self.fn(t)

    def remap(self, m):
        return self

    def __repr__(self):
        return self.name


class Prod:
    """product of two matcher-recognised factors (commutative), e.g. nrows*ncols"""

    def __init__(self, a, b):
        self.a, self.b = a, b

    def __call__(self, t):
        if t[0] == "agg" and t[1] == "tuple" and t[2]:
            t = t[2][0]
        if t[0] == "field" and t[2] == "0" and t[1][0] == "agg":
            t = t[1][2][0]
        if t[0] != "bin" or t[1] != "Mul":
            return False
        x, y = t[2], t[3]
        return (self.a(x) and self.b(y)) or (self.a(y) and self.b(x))

    def remap(self, m):
        a, b = self.a.remap(m), self.b.remap(m)
        return Prod(a, b) if a and b else None

    def __repr__(self):
        return f"{self.a}*{self.b}"


def contains(t, pred):
    from .prov import subterms
    return any(pred(s) for s in subterms(t))
