"""Fact extraction: run the rustc_private driver over /repo's *current working tree*
and cache the result under a content hash of the sources + driver binary.

Fail closed: if the driver did not run (cargo freshness cache) or the stamped
nonce does not match, raise.
"""
import fcntl
import hashlib
import json
import os
import pickle
import shutil
import subprocess
import sys
import time
import uuid

VERIF = os.path.dirname(os.path.dirname(os.path.abspath(__file__)))
REPO = os.environ.get("SCVERIF_REPO", "/repo")
CACHE = os.path.join(VERIF, ".cache")
DRIVER = os.path.join(VERIF, "driver", "target", "release", "scverif-driver")

CONFIGS = {
    "all": ["--features", "serde,ndarray-bindings,nalgebra-bindings"],
    "default": [],
    "serde": ["--features", "serde"],
    "ndarray": ["--features", "ndarray-bindings"],
    "nalgebra": ["--features", "nalgebra-bindings"],
}


class FactError(Exception):
    pass


def _sysroot():
    return subprocess.check_output(["rustc", "+nightly", "--print", "sysroot"], text=True).strip()


def tree_hash(repo=None):
    repo = repo or REPO
    h = hashlib.sha256()
    files = []
    for root, dirs, fs in os.walk(os.path.join(repo, "src")):
        dirs.sort()
        for f in sorted(fs):
            files.append(os.path.join(root, f))
    for extra in ("Cargo.toml", "Cargo.lock"):
        p = os.path.join(repo, extra)
        if os.path.exists(p):
            files.append(p)
    for p in files:
        h.update(os.path.relpath(p, repo).encode())
        h.update(b"\0")
        with open(p, "rb") as fh:
            h.update(fh.read())
        h.update(b"\0")
    with open(DRIVER, "rb") as fh:
        h.update(fh.read())
    return h.hexdigest()[:24]


def ensure_driver():
    if not os.path.exists(DRIVER):
        subprocess.check_call(
            ["cargo", "build", "--offline", "--release"],
            cwd=os.path.join(VERIF, "driver"),
            env=dict(os.environ, CARGO_NET_OFFLINE="true"),
        )
    if not os.path.exists(DRIVER):
        raise FactError("driver binary missing: run setup (./check --setup)")


def extract(config="all", repo=None, quiet=True):
    """Return the facts dict for the given configuration of the current tree."""
    repo = repo or REPO
    ensure_driver()
    os.makedirs(os.path.join(CACHE, "facts"), exist_ok=True)
    key = tree_hash(repo)
    pk = os.path.join(CACHE, "facts", f"{key}-{config}.pickle")
    lockp = os.path.join(CACHE, f"lock-{config}")
    with open(lockp, "w") as lockf:
        fcntl.flock(lockf, fcntl.LOCK_EX)
        if os.path.exists(pk):
            with open(pk, "rb") as fh:
                facts = pickle.load(fh)
            facts["_cache"] = "hit"
            facts["_tree_hash"] = key
            return facts
        t0 = time.time()
        target = os.path.join(CACHE, f"target-{config}")
        # cargo's freshness cache would skip the wrapper: drop the primary
        # package's fingerprints so that it is always re-checked
        fpdir = os.path.join(target, "debug", ".fingerprint")
        if os.path.isdir(fpdir):
            for d in os.listdir(fpdir):
                if d.startswith("smartcore-"):
                    shutil.rmtree(os.path.join(fpdir, d), ignore_errors=True)
        nonce = uuid.uuid4().hex
        out = os.path.join(CACHE, "facts", f"raw-{config}-{nonce}.json")
        env = dict(os.environ)
        env.update(
            LD_LIBRARY_PATH=os.path.join(_sysroot(), "lib"),
            RUSTFLAGS="-Zmir-opt-level=0 -Awarnings",
            RUSTC_WORKSPACE_WRAPPER=DRIVER,
            CARGO_TARGET_DIR=target,
            CARGO_NET_OFFLINE="true",
            SCVERIF_OUT=out,
            SCVERIF_NONCE=nonce,
            CARGO_INCREMENTAL="0",
        )
        cmd = ["cargo", "+nightly", "check", "--offline", "--lib"] + CONFIGS[config]
        p = subprocess.run(cmd, cwd=repo, env=env, stdout=subprocess.PIPE, stderr=subprocess.STDOUT, text=True)
        if p.returncode != 0:
            raise FactError(f"cargo check failed for config {config} (the tree does not compile?):\n" + p.stdout[-4000:])
        if not os.path.exists(out):
            raise FactError(f"driver produced no fact file for config {config}; cargo output:\n" + p.stdout[-2000:])
        with open(out) as fh:
            facts = json.load(fh)
        os.unlink(out)
        if facts.get("nonce") != nonce:
            raise FactError("stale fact file (nonce mismatch)")
        facts["_extract_s"] = round(time.time() - t0, 2)
        facts["_config"] = config
        with open(pk + ".tmp", "wb") as fh:
            pickle.dump(facts, fh, protocol=pickle.HIGHEST_PROTOCOL)
        os.replace(pk + ".tmp", pk)
        # keep the cache small: drop older pickles of this config
        fd = os.path.join(CACHE, "facts")
        olds = sorted(
            (f for f in os.listdir(fd) if f.endswith(f"-{config}.pickle")),
            key=lambda f: os.path.getmtime(os.path.join(fd, f)),
        )
        for f in olds[:-6]:
            os.unlink(os.path.join(fd, f))
        facts["_cache"] = "miss"
        facts["_tree_hash"] = key
        return facts


if __name__ == "__main__":
    cfg = sys.argv[1] if len(sys.argv) > 1 else "all"
    f = extract(cfg)
    print(cfg, f["_cache"], len(f["bodies"]), "bodies", f["features"], f.get("_extract_s"))
