"""E1 rule-instance runner: guard specs -> verdicts."""
from . import guards
from .guards import check_guard, classify_edges, comparisons, success_subgraph_cuts, _on_every_success_path, USIZE
from .mir import AnchorError
from .prov import Resolver, render

NE = frozenset("np")   # subject != bound
EQ = frozenset("z")
LT = frozenset("n")
GT = frozenset("p")
LE = frozenset("nz")
GE = frozenset("pz")


class G:
    def __init__(self, name, fn, subject, bound, reject, accept, want, int_domain=None,
                 interproc=True, rule="E1-guard", dominate=True):
        self.name, self.fn = name, fn
        self.subject, self.bound = subject, bound
        self.reject, self.accept, self.want = frozenset(reject), frozenset(accept), want
        self.int_domain = int_domain
        self.interproc = interproc
        self.rule = rule
        self.dominate = dominate


class BodyCtx:
    """cached per-body analysis artefacts"""
    _cache = {}

    def __init__(self, body):
        self.body = body
        self.res = Resolver(body)
        self.cmps = comparisons(body, self.res)
        self.edges = classify_edges(body, self.res)

    @classmethod
    def of(cls, body):
        k = id(body)
        if k not in cls._cache:
            cls._cache[k] = cls(body)
        return cls._cache[k]


def _resolve_body(prog, fn):
    if hasattr(fn, "path"):
        return fn
    return prog.one(fn)


def eval_guard(prog, g, body=None, depth=0):
    """returns (ok, detail, sites, path)"""
    body = body or _resolve_body(prog, g.fn)
    cx = BodyCtx.of(body)
    try:
        r = check_guard(body, g.subject, g.bound, g.reject, g.accept, g.want, res=cx.res, cmps=cx.cmps,
                        edges=cx.edges, dominate=g.dominate, int_domain=g.int_domain)
    except guards.Unrepresentable as e:
        return False, f"comparison with a constant outside the representable window: {e}", [], [body.path]
    if r.ok:
        d = "; ".join(f"`{f['lhs']} {f['rel']} {f['rhs']}` -> {'/'.join(f['outcome'])}" for f in r.found) or \
            "no refusing comparison (none required)"
        return True, d, [f["where"] for f in r.found] or [f"{body.loc[0]}:{body.loc[1]}"], [body.path]
    # a comparison of the whole shapes (shape(a) != shape(b), or a tuple of both dimensions) settles every dimension pair
    if not r.found and depth == 0 and g.reject:
        ws = _whole_shape_guard(g)
        if ws is not None:
            r2 = check_guard(body, ws[0], ws[1], g.reject, g.accept, g.want, res=cx.res, cmps=cx.cmps, edges=cx.edges,
                             dominate=g.dominate, int_domain=None)
            if r2.ok and r2.found:
                d = "; ".join(f"`{f['lhs']} {f['rel']} {f['rhs']}` -> {'/'.join(f['outcome'])}" for f in r2.found)
                return True, "whole-shape comparison: " + d, [f["where"] for f in r2.found], [body.path]
    direct_problem = "; ".join(r.problems)
    if r.found or not g.interproc or depth >= 2 or not g.reject:
        return False, direct_problem, r.sites or [f"{body.loc[0]}:{body.loc[1]}"], [body.path]
    # one/two levels of helper inlining: a call on every successful path whose
    # callee enforces the same guard on the corresponding arguments
    cuts = success_subgraph_cuts(body, g.want, cx.res, cx.edges)
    tried = []
    for bb, t in body.calls():
        f = t.get("f")
        if not f:
            continue
        cal = None
        for key in (f.get("resolved"), f.get("path")):
            if key and key in prog.bodies:
                cal = prog.bodies[key]
                break
        if cal is None or cal is body:
            continue
        m = {}
        for j, a in enumerate(t["args"]):
            at = cx.res.operand(a)
            if at[0] == "arg":
                m.setdefault(at[1], j + 1)
            else:
                # field path of an argument passed down: not remappable in general
                pass
        s2 = g.subject.remap(m) if hasattr(g.subject, "remap") else None
        b2 = g.bound.remap(m) if hasattr(g.bound, "remap") else None
        # the helper may receive the compared quantities themselves (check_len(x.len(), y.len()))
        from .match import Arg
        for j, a in enumerate(t["args"]):
            at = cx.res.operand(a)
            if s2 is None and callable(g.subject) and g.subject(at):
                s2 = Arg(j + 1)
            elif b2 is None and callable(g.bound) and not isinstance(g.bound, int) and g.bound(at):
                b2 = Arg(j + 1)
            else:
                # the helper receives a whole shape tuple and projects the dimension itself
                from .match import SHAPE_CALLS, Pred
                if at[0] == "call" and SHAPE_CALLS.search(at[1]):
                    for comp in ("0", "1"):
                        proj = ("field", at, comp)
                        mk = lambda jj, cc: Pred(lambda x: x[0] == "field" and x[2] == cc and x[1][0] == "arg" and x[1][1] == jj, f"arg{jj}.{cc}")
                        if s2 is None and callable(g.subject) and g.subject(proj):
                            s2 = mk(j + 1, comp)
                        elif b2 is None and callable(g.bound) and not isinstance(g.bound, int) and g.bound(proj):
                            b2 = mk(j + 1, comp)
        if not s2 or not b2:
            continue
        if g.dominate and not _on_every_success_path(body, bb, cuts):
            continue
        if g.want == "Err" and not _propagates_err(body, cx, bb, t):
            continue
        g2 = G(g.name, cal, s2, b2, g.reject, g.accept, g.want, g.int_domain, rule=g.rule, dominate=g.dominate)
        ok, d, sites, path = eval_guard(prog, g2, cal, depth + 1)
        tried.append(cal.path)
        if ok:
            return True, f"via {cal.path}: {d}", sites, [body.path] + path
    return False, direct_problem + (f" (helpers tried: {tried})" if tried else ""), \
        [f"{body.loc[0]}:{body.loc[1]}"], [body.path]


def _propagates_err(body, cx, bb, t):
    """the call's Result is `?`-propagated or returned directly: the callee's Err
    becomes this function's Err on every path"""
    d = t["d"]
    if d["pr"]:
        return False
    dl = d["l"]
    if dl == 0:
        return True
    # find Try::branch(move dl) and the switch on its discriminant
    for bb2, t2 in body.calls():
        f2 = t2.get("f")
        if f2 and f2["path"] == "std::ops::Try::branch" and t2["args"]:
            a = t2["args"][0]
            if a["k"] in ("move", "copy") and a["p"]["l"] == dl and not a["p"]["pr"]:
                nb = t2["t"]
                tt = body.blocks[nb]["term"]
                if tt["k"] == "switch":
                    for v, dst in tt["targets"]:
                        if v == "1":
                            outs = cx.edges.get((nb, dst)) or guards.edge_outcomes(body, nb, dst, cx.res)
                            return guards.outcome_ok(outs, "Err")
    return False


def run(ck, prog, specs):
    for g in specs:
        try:
            ok, detail, sites, path = eval_guard(prog, g)
        except AnchorError as e:
            ck.violation(g.rule, g.name, str(g.fn), "", expected="anchor function exists exactly once",
                         found=f"anchor vanished: {e}")
            continue
        fn = path[0]
        site = sites[0] if sites else ""
        if not ok and getattr(g, "alt", None):
            # an equivalent idiom the comparison-based evaluation does not see (e.g. an implicit bounds check)
            ok2, d2 = g.alt(prog, _resolve_body(prog, g.fn))
            if ok2:
                ok, detail = True, d2
        if ok:
            ck.ok(g.rule, g.name, fn, site, detail)
        else:
            ck.violation(g.rule, g.name, fn, site,
                         expected=f"subject {g.subject} vs bound {g.bound}: refuse {sorted(g.reject)} with outcome "
                                  f"{g.want}, let through {sorted(g.accept)} "
                                  f"(atoms: n = subject<bound, z = equal, p = subject>bound; ints literal)",
                         found=detail, path=path)


def _whole_shape_guard(g):
    """for a guard on (rows|cols|len of arg a) vs (rows|cols|len of arg b): matchers for `shape(a)` vs `shape(b)`"""
    from .match import Dim, Base, Pred, SHAPE_CALLS, dim_of
    s, b = g.subject, g.bound
    if not (isinstance(s, Dim) and isinstance(b, Dim)) or s.kind != b.kind or s.kind not in ("rows", "cols"):
        return None
    if not (isinstance(s.base, Base) and isinstance(b.base, Base)):
        return None

    def mk(base):
        def pred(t):
            if t[0] == "call" and SHAPE_CALLS.search(t[1]) and t[2] and base.match(t[2][0]):
                return True
            if t[0] == "agg" and t[1] == "tuple" and len(t[2]) == 2:
                d0, d1 = dim_of(t[2][0]), dim_of(t[2][1])
                return bool(d0 and d1 and d0[0] == "rows" and d1[0] == "cols" and base.match(d0[1]) and base.match(d1[1]))
            return False
        return Pred(pred, f"shape({base})")
    return mk(s.base), mk(b.base)


# ---------------------------------------------------------------------------------------------------------------------
# accept-only guard: `subject - bound >= 1` (e.g. n > p) is never refused, also when the refusing test compares the
# subject with `bound + c` / `bound - c` (affine in the bound with an integer literal, possibly through a phi of such forms)
def _affine_offsets(term, bound):
    """offsets c such that an alternative of `term` is bound + c; None if some alternative is not of that form"""
    from .prov import alts
    out = []
    for a in alts(term):
        if bound(a):
            out.append(0)
        elif a[0] == "bin" and a[1] in ("Add", "AddWithOverflow", "AddUnchecked") and bound(a[2]) and a[3][0] == "int":
            out.append(int(a[3][1]))
        elif a[0] == "bin" and a[1] in ("Add", "AddWithOverflow", "AddUnchecked") and bound(a[3]) and a[2][0] == "int":
            out.append(int(a[2][1]))
        elif a[0] == "bin" and a[1] in ("Sub", "SubWithOverflow", "SubUnchecked") and bound(a[2]) and a[3][0] == "int":
            out.append(-int(a[3][1]))
        elif a[0] == "field" and a[2] == "0" and a[1][0] == "bin" and a[1][1].endswith("WithOverflow"):
            o = _affine_offsets(a[1], bound)
            if o is None:
                return None
            out.extend(o)
        else:
            return None
    return out


def accepts_above(ck, prog, fn, subject, bound, inst, want="Err", rule="E1-guard"):
    """No refusing edge of `fn` tests `subject` against `bound + c` in a way that refuses some subject - bound >= 1."""
    from .guards import outcome_ok, edge_outcomes, NEG, FLIP
    try:
        b = prog.one(fn)
    except Exception as e:
        ck.violation(rule, inst, fn, "", expected="anchor exists", found=f"anchor vanished: {e}")
        return
    cx = BodyCtx.of(b)
    n = 0
    for c in cx.cmps:
        for (L, R, rel) in ((c.lhs, c.rhs, c.rel), (c.rhs, c.lhs, FLIP[c.rel])):
            if not subject(L):
                continue
            offs = _affine_offsets(R, bound)
            if not offs:
                continue
            for edge_rel, dst in ((rel, c.true_bb), (NEG[rel], c.false_bb)):
                outs = cx.edges.get((c.bb, dst))
                if outs is None:
                    outs = edge_outcomes(b, c.bb, dst, cx.res)
                if not outcome_ok(outs, want):
                    continue
                n += 1
                # the edge refuses every d = subject - bound with `d edge_rel off`
                bad = [o for o in offs if {"<=": o >= 1, "<": o >= 2, "==": o >= 1, ">": True, ">=": True, "!=": True}[edge_rel]]
                if bad:
                    ck.violation(rule, inst, b.path, c.where, expected="every input with subject > bound is let through",
                                 found=f"`{render(L)} {edge_rel} {render(R)}` refuses with {want}: also inputs with subject - bound >= 1 (offset {bad[0]:+d})")
                else:
                    ck.ok(rule, inst, b.path, c.where, f"`{render(L)} {edge_rel} {render(R)}` refuses only subject <= bound")
    if n == 0:
        ck.note(f"{inst}: no refusing comparison of the subject with the bound: nothing is refused (no instance)")
