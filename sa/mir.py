"""MIR fact model: bodies, CFG, dominators, post-dominators, definitions."""
from collections import defaultdict, namedtuple

PANIC_NAMES = {
    "begin_panic", "panic_fmt", "panic", "panic_display", "panic_str", "panic_nounwind",
    "assert_failed", "assert_failed_inner", "unwrap_failed", "expect_failed",
    "panic_explicit", "unreachable_display", "panic_cold_explicit", "panic_cold_display",
    "slice_index_fail", "panic_bounds_check", "abort", "exit",
}

Def = namedtuple("Def", "bb idx kind data")  # kind: assign|call|setdiscr ; idx = stmt index or 'term'


class Body:
    def __init__(self, raw, facts=None):
        self.raw = raw
        self.facts = facts
        self.path = raw["path"]
        self.kind = raw["kind"]
        self.name = raw.get("name", "{closure}")
        self.loc = raw["loc"]
        self.arg_count = raw["arg_count"]
        self.locals = raw["locals"]
        self.blocks = raw["blocks"]
        self.generics = raw.get("generics", [])
        self.parent = raw.get("parent")
        self.impl_self = raw.get("impl_self")
        self.impl_trait = raw.get("impl_trait")
        self.trait_default = raw.get("trait_default")
        self.nb = len(self.blocks)
        self._build_cfg()
        self._build_defs()
        self._build_mutdefs()
        self._dom = None
        self._pdom = None
        self._upvars = None

    # ------------------------------------------------------------------ CFG
    def _build_cfg(self):
        self.succs = [[] for _ in range(self.nb)]
        self.preds = [[] for _ in range(self.nb)]
        self.diverge_call = set()  # blocks ending in a call/terminator that never returns
        self.returns = []
        for i, b in enumerate(self.blocks):
            if b["cleanup"]:
                continue
            t = b["term"]
            k = t["k"]
            ss = []
            if k == "goto":
                ss = [t["t"]]
            elif k == "switch":
                ss = [x[1] for x in t["targets"]] + [t["otherwise"]]
            elif k == "return":
                self.returns.append(i)
            elif k in ("drop", "assert"):
                ss = [t["t"]]
            elif k == "call":
                if t["t"] is None:
                    self.diverge_call.add(i)
                else:
                    ss = [t["t"]]
            # unreachable / resume / abort / other : no successors
            seen = []
            for s in ss:
                if s not in seen:
                    seen.append(s)
            self.succs[i] = seen
            for s in seen:
                self.preds[s].append(i)
        # reachable from entry
        self.reach = self.reachable_from([0])
        # blocks from which a Return is reachable
        can = set(self.returns)
        work = list(self.returns)
        while work:
            n = work.pop()
            for p in self.preds[n]:
                if p not in can:
                    can.add(p)
                    work.append(p)
        self.can_return = can

    def reachable_from(self, starts, cut_edges=frozenset(), cut_blocks=frozenset()):
        seen = set()
        work = [s for s in starts if s not in cut_blocks]
        while work:
            n = work.pop()
            if n in seen:
                continue
            seen.add(n)
            for s in self.succs[n]:
                if (n, s) in cut_edges or s in cut_blocks:
                    continue
                if s not in seen:
                    work.append(s)
        return seen

    def diverges(self, bb):
        """True iff no Return is reachable from bb (normal edges)."""
        return bb not in self.can_return

    # ----------------------------------------------------------- dominators
    def _idom(self, entry_nodes, succs, preds):
        # iterative dominator sets (bodies are small)
        nodes = sorted(self.reachable_generic(entry_nodes, succs))
        allset = set(nodes)
        dom = {n: set(allset) for n in nodes}
        for e in entry_nodes:
            if e in dom:
                dom[e] = {e}
        changed = True
        # reverse post-order for speed
        order = self._rpo(entry_nodes, succs)
        while changed:
            changed = False
            for n in order:
                if n in entry_nodes:
                    continue
                ps = [p for p in preds[n] if p in dom]
                if not ps:
                    new = {n}
                else:
                    new = set.intersection(*(dom[p] for p in ps)) | {n}
                if new != dom[n]:
                    dom[n] = new
                    changed = True
        return dom

    def reachable_generic(self, starts, succs):
        seen = set()
        work = list(starts)
        while work:
            n = work.pop()
            if n in seen:
                continue
            seen.add(n)
            work.extend(succs[n])
        return seen

    def _rpo(self, starts, succs):
        seen = set()
        post = []
        for s in starts:
            if s in seen:
                continue
            stack = [(s, iter(succs[s]))]
            seen.add(s)
            while stack:
                n, it = stack[-1]
                adv = False
                for m in it:
                    if m not in seen:
                        seen.add(m)
                        stack.append((m, iter(succs[m])))
                        adv = True
                        break
                if not adv:
                    post.append(n)
                    stack.pop()
        return list(reversed(post))

    @property
    def dom(self):
        if self._dom is None:
            self._dom = self._idom([0], self.succs, self.preds)
        return self._dom

    @property
    def pdom(self):
        """Post-dominators w.r.t. a virtual exit joined to every Return and every
        diverging terminator."""
        if self._pdom is None:
            exits = [i for i in range(self.nb) if not self.blocks[i]["cleanup"] and not self.succs[i] and i in self.reach]
            self._pdom = self._idom(exits, self.preds, self.succs)
        return self._pdom

    def dominates(self, a, b):
        return b in self.dom and a in self.dom[b]

    # ---------------------------------------------------------- definitions
    def _build_defs(self):
        self.defs = defaultdict(list)
        self.partial_defs = defaultdict(list)  # assignments through projections
        for i, b in enumerate(self.blocks):
            if b["cleanup"]:
                continue
            for j, s in enumerate(b["stmts"]):
                if s["k"] == "assign":
                    p = s["p"]
                    if not p["pr"]:
                        self.defs[p["l"]].append(Def(i, j, "assign", s))
                    else:
                        self.partial_defs[p["l"]].append(Def(i, j, "assign", s))
                elif s["k"] == "setdiscr":
                    self.partial_defs[s["p"]["l"]].append(Def(i, j, "setdiscr", s))
            t = b["term"]
            if t["k"] == "call":
                p = t["d"]
                if not p["pr"]:
                    self.defs[p["l"]].append(Def(i, "term", "call", t))
                else:
                    self.partial_defs[p["l"]].append(Def(i, "term", "call", t))

    def _build_mutdefs(self):
        """A call that receives `&mut x` (directly or through reborrows / moves of the
        reference) may mutate x: record it as an additional definition of x."""
        ref_of = {}
        changed = True
        rounds = 0
        while changed and rounds < 6:
            changed = False
            rounds += 1
            for l, ds in list(self.defs.items()):
                if l in ref_of or len(ds) != 1 or ds[0].kind != "assign":
                    continue
                r = ds[0].data["r"]
                tgt = None
                if r["k"] in ("ref", "rawptr") and r.get("m", True):
                    p = r["p"]
                    if all(e == "*" for e in p["pr"]):
                        if not p["pr"]:
                            tgt = p["l"]
                        elif p["l"] in ref_of:
                            tgt = ref_of[p["l"]]
                        elif self.is_arg(p["l"]) and self.locals[p["l"]]["ty"].startswith("&mut"):
                            tgt = p["l"]
                elif r["k"] == "use" and r["o"]["k"] in ("move", "copy") and not r["o"]["p"]["pr"] and r["o"]["p"]["l"] in ref_of:
                    tgt = ref_of[r["o"]["p"]["l"]]
                if tgt is not None and self.locals[l]["ty"].startswith(("&mut", "*mut")):
                    ref_of[l] = tgt
                    changed = True
            # a call that takes a tracked `&mut x` and returns a `&mut _` hands out a view of x
            for l, ds in list(self.defs.items()):
                if l in ref_of or len(ds) != 1 or ds[0].kind != "call":
                    continue
                if not self.locals[l]["ty"].startswith("&mut"):
                    continue
                tgt = None
                for a in ds[0].data["args"]:
                    if a["k"] in ("move", "copy") and not a["p"]["pr"] and a["p"]["l"] in ref_of:
                        tgt = ref_of[a["p"]["l"]]
                if tgt is not None:
                    ref_of[l] = tgt
                    changed = True
        self.mutref_of = ref_of
        for i, b in enumerate(self.blocks):
            if b["cleanup"]:
                continue
            t = b["term"]
            if t["k"] != "call":
                continue
            for a in t["args"]:
                if a["k"] in ("move", "copy") and not a["p"]["pr"] and a["p"]["l"] in ref_of:
                    x = ref_of[a["p"]["l"]]
                    self.defs[x].append(Def(i, "term", "mutcall", t))
        # stores through a tracked mutable reference: `(*r) = v` / `(*r).f = v` mutate the referent
        for l, ds in list(self.partial_defs.items()):
            if l in ref_of:
                for d in ds:
                    if d.kind == "assign" and d.data["p"]["pr"] and d.data["p"]["pr"][0] == "*":
                        self.defs[ref_of[l]].append(Def(d.bb, d.idx, "store", d.data))

    def local_name(self, l):
        return self.locals[l].get("name")

    def local_ty(self, l):
        return self.locals[l]["ty"]

    def is_arg(self, l):
        return 1 <= l <= self.arg_count

    @property
    def upvars(self):
        """closure: field index of _1 -> captured variable name"""
        if self._upvars is None:
            m = {}
            for u in self.raw.get("upvars", []):
                p = u["p"]
                if p["l"] == 1:
                    for e in p["pr"]:
                        if isinstance(e, dict) and "f" in e:
                            m[e["f"]] = u["name"]
                            break
            self._upvars = m
        return self._upvars

    # ------------------------------------------------------------- iterate
    def calls(self):
        """yield (bb, terminator) for every call in non-cleanup reachable blocks"""
        for i, b in enumerate(self.blocks):
            if b["cleanup"] or i not in self.reach:
                continue
            t = b["term"]
            if t["k"] == "call":
                yield i, t

    def stmts(self):
        for i, b in enumerate(self.blocks):
            if b["cleanup"] or i not in self.reach:
                continue
            for j, s in enumerate(b["stmts"]):
                yield i, j, s

    def is_panic_block(self, bb):
        t = self.blocks[bb]["term"]
        if t["k"] == "call" and t["t"] is None:
            return True
        return t["k"] in ("unreachable",) and False

    def where(self, bb, idx="term"):
        b = self.blocks[bb]
        s = b["term"]["s"] if idx == "term" else b["stmts"][idx]["s"]
        return f"{s[0]}:{s[1]}:{s[2]}"


def callee_name(t):
    """Canonical name of a call terminator's callee: trait-level path for trait
    methods (`linalg::BaseMatrix::shape`), item path otherwise."""
    f = t.get("f")
    if not f:
        return None
    return f["path"]


def callee_short(t):
    f = t.get("f")
    if not f:
        return None
    return f["name"]


class Program:
    """All bodies of one configuration + item tables."""

    def __init__(self, facts):
        self.facts = facts
        self.bodies = {}
        self.by_name = defaultdict(list)
        self.closures_of = defaultdict(list)
        for raw in facts["bodies"]:
            b = Body(raw, facts)
            key = b.path
            # closures of the same parent share def_path_str prefixes but have unique paths
            if key in self.bodies:
                # disambiguate duplicates (should not happen)
                n = 2
                while f"{key}#{n}" in self.bodies:
                    n += 1
                key = f"{key}#{n}"
            self.bodies[key] = b
            self.by_name[b.name].append(b)
            if b.kind == "Closure":
                self.closures_of[b.parent].append(b)
        self.adts = {a["path"]: a for a in facts["adts"]}
        self.impls = facts["impls"]
        self.traits = {t["path"]: t for t in facts["traits"]}

    def find(self, pattern):
        """bodies whose path matches the regex `pattern` (search)"""
        import re
        rx = re.compile(pattern)
        return [b for k, b in self.bodies.items() if rx.search(k)]

    def one(self, pattern):
        r = self.find(pattern)
        if len(r) != 1:
            raise AnchorError(f"anchor {pattern!r} resolved to {len(r)} bodies: {[b.path for b in r][:6]}")
        return r[0]

    def get(self, path):
        return self.bodies.get(path)


class AnchorError(Exception):
    pass
