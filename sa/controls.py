"""Thorough tier: positive / negative controls on scratch copies of /repo, and extra configurations.

breaking control: a patch that violates the property (hand-written or a confirmed seeded change) -> the check must exit 1
benign control  : a behaviour-preserving refactoring                                           -> the check must stay silent
Scratch copies live under a fresh temp dir outside /repo and /verif and are removed immediately."""
import glob
import json
import os
import shutil
import subprocess
import tempfile

from .facts import VERIF, REPO


def _scratch(patch):
    d = tempfile.mkdtemp(prefix="scv-ctl.")
    repo = os.path.join(d, "repo")
    subprocess.check_call(["rsync", "-a", "--exclude", "target", "--exclude", ".git", REPO + "/", repo + "/"])
    subprocess.check_call(["git", "init", "-q", "."], cwd=repo)
    p = subprocess.run(["git", "apply", "--whitespace=nowarn", patch], cwd=repo, stdout=subprocess.PIPE, stderr=subprocess.STDOUT, text=True)
    if p.returncode != 0:
        shutil.rmtree(d, ignore_errors=True)
        return None, None, p.stdout[-300:]
    return d, repo, ""


def run_patch(pid, patch):
    """returns dict(applied, exit, rules=[...])"""
    d, repo, err = _scratch(patch)
    if d is None:
        return dict(applied=False, exit=None, rules=[], note=err)
    try:
        env = dict(os.environ, SCVERIF_REPO=repo, SCVERIF_OUTDIR=os.path.join(d, "o"), VERIF_TIER="quick")
        p = subprocess.run([os.path.join(VERIF, "check"), pid, "--tier", "quick"], env=env, stdout=subprocess.PIPE, stderr=subprocess.STDOUT, text=True)
        rules = sorted({l.split("rule=")[1].split(" instance=")[0] for l in p.stdout.splitlines() if l.startswith("  rule=")})
        return dict(applied=True, exit=p.returncode, rules=rules)
    finally:
        shutil.rmtree(d, ignore_errors=True)


def catalogue(pid):
    """(breaking, benign): lists of (name, patch path, expected rules or None)"""
    breaking, benign = [], []
    for f in sorted(glob.glob(os.path.join(VERIF, "controls", "breaking", f"{pid}-*.diff"))):
        breaking.append((os.path.basename(f), f, None))
    exp = {}
    ep = os.path.join(VERIF, "seeded", "EXPECT.json")
    if os.path.exists(ep):
        exp = json.load(open(ep))
    for name, e in sorted(exp.items()):
        if e.get("property") == pid and e.get("caught_by"):
            breaking.append(("seeded/" + name, os.path.join(VERIF, "seeded", name, "patch.diff"), e["caught_by"]))
    idx = os.path.join(VERIF, "controls", "benign", "INDEX.json")
    if os.path.exists(idx):
        for name, props in sorted(json.load(open(idx)).items()):
            if pid in props:
                benign.append((name, os.path.join(VERIF, "controls", "benign", name), None))
    return breaking, benign


def run_controls(ck):
    pid = ck.pid
    breaking, benign = catalogue(pid)
    results = []
    for name, patch, want in breaking:
        r = run_patch(pid, patch)
        ok = r["applied"] and r["exit"] == 1 and (not want or any(w in r["rules"] for w in want))
        results.append(dict(control=name, kind="breaking", expected="exit 1" + (f" by one of {want}" if want else ""), **r, ok=ok))
        if r["applied"] and not ok:
            ck.violation("control-missed", name, "controls", "", expected="the check fires on this breaking change",
                         found=f"exit {r['exit']}, rules {r['rules']}")
    for name, patch, _ in benign:
        r = run_patch(pid, patch)
        ok = (not r["applied"]) or r["exit"] == 0
        results.append(dict(control=name, kind="benign", expected="exit 0", **r, ok=ok))
        if r["applied"] and not ok:
            ck.violation("control-false-alarm", name, "controls", "", expected="the check stays silent on this behaviour-preserving refactoring",
                         found=f"exit {r['exit']}, rules {r['rules']}")
    ck.extra["controls"] = results
    ck.extra["controls_summary"] = dict(breaking=len(breaking), benign=len(benign),
                                        not_applicable=[r["control"] for r in results if not r["applied"]])
    return results
