"""Loop progress: in `while counter < bound { .. }` the counter has to advance.  Positively identified offender: the loop's
exit test compares an integer local that is never assigned inside the loop with a bound that the loop body increases
(`let lsiter = 0; while lsiter < max { ..; max += 1 }`): the test can never become false, the loop ends only through a
break - and not at all when the break condition is unreachable (NaN, zero step)."""
from .guards import comparisons, back_edges, ATOMS, NEG, FLIP, INT_TYS
from .isolation import natural_loops
from .prov import Resolver, render


def check(body):
    res = Resolver(body)
    loops = natural_loops(body)
    out = []
    n = 0
    for c in comparisons(body, res):
        # loops whose header region contains this comparison and one of whose edges leaves the loop
        for h, nodes in loops.items():
            if c.bb not in nodes:
                continue
            exits = [(dst, rel) for (dst, rel) in ((c.true_bb, c.rel), (c.false_bb, NEG[c.rel])) if dst not in nodes]
            stays = [(dst, rel) for (dst, rel) in ((c.true_bb, c.rel), (c.false_bb, NEG[c.rel])) if dst in nodes]
            if len(exits) != 1 or len(stays) != 1:
                continue
            if not body.dominates(c.bb, h) and not all(body.dominates(c.bb, u) for (u, hh) in back_edges(body) if hh == h):
                continue
            stay_rel = stays[0][1]
            L, R = c.lhs, c.rhs
            if stay_rel in (">", ">="):
                L, R, stay_rel = R, L, FLIP[stay_rel]
            if stay_rel not in ("<", "<="):
                continue
            # L is the counter (stays while L < R), R the bound
            lc = L[1] if L[0] in ("phi", "local") else None
            if L[0] == "int":
                lc = "const"
            rb = R[1] if R[0] in ("phi", "local") else None
            if lc is None or rb is None:
                continue
            if lc != "const" and body.local_ty(lc) not in INT_TYS:
                continue
            n += 1
            counter_defs = [] if lc == "const" else [d for d in body.defs.get(lc, []) if d.bb in nodes]
            bound_incs = []
            for d in body.defs.get(rb, []):
                if d.bb in nodes and d.kind == "assign":
                    t = res.from_def(d, 1, ())
                    if t[0] == "field" and t[2] == "0":
                        t = t[1]
                    if t[0] == "bin" and t[1] in ("Add", "AddWithOverflow") and any(x[0] == "int" and x[1] > 0 for x in (t[2], t[3])):
                        bound_incs.append(d)
            if not counter_defs and bound_incs:
                nm = "a constant" if lc == "const" else f"`{body.local_name(lc) or '_%d' % lc}`"
                out.append((c.where, f"the loop at {c.where} continues while {nm} {stay_rel} `{body.local_name(rb) or '_%d' % rb}`; "
                            f"{nm} is never assigned inside the loop while the bound is increased at {body.where(bound_incs[0].bb, bound_incs[0].idx)}: "
                            f"the test never becomes false"))
    return n, out


def run_rule(ck, prog, files, rule="E2-progress"):
    tot = 0
    for path, b in sorted(prog.bodies.items()):
        if not b.loc or b.loc[0] not in files:
            continue
        n, problems = check(b)
        if not n:
            continue
        tot += n
        inst = "loop exit tests compare a counter that advances"
        for k, (where, msg) in enumerate(problems):
            ck.violation(rule, inst, b.path, where, ordinal=k, expected="the counter of `while counter < bound` is advanced in the loop (and the bound is not)",
                         found=msg)
        if not problems:
            ck.ok(rule, inst, b.path, f"{b.loc[0]}:{b.loc[1]}", f"{n} counter-vs-bound loop test(s), every counter advances or the bound is fixed")
    return tot
