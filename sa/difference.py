"""Difference-form rule: a translation-invariant quantity (distance, RBF kernel) must depend on its two vector arguments
only through their difference.  The algebraically equal expansion |x|^2 + |y|^2 - 2 x.y is not translation invariant in
floating point: for data with a large common offset it cancels catastrophically (distinct points at distance 0, negative
squared distances, K > 1).  Decided: the shape of the value provenance of the result; not its numerical value."""
from .match import dim_of
from .prov import Resolver, render

DIFF_CALLS = ("::sub", "Sub::sub")
DELEGATES = ("::squared_distance", "::distance", "Distance::distance")
INPLACE_DIFF = ("mut:linalg::BaseVector::sub_mut", "mut:std::ops::SubAssign::sub_assign", "mut:linalg::BaseMatrix::sub_mut")
# scalar/vector arithmetic: a value computed by one of these from ONE of the two vectors alone is what the rule reports
ARITH = ("::dot", "::norm", "::norm2", "::sum", "::mul", "Mul::mul", "::powi", "::powf", "::square", "::mul_mut", "Add::add",
         "::add", "AddAssign::add_assign", "::add_mut", "MulAssign::mul_assign", "::product", "::mul_scalar", "::pow")
ARITH_BIN = ("Mul", "Add", "Div", "MulWithOverflow", "AddWithOverflow")


def arg_leaf(a, b):
    def leaf(t):
        if t[0] == "arg":
            return "a" if t[1] == a else ("b" if t[1] == b else None)
        return None
    return leaf


def tuple_leaf(k):
    """closure parameter k is the (x_i, y_i) pair of a zipped stream"""
    def leaf(t):
        if t[0] == "field" and t[2] in ("0", "1") and t[1][0] == "arg" and t[1][1] == k:
            return "a" if t[2] == "0" else "b"
        return None
    return leaf


def _reach(t, leaf, memo):
    k = id(t)
    if k in memo:
        return memo[k]
    memo[k] = frozenset()
    out = set()
    if isinstance(t, tuple) and t and isinstance(t[0], str):
        if dim_of(t):
            return memo[k]
        w = leaf(t)
        if w:
            out.add(w)
        else:
            for x in t[1:]:
                if isinstance(x, (tuple, list)):
                    out |= _reach(x, leaf, memo)
    elif isinstance(t, (tuple, list)):
        for x in t:
            if isinstance(x, (tuple, list)):
                out |= _reach(x, leaf, memo)
    memo[k] = frozenset(out)
    return memo[k]


def one_sided(t, leaf):
    """(reports, zips): arithmetic nodes outside any difference node whose value depends on exactly one of the two
    vectors; zips = number of zip(x-stream, y-stream) nodes met (their consumers are closures, checked separately)"""
    memo, seen, out = {}, set(), []
    zips = [0]

    def is_diff(n):
        if (n[0] == "call" and n[1].endswith(DIFF_CALLS) and len(n[2]) == 2) or (n[0] == "bin" and n[1] in ("Sub", "SubWithOverflow")):
            x, y = (n[2][0], n[2][1]) if n[0] == "call" else (n[2], n[3])
            r0, r1 = _reach(x, leaf, memo), _reach(y, leaf, memo)
            return (r0 == {"a"} and r1 == {"b"}) or (r0 == {"b"} and r1 == {"a"})
        if n[0] == "call" and n[1].endswith(DELEGATES):
            rs = [_reach(x, leaf, memo) for x in n[2]]
            return any(r == {"a"} for r in rs) and any(r == {"b"} for r in rs)
        if n[0] == "phi":
            for alt in n[2]:
                if alt[0] == "call" and alt[1] in INPLACE_DIFF:
                    return _reach(n, leaf, memo) == {"a", "b"}
        return False

    def walk(n):
        if not isinstance(n, (tuple, list)) or id(n) in seen:
            return
        seen.add(id(n))
        if isinstance(n, tuple) and n and isinstance(n[0], str):
            if dim_of(n) or is_diff(n) or leaf(n):
                return
            if n[0] == "call" and n[1].endswith("::zip") and len(n[2]) == 2:
                r0, r1 = _reach(n[2][0], leaf, memo), _reach(n[2][1], leaf, memo)
                if {frozenset(r0), frozenset(r1)} == {frozenset("a"), frozenset("b")}:
                    zips[0] += 1
            arith = (n[0] == "call" and n[1].replace("mut:", "").endswith(ARITH)) or (n[0] == "bin" and n[1] in ARITH_BIN)
            if arith:
                r = _reach(n, leaf, memo)
                if r == {"a"} or r == {"b"}:
                    out.append(("x" if r == {"a"} else "y", render(n)[:70]))
                    return
            for x in n[1:]:
                if isinstance(x, (tuple, list)):
                    walk(x)
        else:
            for x in n:
                walk(x)
    walk(t)
    return out, zips[0], _reach(t, leaf, memo)


def run_rule(ck, prog, fns, rule="E2f-difference"):
    """fns: [(label, regex, a, b)]"""
    from .mir import AnchorError
    for label, rx, a, b in fns:
        inst = f"{label} depends on its arguments only through their difference"
        try:
            body = prog.one(rx)
        except AnchorError as e:
            ck.violation(rule, inst, rx, "", expected="anchor exists", found=f"anchor vanished: {e}")
            continue
        t = Resolver(body).local(0)
        site = f"{body.loc[0]}:{body.loc[1]}"
        occ, zips, r = one_sided(t, arg_leaf(a, b))
        detail = f"result reaches {sorted(r)}; no arithmetic on one vector alone: {render(t)[:100]}"
        if zips:
            # element pairs are consumed by closures: the pair parameter must be used through its difference as well
            for cb in prog.closures_of.get(body.path, []):
                for kk in range(2, cb.arg_count + 1):
                    if not cb.local_ty(kk).startswith("("):
                        continue
                    cres = Resolver(cb)
                    ct = cres.local(0)
                    if ct[0] == "arg" and not cb.local_ty(ct[1]).startswith("&"):
                        # an accumulator taken by value and updated in place (`|mut sum, (a, b)| { sum += ..; sum }`)
                        muts = [cres.from_def(d, 1, ()) for d in cb.defs.get(ct[1], []) if d.kind in ("mutcall", "store")]
                        if muts:
                            ct = ("phi", ct[1], (ct,) + tuple(muts))
                    o2, _, r2 = one_sided(ct, tuple_leaf(kk))
                    occ += [(w, f"{c} (closure {cb.path.split('::')[-1]})") for w, c in o2]
                    detail += f"; closure {cb.path.split('::')[-1]} pair parameter _{kk}: reaches {sorted(r2)}"
        if occ:
            ck.violation(rule, inst, body.path, site,
                         expected="the two vectors enter arithmetic only as x - y (or through a delegated distance call)",
                         found="; ".join(f"`{c}` is computed from {w} alone" for w, c in occ[:3]))
        else:
            ck.ok(rule, inst, body.path, site, detail)
