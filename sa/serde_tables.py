"""E5: serialisation witnesses (type level) and writer/reader tables (MIR level)."""
import hashlib
import json
import os
import re
import subprocess

from .facts import CACHE, VERIF, REPO
from .match import dim_of
from .prov import Resolver, render, subterms, alts


# ------------------------------------------------------------------ witness crate
def witness_entries():
    out = []
    with open(os.path.join(VERIF, "witness", "types.txt")) as fh:
        for line in fh:
            line = line.strip()
            if not line or line.startswith("#"):
                continue
            for T in (("f32", "f64") if "{T}" in line else ("",)):
                ty = line.replace("DM", "smartcore::linalg::naive::dense_matrix::DenseMatrix<{T}>").replace("{T}", T)
                out.append((line, ty))
    return out


def run_witness(repo=None):
    """build the witness crate against the current tree; returns (entries, failures: {index: message}, log)"""
    repo = repo or os.environ.get("SCVERIF_REPO", REPO)
    entries = witness_entries()
    wdir = os.path.join(CACHE, "witness")
    os.makedirs(os.path.join(wdir, "src"), exist_ok=True)
    with open(os.path.join(wdir, "Cargo.toml"), "w") as fh:
        fh.write(f'''[package]
name = "scverif-witness"
version = "0.1.0"
edition = "2018"

[workspace]

[dependencies]
smartcore = {{ path = "{repo}", features = ["serde", "ndarray-bindings", "nalgebra-bindings"] }}
serde = "1"
''')
    lock = os.path.join(repo, "Cargo.lock")
    if os.path.exists(lock):
        # harness crates path-depending on the repo reuse its lock file (offline resolution)
        with open(lock) as fh:
            txt = fh.read()
        with open(os.path.join(wdir, "Cargo.lock"), "w") as fh:
            fh.write(txt)
    lines = ["#![allow(dead_code)]", "fn assert_serde<X: serde::Serialize + serde::de::DeserializeOwned>() {}"]
    first = len(lines) + 1
    for i, (_, ty) in enumerate(entries):
        lines.append(f"const _W{i}: fn() = || assert_serde::<{ty}>();")
    with open(os.path.join(wdir, "src", "lib.rs"), "w") as fh:
        fh.write("\n".join(lines) + "\n")
    env = dict(os.environ, CARGO_NET_OFFLINE="true", CARGO_TARGET_DIR=os.path.join(CACHE, "target-witness"),
               CARGO_INCREMENTAL="0")   # incremental sessions of every analysed tree piled up to tens of GB
    env.pop("RUSTC_WORKSPACE_WRAPPER", None)
    p = subprocess.run(["cargo", "check", "--offline", "--message-format=json", "--lib"], cwd=wdir, env=env,
                       stdout=subprocess.PIPE, stderr=subprocess.PIPE, text=True)
    failures = {}
    other = []
    for l in p.stdout.splitlines():
        try:
            m = json.loads(l)
        except ValueError:
            continue
        if m.get("reason") != "compiler-message":
            continue
        msg = m["message"]
        if msg.get("level") != "error":
            continue
        hit = False
        for sp in msg.get("spans", []):
            if sp.get("file_name", "").endswith("src/lib.rs") and "scverif-witness" in m.get("package_id", "") or sp.get("file_name") == "src/lib.rs":
                idx = sp["line_start"] - first
                if 0 <= idx < len(entries):
                    failures.setdefault(idx, msg.get("message", "")[:300])
                    hit = True
        if not hit:
            other.append(msg.get("message", "")[:300])
    ok = p.returncode == 0
    return entries, failures, other, ok, p.stderr[-1500:]


# ------------------------------------------------------------------ writer tables of every Serialize impl
def writer_table(body):
    """ordered (field name, value term) written by a `Serialize::serialize` body, and the declared length"""
    res = Resolver(body)
    calls = []
    decl = None
    kind = None
    for bb, t in body.calls():
        f = t.get("f")
        if not f:
            continue
        p = f["path"]
        if p.endswith(("SerializeStruct::serialize_field", "SerializeStructVariant::serialize_field", "SerializeStruct::skip_field")):
            nm = res.operand(t["args"][1])
            calls.append((bb, nm[1].strip('"') if nm[0] == "const" else render(nm), res.operand(t["args"][2]) if len(t["args"]) > 2 else None,
                          p.endswith("skip_field")))
        elif p.endswith(("Serializer::serialize_struct", "Serializer::serialize_struct_variant")):
            a = res.operand(t["args"][-1])
            decl = a[1] if a[0] == "int" else None
            kind = "struct"
        elif p.endswith(("Serializer::serialize_unit_struct", "Serializer::serialize_unit_variant", "Serializer::serialize_newtype_struct",
                         "Serializer::serialize_newtype_variant", "Serializer::serialize_tuple_struct")):
            kind = kind or p.split("::")[-1]
    # program order = dominance order
    calls.sort(key=lambda c: len(body.dom.get(c[0], ())))
    return kind, decl, calls
