"""Backward strided scan: the exit test that protects `j - step` lets j == step through.

Shape (insertion scans of Shell / insertion sorts, backward walks): inside a loop, `j` is decreased by `step`
(`j -= step`), compared with `step`, and one edge of that comparison leaves the loop while the other returns to a
computation of `j - step` (the position examined next) with neither local redefined in between.  `j - step` is a valid
position exactly when j >= step, so the continuing edge must carry both j > step and j == step: with `j <= step -> exit`
position 0 is never examined (an element can never be moved to the front); with `j < step` continuing, the subtraction
underflows.  check(body) -> [(where, atoms, text)] for every such comparison."""
from .guards import comparisons, ATOMS, NEG, FLIP
from .prov import Resolver, render

SUBS = ("Sub", "SubWithOverflow", "SubUnchecked")


def _root(body, l):
    """see through unnamed temporaries `_t = copy x`"""
    seen = set()
    while l not in seen and body.local_name(l) is None:
        seen.add(l)
        ds = body.defs.get(l, [])
        if len(ds) == 1 and ds[0].kind == "assign" and ds[0].data["r"]["k"] == "use" and ds[0].data["r"]["o"]["k"] in ("copy", "move") \
                and not ds[0].data["r"]["o"]["p"]["pr"]:
            l = ds[0].data["r"]["o"]["p"]["l"]
        else:
            break
    return l


def _is_sub(body, r, j, step):
    return r["k"] == "bin" and r["op"] in SUBS and all(o["k"] in ("copy", "move") and not o["p"]["pr"] for o in (r["a"], r["b"])) \
        and _root(body, r["a"]["p"]["l"]) == j and _root(body, r["b"]["p"]["l"]) == step


def _cmp_locals(body, bb):
    """locals (a, b) of the `a REL b` statement that feeds the switch of block bb, when both operands are plain locals"""
    t = body.blocks[bb]["term"]
    if t["k"] != "switch" or t["o"]["k"] not in ("copy", "move") or t["o"]["p"]["pr"]:
        return None
    l = t["o"]["p"]["l"]
    for s in reversed(body.blocks[bb]["stmts"]):
        if s["k"] == "assign" and not s["p"]["pr"] and s["p"]["l"] == l and s["r"]["k"] == "bin":
            a, b = s["r"]["a"], s["r"]["b"]
            if all(o["k"] in ("copy", "move") and not o["p"]["pr"] for o in (a, b)):
                return _root(body, a["p"]["l"]), _root(body, b["p"]["l"]), s["r"]["op"]
    return None


def _scan_block(body, bb, j, step):
    """walk the statements of bb: 'sub' if `j - step` is computed before either is redefined, 'cut' if one is
    redefined first, None otherwise"""
    blk = body.blocks[bb]
    for s in blk["stmts"]:
        if s["k"] != "assign":
            continue
        r = s["r"]
        if _is_sub(body, r, j, step):
            return "sub"
        if not s["p"]["pr"] and s["p"]["l"] in (j, step):
            return "cut"
    t = blk["term"]
    if t["k"] == "call" and not t["d"]["pr"] and t["d"]["l"] in (j, step):
        return "cut"
    return None


def _reaches_sub(body, start, j, step):
    seen, work = set(), [start]
    while work:
        x = work.pop()
        if x in seen or body.blocks[x]["cleanup"]:
            continue
        seen.add(x)
        r = _scan_block(body, x, j, step)
        if r == "sub":
            return True
        if r == "cut":
            continue
        work.extend(body.succs[x])
    return False


def check(body):
    out = []
    ty = body.local_ty
    for c in comparisons(body):
        ls = _cmp_locals(body, c.bb)
        if not ls:
            continue
        a, b, op = ls
        if ty(a) != "usize" or ty(b) != "usize":
            continue
        for (j, step, rel) in ((a, b, c.rel), (b, a, FLIP[c.rel])):
            # j must be updated by `j = j - step` somewhere (strided backward walk)
            dec = False
            for d in body.defs.get(j, []):
                if d.kind != "assign":
                    continue
                r = d.data["r"]
                if _is_sub(body, r, j, step):
                    dec = True
                elif r["k"] == "use" and r["o"]["k"] in ("copy", "move") and len(r["o"]["p"]["pr"]) == 1:
                    for d2 in body.defs.get(r["o"]["p"]["l"], []):
                        if d2.kind == "assign" and _is_sub(body, d2.data["r"], j, step):
                            dec = True
            if not dec:
                continue
            atoms = set()
            for edge_rel, dst in ((rel, c.true_bb), (NEG[rel], c.false_bb)):
                if _reaches_sub(body, dst, j, step):
                    atoms |= ATOMS[edge_rel]
            if atoms:
                nm = lambda l: body.local_name(l) or f"_{l}"
                out.append((c.where, frozenset(atoms), f"{nm(j)} vs {nm(step)}"))
    return out


def run_rule(ck, prog, files, rule="E1-gate", inst="a backward strided scan continues exactly while j >= step"):
    n = 0
    for b in prog.bodies.values():
        if b.loc[0] not in files or "::tests::" in b.path:
            continue
        for where, atoms, text in check(b):
            n += 1
            if "n" in atoms:
                ck.violation(rule, inst, b.path, where, expected="j < step leaves the scan (j - step would underflow)",
                             found=f"{text}: the scan continues with j < step")
            elif "z" not in atoms or "p" not in atoms:
                ck.violation(rule, inst, b.path, where, expected="j == step continues: position j - step = 0 is examined",
                             found=f"{text}: the scan continues only for sign(j - step) in {sorted(atoms)}; position 0 is never examined, "
                                   "so an element that belongs at the front cannot be moved there")
            else:
                ck.ok(rule, inst, b.path, where, f"{text}: continues for j >= step")
    if n == 0:
        ck.note(f"{inst}: no backward strided scan in scope: no instance")
