"""Clamp consistency (contradiction rule): the value that is tested against a bound is the value that is set to the bound.

Shape: `if P REL B { Q = B; .. }` with REL a strict ordering, B a loop-invariant bound term (zero, a field such as self.c)
and P, Q element places of the same structure (same field path, indices may differ).  The branch states the belief "P has
left the box on the B side" and repairs it by storing B - into P.  If B is stored into some sibling place Q != P and P
itself is not written in the branch, the test and the repair disagree: either the clip never fires for the variable that
needs it or it fires for the wrong one.  check(body) -> [(where, tested, clipped)]."""
from .guards import comparisons, NEG, FLIP
from .prov import Resolver, render


def _shape(t):
    """structure of an element place with indices erased"""
    if t[0] == "idx":
        return ("idx", _shape(t[1]))
    if t[0] == "field":
        return ("field", _shape(t[1]), t[2])
    if t[0] == "call" and t[1].split("::")[-1] in ("index", "index_mut", "get", "get_mut", "deref", "deref_mut"):
        return ("idx", _shape(t[2][0])) if len(t[2]) >= 2 else _shape(t[2][0])
    return ("base",)


def _norm(t):
    """index / index_mut / deref views of a container are the same place"""
    if t[0] == "idx":
        return ("idx", _norm(t[1]), t[2])
    if t[0] == "field":
        return ("field", _norm(t[1]), t[2])
    if t[0] == "call" and t[1].split("::")[-1] in ("index", "index_mut") and len(t[2]) == 2:
        return ("idx", _norm(t[2][0]), t[2][1])
    if t[0] == "call" and t[1].split("::")[-1] in ("deref", "deref_mut") and len(t[2]) == 1:
        return _norm(t[2][0])
    return t


def check(body):
    res = Resolver(body)
    out, seen = [], 0
    for c in comparisons(body, res):
        for (L, R, rel) in ((c.lhs, c.rhs, c.rel), (c.rhs, c.lhs, FLIP[c.rel])):
            if rel not in ("<", ">") or L[0] not in ("idx", "field"):
                continue
            if _shape(_norm(R)) == _shape(_norm(L)):
                continue                                       # element against sibling element (insertion shifts, swaps): not a clamp
            for edge_rel, dst, other in ((rel, c.true_bb, c.false_bb), (NEG[rel], c.false_bb, c.true_bb)):
                if edge_rel not in ("<", ">"):
                    continue
                region = [x for x in body.reach if body.dominates(dst, x) and not body.dominates(other, x)]
                targets = []
                for x in region:
                    for s in body.blocks[x]["stmts"]:
                        if s["k"] != "assign" or not s["p"]["pr"]:
                            continue
                        if res.rvalue(s["r"], 0, ()) != R:
                            continue
                        targets.append((x, _norm(res.place(s["p"]))))
                if not targets:
                    continue
                seen += 1
                nl = _norm(L)
                if any(t == nl for _, t in targets):
                    continue
                sib = [(x, t) for x, t in targets if _shape(t) == _shape(nl)]
                if sib:
                    out.append((c.where, render(L)[:70], render(sib[0][1])[:70], render(R)[:30]))
    return out, seen


def run_rule(ck, prog, files, rule="E2-pairing", inst="the value tested against a bound is the value set to the bound"):
    n = 0
    for b in prog.bodies.values():
        if b.loc[0] not in files or "::tests::" in b.path:
            continue
        bad, seen = check(b)
        n += seen
        for where, tested, clipped, bound in bad:
            ck.violation(rule, inst, b.path, where, expected=f"`if P > B {{ P = B }}`: the clipped place is the tested one",
                         found=f"tests `{tested}` against `{bound}` but stores the bound into `{clipped}` (and not into the tested place)")
    if n:
        ck.ok(rule, inst, "", "", f"{n} clamp branch(es) inspected in {len(files)} file(s): the tested place is among the places set to the bound")
    else:
        ck.note(f"{inst}: no clamp branch in scope: no instance")
