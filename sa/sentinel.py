"""E2i: sentinel arithmetic.  An integer extreme (i64::MIN, usize::MAX, ...) returned as a
sentinel flows (through a call argument) into overflow-checked arithmetic that is not
protected by a dominating equality test against the sentinel."""
from .e1 import BodyCtx
from .guards import ATOMS, NEG, FLIP
from .prov import Resolver, render, subterms, alts

EXTREMES = {"std::i64::MIN", "std::i64::MAX", "core::i64::MIN", "core::i64::MAX", "i64::MIN", "i64::MAX", "std::usize::MAX",
            "usize::MAX", "std::i32::MIN", "std::i32::MAX", "i32::MIN", "i32::MAX", "std::isize::MIN", "std::isize::MAX"}
EXT_VALUES = {-2 ** 63, 2 ** 63 - 1, 2 ** 64 - 1, -2 ** 31, 2 ** 31 - 1}


def is_extreme(t):
    if t[0] == "const" and (t[1] in EXTREMES or t[1].replace("const ", "") in EXTREMES):
        return True
    if t[0] == "int" and t[1] in EXT_VALUES:
        return True
    return False


def sentinel_functions(bodies):
    """functions with an integer return type that return an extreme constant on some path"""
    out = {}
    for b in bodies:
        r = Resolver(b)
        for a in alts(r.local(0)):
            if is_extreme(a):
                out[b.path] = render(a)
    return out


def analyse(prog, scope_regex):
    """returns (instances, findings). instance: dict(fn, param, where, protected)"""
    bodies = prog.find(scope_regex)
    sent = sentinel_functions(bodies)
    # parameters that may receive a sentinel
    may = {}  # (fn path, arg index) -> origin
    for b in bodies:
        r = Resolver(b)
        for bb, t in b.calls():
            f = t.get("f")
            if not f:
                continue
            cal = None
            for key in (f.get("resolved"), f.get("path")):
                if key and key in prog.bodies:
                    cal = prog.bodies[key]
            if cal is None:
                continue
            for j, a in enumerate(t["args"]):
                term = r.operand(a)
                src = [s for s in subterms(term) if s[0] == "call" and s[1] in sent]
                if (src or any(is_extreme(s) for s in alts(term))) and not _protected_at(b, bb, term):
                    may[(cal.path, j + 1)] = f"{b.path} passes `{render(term)[:60]}` at {b.where(bb)}"
    inst = []
    for (fn, j), origin in sorted(may.items()):
        b = prog.bodies[fn]
        cx = BodyCtx.of(b)
        for i, blk in enumerate(b.blocks):
            t = blk["term"]
            if blk["cleanup"] or i not in b.reach or t["k"] != "assert" or not t["msg"].startswith("Overflow"):
                continue
            ops = [cx.res.operand(o) for o in t["mops"]]
            if not any(o[0] == "arg" and o[1] == j for o in ops):
                continue
            # only *definite* overflows: sentinel (op) non-zero constant in the overflowing direction,
            # e.g. i64::MIN - 1, MAX + 1.  sentinel - other_variable is not decided.
            others = [o for o in ops if not (o[0] == "arg" and o[1] == j)]
            if len(ops) != 2 or len(others) != 1 or others[0][0] != "int" or others[0][1] == 0:
                continue
            c = others[0][1]
            first_is_param = ops[0][0] == "arg" and ops[0][1] == j
            kind = t["msg"]
            svals = [v for v in sent.values()]
            is_min = any(v.lstrip("const ").startswith("-") or "MIN" in v for v in svals)
            is_max = any("MAX" in v or (v.lstrip("const ").isdigit() and int(v.lstrip("const ")) > 0) for v in svals)
            definite = (kind == "Overflow(Sub)" and first_is_param and ((is_min and c > 0) or (is_max and c < 0))) or \
                       (kind == "Overflow(Add)" and ((is_max and c > 0) or (is_min and c < 0)))
            if not definite:
                continue
            # protected: dominated by the edge of an equality test `arg j != extreme`
            prot = False
            for c in cx.cmps:
                for (L, R, rel) in ((c.lhs, c.rhs, c.rel), (c.rhs, c.lhs, FLIP[c.rel])):
                    if L[0] == "arg" and L[1] == j and is_extreme(R):
                        for er, dst, other in ((rel, c.true_bb, c.false_bb), (NEG[rel], c.false_bb, c.true_bb)):
                            if "z" not in ATOMS[er] and b.dominates(dst, i) and not b.dominates(other, i):
                                prot = True
            inst.append(dict(fn=fn, param=j, name=b.local_name(j) or f"_{j}", where=b.where(i), op=t["msg"], protected=prot, origin=origin,
                             sentinel=", ".join(f"{k.split('::')[-1]} -> {v}" for k, v in sent.items())))
    return sent, may, inst


def _protected_at(b, bb, term):
    """the call at bb is dominated by the edge of an equality test showing `term` is not an extreme"""
    cx = BodyCtx.of(b)
    for c in cx.cmps:
        for (L, R, rel) in ((c.lhs, c.rhs, c.rel), (c.rhs, c.lhs, FLIP[c.rel])):
            if L == term and is_extreme(R):
                for er, dst, other in ((rel, c.true_bb, c.false_bb), (NEG[rel], c.false_bb, c.true_bb)):
                    if "z" not in ATOMS[er] and b.dominates(dst, bb) and not b.dominates(other, bb):
                        return True
    return False
