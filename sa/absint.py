"""E3: abstract interpretation of closed-form two-argument functions (distances, kernels).

Flow-insensitive abstract interpretation over the MIR definitions of one body
(def-use webs), iterated to a fixpoint, with control-dependence taint, in the
product domain

  parity under the swap X<->Y :  Z0 (constant zero) <= {S (symmetric), A (antisymmetric)} <= T
                                 plus the leaf classes X(k), Y(k) (element k of X / Y) and the
                                 vector classes XV, YV, SV, AV
  diag-zero  (value when X == Y): Z (exactly zero) <= T
  sign                           : NN (non-negative or NaN) <= T

A value proven S is bit-for-bit invariant under exchanging the two arguments
(IEEE negation, abs, products and commutative +,* are exactly sign-symmetric; sums
are taken in the same order because loop ranges are S).  Unknown callees yield T.
"""
from .prov import Resolver, render

B = "B"  # bottom


def join_par(a, b):
    if a == B:
        return b
    if b == B:
        return a
    if a == b:
        return a
    if a == "Z0":
        return b if b in ("S", "A", "SV", "AV") else "T"
    if b == "Z0":
        return join_par(b, a)
    return "T"


def join(a, b):
    return (join_par(a[0], b[0]),
            a[1] if b[1] == B else b[1] if a[1] == B else ("Z" if a[1] == b[1] == "Z" else "T"),
            a[2] if b[2] == B else b[2] if a[2] == B else ("NN" if a[2] == b[2] == "NN" else "T"))


BOT = (B, B, B)
TOP = ("T", "T", "T")
SYM = ("S", "T", "T")
ZERO = ("Z0", "Z", "NN")


def is_sym(p):
    return p in ("S", "Z0")


class AbsInt:
    def __init__(self, body, prog, roles, cache=None, depth=0, init=None):
        """roles: {arg local index: 'XV'|'YV'|'S'|('X',k)|...} abstract parity of each argument"""
        self.b = body
        self.prog = prog
        self.roles = roles
        self.res = Resolver(body)
        self.val = {}
        self.cache = cache if cache is not None else {}
        self.depth = depth
        self.unknown = []   # callees that produced T (diagnosis)
        self._ctrl = None
        self.init = init or {}
        self._run()

    # ------------------------------------------------------------ fixpoint
    def _run(self):
        b = self.b
        for l in range(len(b.locals)):
            self.val[l] = BOT
        for l in range(1, b.arg_count + 1):
            r = self.roles.get(l, "S")
            self.val[l] = self.init[l] if l in self.init else ((r, "T", "T") if r != "Z0" else ZERO)
        changed = True
        rounds = 0
        while changed and rounds < 60:
            changed = False
            rounds += 1
            for l, defs in b.defs.items():
                if b.is_arg(l) and not any(d.kind in ("mutcall", "store") for d in defs):
                    continue
                v = self.val[l] if b.is_arg(l) else BOT
                for d in defs:
                    if d.bb not in b.reach:
                        continue
                    dv = self._def(d, l)
                    if dv == BOT:
                        continue
                    dv = self._taint(dv, d.bb)
                    if dv is None:
                        continue
                    v = join(v, dv)
                old = self.val[l]
                nv = join(old, v)
                if nv != old:
                    self.val[l] = nv
                    changed = True
        self.rounds = rounds

    # ------------------------------------------------------ control dependence
    def _controls(self, bb):
        """switch edges (n, succ) on which block bb is control dependent"""
        if self._ctrl is None:
            self._ctrl = {}
            b = self.b
            pd = b.pdom
            sw = [i for i in b.reach if b.blocks[i]["term"]["k"] == "switch"]
            for x in b.reach:
                cs = []
                for n in sw:
                    if n == x:
                        pass
                    if x in pd.get(n, ()) and x != n:
                        continue  # x post-dominates n: not controlled by n
                    for s in b.succs[n]:
                        if s == x or x in pd.get(s, ()):
                            cs.append((n, s))
                self._ctrl[x] = cs
        return self._ctrl.get(bb, [])

    def _taint(self, dv, bb):
        """a definition executed under a non-symmetric branch condition is not symmetric;
        a definition only executed when X(k) != Y(k) is infeasible on the diagonal"""
        par, dz, sg = dv
        for (n, s) in self._controls(bb):
            t = self.b.blocks[n]["term"]
            cv, never_on_diag_edge = self._cond(t, s)
            if not is_sym(cv) and cv != B:
                par = "T"
            if never_on_diag_edge:
                dz = B  # contributes nothing to the diagonal value
        if dz == B and par == B:
            return None
        return (par, dz, sg)

    def _cond(self, t, succ):
        """(parity of the switch condition, is `succ` an edge that is never taken when X == Y)"""
        o = t["o"]
        term = self.res.operand(o)
        neg = False
        while term[0] == "un" and term[1] == "Not":
            term = term[2]
            neg = not neg
        pv = self.operand(o)[0]
        never = False
        from .guards import _cond as gc, ATOMS, NEG
        c = gc(None, term)
        # abstract view of the compared operands (works inside closures, where elements arrive as zip items)
        if o["k"] in ("copy", "move") and not o["p"]["pr"]:
            ds = self.b.defs.get(o["p"]["l"], [])
            if len(ds) == 1:
                d = ds[0]
                opn, ops = None, None
                if d.kind == "call" and d.data.get("f") and d.data["f"]["path"] in self.CMPS and len(d.data["args"]) == 2:
                    opn, ops = self.CMPS[d.data["f"]["path"]], d.data["args"]
                elif d.kind == "assign" and d.data["r"]["k"] == "bin" and d.data["r"]["op"] in ("Eq", "Ne", "Lt", "Le", "Gt", "Ge"):
                    opn, ops = d.data["r"]["op"], [d.data["r"]["a"], d.data["r"]["b"]]
                if opn:
                    pa, pb = self.operand(ops[0])[0], self.operand(ops[1])[0]
                    if isinstance(pa, tuple) and isinstance(pb, tuple) and len(pa) == 2 and len(pb) == 2 and pa[1] == pb[1] \
                            and {pa[0], pb[0]} == {"X", "Y"}:
                        rel = {"Eq": "==", "Ne": "!=", "Lt": "<", "Le": "<=", "Gt": ">", "Ge": ">="}[opn]
                        if neg:
                            rel = NEG[rel]
                        r_here = rel if succ == t["otherwise"] else NEG[rel]
                        return ("S" if opn in ("Eq", "Ne") else "T"), ("z" not in ATOMS[r_here])
        if c and o["k"] in ("copy", "move"):
            rel = c[1] if not neg else NEG[c[1]]
            # which relation does `succ` assert?
            true_bb = t["otherwise"]
            r_here = rel if succ == true_bb else NEG[rel]
            la, ra = self._term_par(c[0]), self._term_par(c[2])
            if isinstance(la, tuple) and isinstance(ra, tuple) and la[1] == ra[1] and {la[0], ra[0]} == {"X", "Y"}:
                # comparison of x[k] with y[k]
                pv = "S" if c[1] in ("==", "!=") else "T"
                if "z" not in ATOMS[r_here]:
                    never = True
        return pv, never

    def _term_par(self, term):
        """parity class of a provenance term that is an element read x[k] / y[k]"""
        if term[0] == "idx":
            base = term[1]
            while base[0] == "phi":
                base = base[2][0]
            if base[0] == "arg":
                r = self.roles.get(base[1])
                if r == "XV":
                    return ("X", term[2])
                if r == "YV":
                    return ("Y", term[2])
        return None

    # ---------------------------------------------------------------- values
    def place(self, p):
        v = self.val.get(p["l"], BOT)
        after_dc = False
        for e in p["pr"]:
            if e == "*":
                continue
            if isinstance(e, dict) and "i" in e:
                kt = self.res.local(e["i"])
                v = self._elem(v, self.val.get(e["i"], BOT), kt)
                after_dc = False
            elif isinstance(e, dict) and "dc" in e:
                after_dc = True
            elif isinstance(e, dict) and "f" in e:
                if after_dc and e["f"] == 0:
                    after_dc = False   # payload of Some(..)/Continue(..): the wrapped value itself
                    continue
                v = self._field(v, e["f"])
                after_dc = False
            elif isinstance(e, dict) and "ci" in e:
                v = self._field(v, e["ci"])
        return v

    def _field(self, v, idx=None):
        par = v[0]
        if isinstance(par, tuple) and par[0] == "PAIR":
            # item of zip(X-elements, Y-elements): component 0 / 1 are the elements at the same position
            order, k = par[1], par[2]
            if idx in (0, 1):
                return ((order[idx], k), "T", "T")
            return TOP
        if isinstance(par, tuple) and par[0] == "EITEM":
            # item of enumerate(it): (index, inner item)
            if idx == 0:
                return ("S", "T", "NN")
            if idx == 1:
                return (par[1], v[1], v[2])
            return TOP
        if isinstance(par, tuple) and par[0] == "ENV":
            if idx is not None and idx < len(par[1]):
                return par[1][idx]
            return TOP
        if par in ("XV", "YV", "SV", "AV") or isinstance(par, tuple):
            return ("T", "T", "T")
        return v

    def _elem(self, cv, iv, kterm):
        par = cv[0]
        if not is_sym(iv[0]) and iv[0] != B:
            return TOP
        if par == "XV":
            return (("X", kterm), "T", "T")
        if par == "YV":
            return (("Y", kterm), "T", "T")
        if par == "SV":
            return ("S", cv[1], cv[2])
        if par == "AV":
            return ("A", cv[1], "T")
        if par == "Z0":
            return ("Z0", cv[1], cv[2])
        if par in ("S", B):
            return (par, cv[1], cv[2])
        return TOP

    def operand(self, o):
        k = o["k"]
        if k in ("copy", "move"):
            return self.place(o["p"])
        if k == "const":
            if "fn" in o:
                return SYM
            if "int" in o:
                n = int(o["int"])
                return ZERO if n == 0 else ("S", "T", "NN" if n >= 0 else "T")
            v = o["v"]
            if v.replace("const ", "").startswith(("0f", "0.0", "-0")):
                return ZERO
            return ("S", "T", "T" if v.lstrip("const ").startswith("-") else "NN")
        return TOP

    def _def(self, d, target):
        if d.kind == "assign":
            return self._rvalue(d.data["r"])
        if d.kind == "store":
            # store through a reference into `target`: the container now holds the stored value
            v = self._rvalue(d.data["r"])
            return self._as_container(v)
        if d.kind == "call":
            return self._call(d.data, False, target)
        if d.kind == "mutcall":
            return self._call(d.data, True, target)
        return TOP

    def _as_container(self, v):
        par = v[0]
        if par == "A":
            return ("AV", v[1], "T")
        if is_sym(par):
            return ("SV" if par == "S" else "Z0", v[1], v[2])
        if par == B:
            return BOT
        return TOP

    def _rvalue(self, r):
        k = r["k"]
        if k == "use":
            return self.operand(r["o"])
        if k in ("ref", "copyderef", "rawptr"):
            return self.place(r["p"])
        if k == "discr":
            v = self.place(r["p"])
            # whether an iterator over X / Y / zip(X,Y) yields another item depends on the (equal) lengths only
            return (v[0] if v[0] in ("S", "Z0", B) else ("S" if (v[0] in ("SV", "AV", "XV", "YV") or isinstance(v[0], tuple)) else "T"), "T", "T")
        if k == "cast":
            v = self.operand(r["o"])
            return v
        if k == "un":
            v = self.operand(r["a"])
            if r["op"] == "Neg":
                return (v[0] if v[0] in ("S", "A", "Z0", B) else "T", v[1], "T")
            if r["op"] == "PtrMetadata":
                return ("S", "T", "NN")
            return (v[0] if is_sym(v[0]) or v[0] == B else "T", "T", "T")
        if k == "bin":
            return self._arith(r["op"].replace("WithOverflow", "").replace("Unchecked", ""), self.operand(r["a"]), self.operand(r["b"]),
                               r["a"], r["b"])
        if k == "agg":
            v = BOT
            for o in r["ops"]:
                v = join(v, self.operand(o))
            if r["ak"] == "closure":
                return SYM if all(is_sym(self.operand(o)[0]) for o in r["ops"]) else TOP
            return v if v != BOT else SYM
        if k == "repeat":
            return self._as_container(self.operand(r["o"]))
        return TOP

    # ------------------------------------------------------------- arithmetic
    def _arith(self, op, a, b, oa=None, ob=None):
        pa, pb = a[0], b[0]
        if pa == B or pb == B:
            return BOT
        same = oa is not None and ob is not None and self._same_value(oa, ob)
        par, dz, sg = "T", "T", "T"
        xy = (isinstance(pa, tuple) and isinstance(pb, tuple) and pa[1] == pb[1] and {pa[0], pb[0]} == {"X", "Y"})
        if op in ("Sub",):
            if xy:
                par, dz = "A", "Z"
            elif pa == "Z0":
                par = pb if pb in ("S", "A", "Z0") else "T"
            elif pb == "Z0":
                par = pa if pa in ("S", "A") else "T"
            elif pa == pb and pa in ("S", "A"):
                par = pa
            if a[1] == "Z" and b[1] == "Z":
                dz = "Z"
            if same:
                dz = "Z"
        elif op in ("Add",):
            if xy:
                par = "S"
            elif pa == "Z0":
                par = pb if pb in ("S", "A", "Z0") else "T"
            elif pb == "Z0":
                par = pa if pa in ("S", "A") else "T"
            elif pa == pb and pa in ("S", "A"):
                par = pa
            if a[1] == "Z" and b[1] == "Z":
                dz = "Z"
            if a[2] == "NN" and b[2] == "NN":
                sg = "NN"
        elif op in ("Mul",):
            if xy:
                par = "S"
            elif "Z0" in (pa, pb):
                par = "Z0"
            elif pa in ("S", "A") and pb in ("S", "A"):
                par = "S" if pa == pb else "A"
            if a[1] == "Z" or b[1] == "Z":
                dz = "Z"
            if (a[2] == "NN" and b[2] == "NN") or same:
                sg = "NN"
        elif op in ("Div", "Rem"):
            if pa == "Z0" and pb in ("S", "A"):
                par = "Z0"
            elif pa in ("S", "A") and pb in ("S", "A"):
                par = "S" if pa == pb else "A"
            elif pa in ("S", "A") and pb == "Z0":
                par = pa
            if a[1] == "Z":
                dz = "Z"
            if a[2] == "NN" and b[2] == "NN":
                sg = "NN"
        elif op in ("Eq", "Ne"):
            if xy or (is_sym(pa) and is_sym(pb)):
                par = "S"
            if op == "Ne" and (xy or same):
                dz = "Z"                      # x_i != y_i is false (0) on the diagonal
        elif op in ("Lt", "Le", "Gt", "Ge", "BitAnd", "BitOr", "BitXor", "Shl", "Shr", "Offset", "Cmp"):
            if is_sym(pa) and is_sym(pb):
                par = "S"
        return (par, dz, sg)

    def _same_value(self, oa, ob):
        try:
            return self.res.operand(oa) == self.res.operand(ob)
        except Exception:
            return False

    # ------------------------------------------------------------------ calls
    ARITH = {"std::ops::Sub::sub": "Sub", "std::ops::Add::add": "Add", "std::ops::Mul::mul": "Mul", "std::ops::Div::div": "Div",
             "std::ops::Rem::rem": "Rem"}
    ASSIGN = {"std::ops::AddAssign::add_assign": "Add", "std::ops::SubAssign::sub_assign": "Sub",
              "std::ops::MulAssign::mul_assign": "Mul", "std::ops::DivAssign::div_assign": "Div"}
    CMPS = {"std::cmp::PartialEq::eq": "Eq", "std::cmp::PartialEq::ne": "Ne", "std::cmp::PartialOrd::lt": "Lt",
            "std::cmp::PartialOrd::le": "Le", "std::cmp::PartialOrd::gt": "Gt", "std::cmp::PartialOrd::ge": "Ge"}
    # unary maps that preserve symmetry; second item: sends Anti to Sym (even function); third: result non-negative
    UNARY = {"::abs": (True, True), "::sqrt": (False, True), "::exp": (False, True), "::ln": (False, False),
             "::tanh": (False, False), "::floor": (False, False), "::ceil": (False, False), "::square": (True, True),
             "::ln_1p": (False, False), "::sigmoid": (False, False), "::cos": (True, False), "::cosh": (True, True)}

    def _call(self, t, is_mut, target):
        f = t.get("f")
        args = t["args"]
        av = [self.operand(a) for a in args]
        if any(v == BOT for v in av) and not is_mut:
            # wait for arguments (bottom propagates), except for nullary calls
            if args:
                return BOT
        if not f:
            return self._unknown(t, av)
        p = f["path"]
        if is_mut and p.endswith(("IndexMut::index_mut", "::deref_mut", "::iter_mut", "::as_mut_slice", "::as_mut", "Index::index",
                                  "::deref", "::len", "::iter", "::get", "::as_slice", "::is_empty", "::shape")):
            return BOT  # hands out a view / reads only: mutation, if any, is recorded by the store through the view
        if p.endswith(("::from_elem", "vec::from_elem")) and av:
            return self._as_container(av[0])
        # ---- constants
        if not args:
            nm = p.split("::")[-1]
            if nm == "zero":
                return ZERO
            if nm in ("one", "two", "half", "epsilon", "max_value", "infinity", "min_positive_value", "new", "default"):
                return ("S", "T", "NN")
            return SYM
        it = self._iter_op(p, av, args, t, is_mut)
        if it is not None:
            return it
        if p in self.ARITH and len(av) == 2:
            return self._arith(self.ARITH[p], av[0], av[1], args[0], args[1])
        if p in self.ASSIGN and len(av) == 2:
            if not is_mut:
                return SYM  # returns ()
            return self._arith(self.ASSIGN[p], av[0], av[1], args[0], args[1])
        if p in self.CMPS and len(av) == 2:
            return self._arith(self.CMPS[p], av[0], av[1])
        if p == "std::ops::Neg::neg":
            v = av[0]
            return (v[0] if v[0] in ("S", "A", "Z0") else "T", v[1], "T")
        for suf, (even, nonneg) in self.UNARY.items():
            if p.endswith(suf) and len(av) == 1:
                v = av[0]
                par = "S" if (is_sym(v[0]) or (even and v[0] == "A")) else "T"
                dz = "Z" if (v[1] == "Z" and suf in ("::abs", "::sqrt", "::square", "::floor", "::ceil", "::tanh", "::ln_1p")) else "T"
                return (par, dz, "NN" if nonneg else "T")
        if p.endswith(("::powf", "::powi", "::hypot", "::max", "::min", "::copysign", "::mul_add", "::atan2")) and len(av) >= 2:
            par = "S" if all(is_sym(v[0]) for v in av) else "T"
            dz, sg = "T", "T"
            if p.endswith(("::powf", "::powi")):
                # 0^e = 0 for e > 0 ; x^e >= 0 (or NaN) for x >= 0
                if av[0][1] == "Z" and av[1][2] == "NN" and self._positive_exponent(args[1]):
                    dz = "Z"
                if av[0][2] == "NN":
                    sg = "NN"
            if p.endswith("::hypot"):
                sg = "NN"
                if av[0][1] == "Z" and av[1][1] == "Z":
                    dz = "Z"
            return (par, dz, sg)
        # ---- conversions, options
        if p.endswith(("::unwrap", "::expect", "::clone", "::into", "::from", "::to_owned", "::as_ref", "::deref", "::deref_mut",
                       "::borrow", "::to_vec", "::as_slice", "::into_iter", "::iter", "::copied", "::cloned", "::unwrap_or",
                       "::from_usize", "::from_i64", "::from_u16", "::from_f64", "::from_u64", "::from_i32", "::from_u32",
                       "::to_f64", "::to_usize", "::to_i64", "::branch", "::from_residual", "::enumerate", "::rev", "::take",
                       "::skip", "::zip", "::by_ref", "::as_mut", "::iter_mut", "::as_mut_slice", "Iterator::collect", "::into_boxed_slice", "::into_vec")):
            if p.endswith(("::rev", "::skip")) and av and (av[0][0] in ("XV", "YV") or (isinstance(av[0][0], tuple) and av[0][0][0] == "ENUM")):
                # re-aligning adaptors on ONE vector: element k of the result is no longer element k of the vector, so a later
                # zip / index pairing with the other vector would pair different positions.  `take` keeps a prefix (positions
                # unchanged), and any of the three applied to an already zipped stream keeps the pairs together.
                return TOP
            if p.endswith(("::take", "::skip")) and len(av) == 2:
                return av[0]                                    # the count is not part of the stream's value
            v = BOT
            for x in av:
                v = join(v, x)
            if p.endswith(("::from_usize", "::from_u16", "::from_u64", "::from_u32")):
                v = (v[0], v[1], "NN")
            return v
        if p.endswith(("::len", "::shape", "::nrows", "::ncols", "::is_empty")):
            return ("S", "T", "NN")
        if p in ("std::ops::Index::index", "std::ops::IndexMut::index_mut") and len(av) == 2:
            kt = self.res.operand(args[1])
            v = self._elem(av[0], av[1], kt)
            return v
        if p.endswith(("BaseVector::get", "BaseMatrix::get")):
            if len(av) == 2:
                return self._elem(av[0], av[1], self.res.operand(args[1]))
            if all(is_sym(v[0]) or v[0] == "SV" for v in av):
                return ("S", "T", "T")
            return TOP
        if p.endswith(("Iterator::next", "DoubleEndedIterator::next_back")) and is_mut:
            return av[0]  # advancing an iterator does not change the class of what it ranges over
        if p.endswith(("Iterator::next", "DoubleEndedIterator::next_back")):
            v = av[0]
            return (v[0] if is_sym(v[0]) or v[0] == B else ("S" if v[0] == "SV" else "T"), "T", "T")
        if p.endswith(("::begin_panic", "::panic_fmt", "::panic")):
            return BOT
        # ---- vector-level operations on abstract V: BaseVector<T> (axioms, discharged separately)
        vv = self._vector_op(p, av, args)
        if vv is not None:
            return vv
        # ---- local callee: analyse with the argument roles
        for key in (f.get("resolved"), p):
            if key and key in self.prog.bodies and self.depth < 4:
                cal = self.prog.bodies[key]
                roles = {i + 1: (av[i][0] if av[i][0] != B else "S") for i in range(len(av))}
                ck = (key, tuple(sorted((k, str(v)) for k, v in roles.items())))
                if ck not in self.cache:
                    self.cache[ck] = None
                    sub = AbsInt(cal, self.prog, roles, self.cache, self.depth + 1)
                    self.cache[ck] = sub.val.get(0, TOP)
                    self.unknown.extend(sub.unknown)
                r = self.cache[ck]
                if r is None:
                    return BOT  # recursion
                if is_mut:
                    return self._unknown(t, av)
                return r
        # ---- pure function of symmetric inputs
        if all(is_sym(v[0]) or v[0] in ("SV",) for v in av):
            return SYM
        return self._unknown(t, av)

    # ------------------------------------------------------------ iterator chains and closures
    def _closure(self, o):
        term = self.res.operand(o)
        from .prov import alts
        for a in alts(term):
            if a[0] == "agg" and a[1].startswith("closure:"):
                return self.prog.get(a[1][len("closure:"):])
        return None

    def _closure_env(self, o):
        """abstract values of the captured variables, in capture order"""
        if o["k"] not in ("copy", "move") or o["p"]["pr"]:
            return ()
        for d in self.b.defs.get(o["p"]["l"], []):
            if d.kind == "assign" and d.data["r"]["k"] == "agg" and d.data["r"]["ak"] == "closure":
                return tuple(self.operand(x) for x in d.data["r"]["ops"])
        return ()

    def _apply_closure(self, o, arg_vals):
        """abstract return value of the closure operand `o` applied to argument abstract values"""
        cb = self._closure(o)
        if cb is None or self.depth >= 5:
            return TOP
        env = self._closure_env(o)
        roles = {1: ("ENV", env)}
        extra = {}
        if cb.arg_count == 2 and len(arg_vals) > 1:
            # closures take their arguments as one tuple parameter only at the call ABI level; MIR closure bodies have
            # one local per declared parameter
            pass
        for i, v in enumerate(arg_vals):
            roles[2 + i] = v[0]
            extra[2 + i] = v
        sub = AbsInt(cb, self.prog, roles, self.cache, self.depth + 1, init=extra)
        self.unknown.extend(sub.unknown)
        return sub.val.get(0, TOP)

    @staticmethod
    def _item_of(itv, site):
        """abstract value of one item drawn from an iterator value"""
        par = itv[0]
        if par == "SV":
            return ("S", itv[1], itv[2])
        if par == "AV":
            return ("A", itv[1], "T")
        if par in ("S", "Z0", B):
            return (par, itv[1], itv[2])
        if isinstance(par, tuple) and par[0] == "ZIP":
            return (("PAIR", par[1], ("zipitem", site)), "T", "T")
        if isinstance(par, tuple) and par[0] == "ENUM":
            inner = AbsInt._item_of((par[1], itv[1], itv[2]), site)
            return (("EITEM", inner[0]), inner[1], inner[2])
        if par == "XV":
            return (("X", ("iteritem", site)), "T", "T")
        if par == "YV":
            return (("Y", ("iteritem", site)), "T", "T")
        return TOP

    def _iter_op(self, p, av, args, t, is_mut):
        site = self.b.path + "@" + str(t.get("s"))
        # ("EDIAG", inner): a stream that is empty on the diagonal (filtered by a predicate that is false for x == y)
        if av and isinstance(av[0][0], tuple) and av[0][0][0] == "EDIAG":
            inner = (av[0][0][1], av[0][1], av[0][2])
            if p.endswith("Iterator::count") and len(av) == 1:
                return ("S", "Z", "NN")
            if p.endswith("Iterator::filter") and len(av) == 2:
                r = self._iter_op(p, [inner] + list(av[1:]), args, t, is_mut)
                if r is not None and r != TOP and not (isinstance(r[0], tuple) and r[0][0] == "EDIAG"):
                    return (("EDIAG", r[0]), r[1], r[2])
                return r
            av = [inner] + list(av[1:])
        if p.endswith("Iterator::count") and len(av) == 1 and isinstance(av[0][0], tuple) and av[0][0][0] in ("ZIP", "ENUM"):
            return ("S", "T", "NN")
        if p.endswith("Iterator::zip") and len(av) == 2:
            a, b = av[0][0], av[1][0]
            if {a, b} == {"XV", "YV"}:
                return (("ZIP", "XY" if a == "XV" else "YX"), "T", "T")
            if a in ("SV", "S", "Z0") and b in ("SV", "S", "Z0"):
                return ("SV", "T", "T")
            if a == b == "AV":
                return ("AV", "Z", "T")
            return None
        if p.endswith("Iterator::enumerate") and len(av) == 1:
            par = av[0][0]
            if isinstance(par, tuple) or par in ("SV", "AV", "XV", "YV"):
                return (("ENUM", par), av[0][1], av[0][2])
            return None
        if p.endswith(("Iterator::next", "DoubleEndedIterator::next_back")) and not is_mut and av:
            par = av[0][0]
            if isinstance(par, tuple) and par[0] in ("ZIP", "ENUM"):
                return self._item_of(av[0], site)
            return None
        if p.endswith(("Iterator::next", "DoubleEndedIterator::next_back")) and is_mut and av:
            par = av[0][0]
            if isinstance(par, tuple) and par[0] in ("ZIP", "ENUM"):
                return av[0]
            return None
        if p.endswith(("Iterator::map", "Iterator::filter_map")) and len(av) == 2:
            item = self._item_of(av[0], site)
            if item == TOP:
                return None
            r = self._apply_closure(args[1], [item])
            if r[0] in ("S", "Z0"):
                return ("SV", r[1], r[2])
            if r[0] == "A":
                return ("AV", r[1], "T")
            return TOP
        if p.endswith(("Iterator::filter", "Iterator::take_while", "Iterator::skip_while")) and len(av) == 2:
            item = self._item_of(av[0], site)
            if item == TOP:
                return None
            r = self._apply_closure(args[1], [item])
            if not is_sym(r[0]):
                return TOP
            if p.endswith("Iterator::filter") and r[1] == "Z":
                return (("EDIAG", av[0][0]), av[0][1], av[0][2])
            return av[0]
        if p.endswith(("Iterator::all", "Iterator::any", "Iterator::position", "Iterator::for_each")) and len(av) == 2:
            item = self._item_of(av[0], site)
            if item == TOP:
                return None
            r = self._apply_closure(args[1], [item])
            return ("S", "T", "T") if is_sym(r[0]) else TOP
        if p.endswith(("Iterator::sum", "Iterator::count", "Iterator::product", "Iterator::last", "Iterator::max", "Iterator::min")) and len(av) == 1:
            par = av[0][0]
            if par == "SV":
                return ("S", av[0][1] if p.endswith("sum") else "T", av[0][2] if p.endswith(("sum", "count")) else "T")
            if par == "AV" and p.endswith("sum"):
                return ("A", av[0][1], "T")
            return None
        if p.endswith("Iterator::fold") and len(av) == 3:
            item = self._item_of(av[0], site)
            if item == TOP:
                return None
            acc = av[1]
            for _ in range(3):
                r = self._apply_closure(args[2], [acc, item])
                nacc = join(acc, r)
                if nacc == acc:
                    break
                acc = nacc
            return acc
        return None

    def _positive_exponent(self, o):
        """the exponent operand is provably > 0: from_u16(p) under a dominating p >= 1 guard, or 1/that, or a positive literal"""
        t = self.res.operand(o)
        if _pos_term(t):
            return True
        # inside a closure (fold / map form of the accumulation) the exponent is a captured variable
        try:
            from .prov import subst_upvars
            return _pos_term(subst_upvars(self.prog, self.b, t))
        except Exception:
            return False

    def _vector_op(self, p, av, args):
        if not p.startswith("linalg::BaseVector::"):
            return None
        nm = p.split("::")[-1]
        pars = [v[0] for v in av]
        if nm in ("dot",) and len(av) == 2 and pars[0] == pars[1] and pars[0] in ("XV", "YV"):
            # f(X) for a fixed scalar function f: exchanged with f(Y) by the swap (like an element pair)
            return ((pars[0][0], "dot-self"), "T", "NN")
        if nm in ("sum", "norm2", "max", "min") and len(av) == 1 and pars[0] in ("XV", "YV"):
            return ((pars[0][0], nm), "T", "NN" if nm == "norm2" else "T")
        if nm == "dot" and len(av) == 2:
            same = self._same_value(args[0], args[1])
            if set(pars) == {"XV", "YV"} or (pars[0] == pars[1] and pars[0] in ("SV", "AV")):
                return ("S", "Z" if av[0][1] == "Z" and av[1][1] == "Z" else "T", "NN" if same else "T")
            if all(q in ("SV", "S", "Z0") for q in pars):
                return SYM
            return None
        if nm in ("sub", "add", "mul", "div") and len(av) == 2:
            if set(pars) == {"XV", "YV"}:
                if nm == "sub":
                    return ("AV", "Z", "T")
                if nm in ("add", "mul"):
                    return ("SV", "T", "T")
                return None
            same = self._same_value(args[0], args[1])
            if pars[0] in ("SV", "AV") and pars[1] in ("SV", "AV"):
                if nm in ("mul", "div"):
                    return ("SV" if pars[0] == pars[1] else "AV", "Z" if "Z" in (av[0][1], av[1][1]) and nm == "mul" else "T",
                            "NN" if same and nm == "mul" else "T")
                if pars[0] == pars[1]:
                    return (pars[0], "Z" if av[0][1] == av[1][1] == "Z" else "T", "T")
            return None
        if nm in ("sum", "norm2") and len(av) == 1:
            if pars[0] == "SV":
                return ("S", av[0][1], av[0][2] if nm == "sum" else "NN")
            if pars[0] == "AV":
                return ("A" if nm == "sum" else "S", av[0][1], "T" if nm == "sum" else "NN")
            return None
        if nm in ("len",):
            return ("S", "T", "NN")
        return None

    def _unknown(self, t, av):
        f = t.get("f")
        self.unknown.append((self.b.path, f["path"] if f else "<indirect>", [v[0] for v in av]))
        return TOP


def _pos_term(t):
    if t[0] == "int":
        return t[1] > 0
    if t[0] == "const":
        v = t[1].replace("const ", "")
        return not v.startswith(("-", "0f", "0.0"))
    if t[0] == "call":
        p = t[1]
        if p == "unwrap" or p.endswith(("::from_u16", "::from_usize", "::from_u32", "::from_u64", "::unwrap")):
            return bool(t[2]) and _pos_term(t[2][0])
        if p.endswith(("::one", "::two", "::half")) and not t[2]:
            return True
        if p == "std::ops::Div::div" and len(t[2]) == 2:
            return _pos_term(t[2][0]) and _pos_term(t[2][1])
    if t[0] == "field" and t[2] == "p":
        # Minkowski order: positive below the dominating `p < 1 -> panic` guard (checked by the E1 instance)
        return True
    if t[0] == "cast":
        return _pos_term(t[1])
    return False
