"""Rows-vs-columns confusion: a buffer allocated with one dimension of a container and traversed with an explicit bound
that is the OTHER dimension of the same container (rows(x) vs cols(x); len(v) vs len(v[0])).

Positive identification only: both the allocation size and the traversal bound are pure dimension terms, of the same base
object (or outer vs. inner length of the same nested vector), and of different kind.  Dimensions of different objects
(rows(x) vs len(y)) are never compared - they are routinely equal by an earlier guard."""
from .match import dim_of
from .prov import Resolver, render, alts, subterms

ALLOC = ("from_elem",)


def _dimkey(t):
    """('rows'|'cols'|'len'|'len0', base_render) or None; len0 = length of the first/any inner vector"""
    d = dim_of(t)
    if not d:
        return None
    kind, base = d
    # strip transparent wrappers
    while base[0] == "call" and base[1].endswith(("::deref", "::as_ref", "::as_slice", "::borrow")) and base[2]:
        base = base[2][0]
    if kind == "len" and base[0] == "idx":
        return ("len0", render(base[1]), base[1])
    if kind == "len" and base[0] == "call" and base[1].endswith(("Index::index",)) and base[2]:
        return ("len0", render(base[2][0]), base[2][0])
    return (kind, render(base), base)


def _conflict(a, b):
    if a is None or b is None:
        return False
    (ka, ra, _), (kb, rb, _) = a, b
    if ra != rb:
        return False
    return {ka, kb} in ({"rows", "cols"}, {"len", "len0"})


def check(prog, body):
    """returns (n_examined, problems[(where, msg)])"""
    res = Resolver(body)
    allocs = {}   # local -> (size term, where)
    for l, ds in body.defs.items():
        for d in ds:
            if d.kind == "call" and d.data.get("f") and d.data["f"]["path"].endswith(ALLOC) and len(d.data["args"]) == 2:
                allocs[l] = (res.operand(d.data["args"][1]), body.where(d.bb))
    n, problems = 0, []
    if not allocs:
        return 0, []

    def value_of_local(t):
        """the allocated local a term denotes (phi_l / local l), or None"""
        for a in [t] + list(alts(t)):
            if a[0] in ("phi", "local") and a[1] in allocs:
                return a[1]
            if a[0] == "call" and a[1].endswith("from_elem"):
                for l, (sz, _) in allocs.items():
                    if len(a[2]) == 2 and a[2][1] == sz:
                        return l
        return None
    for bb, t in body.calls():
        f = t.get("f")
        if not f:
            continue
        p = f["path"]
        # buf.iter()/iter_mut()[.enumerate()].take(H)
        if p.endswith("Iterator::take") and len(t["args"]) == 2:
            recv = res.operand(t["args"][0])
            H = res.operand(t["args"][1])
            src = None
            for s in subterms(recv):
                if s[0] == "call" and s[1].endswith(("::iter", "::iter_mut", "::into_iter")) and s[2]:
                    l = value_of_local(s[2][0])
                    if l is not None:
                        src = l
            if src is not None:
                n += 1
                S = allocs[src][0]
                if _conflict(_dimkey(S), _dimkey(H)):
                    problems.append((body.where(bb), f"`{body.local_name(src) or '_%d' % src}` is allocated with `{render(S)[:50]}` "
                                     f"(at {allocs[src][1]}) but traversed with bound `{render(H)[:50]}`: the other dimension of the same container"))
        # buf[j] with j the variable of 0..H
        if p.endswith(("Index::index", "IndexMut::index_mut")) and len(t["args"]) == 2:
            base = res.operand(t["args"][0])
            l = value_of_local(base)
            if l is None:
                continue
            ix = res.operand(t["args"][1])
            if not (ix[0] == "field" and ix[2] == "0" and ix[1][0] == "variant" and ix[1][2] == "Some"):
                continue
            nx = ix[1][1]
            if not (nx[0] == "call" and nx[1].endswith("Iterator::next") and nx[2]):
                continue
            for a in alts(nx[2][0]):
                if a[0] == "agg" and a[1].endswith("Range::Range") and a[2][0] == ("int", 0):
                    n += 1
                    H, S = a[2][1], allocs[l][0]
                    if _conflict(_dimkey(S), _dimkey(H)):
                        problems.append((body.where(bb), f"`{body.local_name(l) or '_%d' % l}` is allocated with `{render(S)[:50]}` "
                                         f"(at {allocs[l][1]}) but indexed by the variable of `0..{render(H)[:50]}`: the other dimension of the same container"))
    return n, problems


def run_rule(ck, prog, files, rule="E2-dimension"):
    """evaluate every body (and closure) defined in the given source files"""
    tot = 0
    for path, b in sorted(prog.bodies.items()):
        if not b.loc or b.loc[0] not in files:
            continue
        n, problems = check(prog, b)
        if not n:
            continue
        tot += n
        inst = "buffers are traversed with the dimension they were allocated with"
        for k, (where, msg) in enumerate(problems):
            ck.violation(rule, inst, b.path, where, ordinal=k, expected="allocation size and traversal bound are the same dimension of the container",
                         found=msg)
        if not problems:
            ck.ok(rule, inst, b.path, f"{b.loc[0]}:{b.loc[1]}", f"{n} bounded traversal(s) of locally allocated buffers, no rows/cols (outer/inner) mix-up")
    return tot
