"""Stride consistency (contradiction rule): within one function, an index variable of one range addresses one buffer with
one stride.

A flat buffer that holds k blocks of width S is addressed as `v * S + offset` with v in 0..k.  Two different strides for the
same (buffer, range of v) pair inside one function are two contradictory beliefs about the block width (e.g. `j * (p + 1)`
in the loss term and `i * k` in the penalty term of the same objective: they coincide only when k = p + 1).
check(body) -> {(buffer, range): {stride: where}}"""
from .prov import Resolver, render, subterms, alts


def _induction_hi(t):
    """upper bound term of the Range an induction variable iterates over, or None"""
    if t[0] == "field" and t[2] == "0" and t[1][0] == "variant" and t[1][1][0] == "call" and t[1][1][1].endswith("Iterator::next"):
        src = t[1][1][2][0] if t[1][1][2] else None
        if src is None:
            return None
        for a in alts(src):
            if a[0] == "agg" and a[1].endswith("Range::Range") and len(a[2]) == 2:
                return a[2][1]
    return None


def check(body):
    res = Resolver(body)
    table = {}
    for bb, t in body.calls():
        f = t.get("f")
        if not f or len(t["args"]) < 2:
            continue
        args = [res.operand(a) for a in t["args"]]
        buf = args[0]
        if buf[0] not in ("arg", "field"):
            continue
        for a in args[1:]:
            for s in subterms(a):
                if s[0] == "bin" and s[1] in ("Mul", "MulWithOverflow") and len(s) == 4:
                    for v, S in ((s[2], s[3]), (s[3], s[2])):
                        hi = _induction_hi(v)
                        if hi is None or _induction_hi(S) is not None or S[0] == "int":
                            continue
                        table.setdefault((render(buf)[:60], render(hi)[:60]), {}).setdefault(render(S)[:60], body.where(bb))
    return table


def run_rule(ck, prog, files, rule="E2-stride", inst="an index variable of one range addresses one buffer with one stride"):
    n = 0
    for b in prog.bodies.values():
        if b.loc[0] not in files or "::tests::" in b.path:
            continue
        for (buf, hi), strides in check(b).items():
            n += 1
            if len(strides) > 1:
                ss = sorted(strides.items())
                ck.violation(rule, inst, b.path, ss[1][1], expected=f"`{buf}` is addressed as v * S + offset with one block width S for v in 0..{hi}",
                             found=f"two strides for the same index range: `{ss[0][0]}` (at {ss[0][1]}) and `{ss[1][0]}` (at {ss[1][1]})")
    if n:
        ck.ok(rule, inst, "", "", f"{n} (buffer, index range) pair(s) with a scaled index in {len(files)} file(s): one stride each")
    else:
        ck.note(f"{inst}: no scaled index in scope: no instance")
