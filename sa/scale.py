"""E4: scale homogeneity of thresholds.

Every comparison between values of the element type T is classified by the leaves
of the provenance terms of its two sides:
  data        : depends on an argument / captured variable / container contents
  zero        : the additive zero (homogeneous of every degree: scale-free test)
  const       : only machine constants and literals (epsilon, one, from_f64(c), ...)
Rule: no comparison has a data side against a non-zero const side."""
from .guards import BINOPS, CMP_CALLS, NEG
from .match import Zero, SHAPE_CALLS, LEN_CALLS, NROWS_CALLS, NCOLS_CALLS
from .prov import Resolver, render, subterms

ZERO = Zero()
FLOAT_TYS = ("T", "f32", "f64", "F")


class DepGraph:
    """flow-insensitive dependence of locals on the function's inputs"""

    def __init__(self, body):
        self.body = body
        self.edges = {}
        for l, ds in body.defs.items():
            s = set()
            for d in ds:
                if d.kind in ("assign", "store"):
                    s |= _rvalue_locals(d.data["r"])
                else:
                    f = d.data.get("f")
                    if f and d.kind == "call" and (SHAPE_CALLS.search(f["path"]) or LEN_CALLS.search(f["path"])
                                                   or NROWS_CALLS.search(f["path"]) or NCOLS_CALLS.search(f["path"])):
                        continue
                    for a in d.data["args"]:
                        s |= _operand_locals(a)
                    if d.data.get("fo"):
                        s |= _operand_locals(d.data["fo"])
            self.edges[l] = s
        for l, ds in body.partial_defs.items():
            s = self.edges.setdefault(l, set())
            for d in ds:
                if d.kind == "assign":
                    s |= _rvalue_locals(d.data["r"])
                elif d.kind == "call":
                    for a in d.data["args"]:
                        s |= _operand_locals(a)
        self._data = {}

    def data(self, l):
        """does local l (transitively) depend on an argument / captured variable?"""
        if l in self._data:
            return self._data[l]
        seen, work = set(), [l]
        r = False
        while work:
            x = work.pop()
            if x in seen:
                continue
            seen.add(x)
            if self.body.is_arg(x):
                r = True
                break
            work.extend(self.edges.get(x, ()))
        self._data[l] = r
        return r


def _place_locals(p):
    s = {p["l"]}
    for e in p["pr"]:
        if isinstance(e, dict) and "i" in e:
            s.add(e["i"])
    return s


def _operand_locals(o):
    if o["k"] in ("copy", "move"):
        return _place_locals(o["p"])
    return set()


def _rvalue_locals(r):
    k = r["k"]
    if k in ("use", "cast", "repeat"):
        return _operand_locals(r["o"])
    if k in ("ref", "copyderef", "rawptr", "discr"):
        return _place_locals(r["p"])
    if k == "bin":
        return _operand_locals(r["a"]) | _operand_locals(r["b"])
    if k == "un":
        return _operand_locals(r["a"])
    if k == "agg":
        s = set()
        for o in r["ops"]:
            s |= _operand_locals(o)
        return s
    return set()


def leaf_kinds(t, dg=None):
    """(depends_on_element_data, constants) over the DAG of t.  Dimension terms
    (shape/len/nrows/ncols of anything) are dimensionless leaves, not data."""
    from .match import dim_of, SHAPE_CALLS
    data = False
    consts = []
    seen = set()
    work = [t]
    while work:
        s = work.pop()
        if not isinstance(s, tuple) or not s or id(s) in seen:
            continue
        seen.add(id(s))
        k = s[0]
        if not isinstance(k, str):
            work.extend(s)
            continue
        if dim_of(s) or (k == "call" and SHAPE_CALLS.search(s[1])):
            consts.append("dim")
            continue
        if k in ("arg", "upvar", "closure_env", "unk"):
            data = True
        elif k == "int":
            consts.append(str(s[1]))
        elif k == "const":
            consts.append(s[1])
        elif k == "call" and not s[2]:
            consts.append(s[1].split("::")[-1] + "()")
        elif k == "local" and dg is not None and dg.data(s[1]):
            data = True
        for x in s[1:]:
            if isinstance(x, tuple):
                work.append(x)
    return data, consts


def classify(t, dg=None):
    if ZERO(t):
        return "zero"
    data, consts = leaf_kinds(t, dg)
    if data:
        return "data"
    # pure constant: is it identically zero?  (e.g. neg(zero()))
    if consts and all(c in ("zero()", "0", "0f32", "0f64", "0.0f64", "0.0f32") for c in consts):
        return "zero"
    if consts:
        return "const"
    return "opaque"


def t_comparisons(body, res=None):
    """comparisons whose operands have the element (float) type:
       yields dict(bb, where, lhs, rhs, rel, ty)"""
    res = res or Resolver(body)
    out = []
    for i, blk in enumerate(body.blocks):
        if blk["cleanup"] or i not in body.reach:
            continue
        # (a) trait-call comparisons on T
        t = blk["term"]
        if t["k"] == "call" and t.get("f") and t["f"]["path"] in CMP_CALLS:
            ty = t["f"].get("self_ty", "").lstrip("&")
            if ty in FLOAT_TYS:
                a, b = (res.operand(x) for x in t["args"])
                out.append(dict(bb=i, where=body.where(i), lhs=a, rhs=b, rel=CMP_CALLS[t["f"]["path"]], ty=ty))
        # (a') max / min / clamp on T select one operand by an implicit comparison: `v.max(c)` is a floor at c
        if t["k"] == "call" and t.get("f") and t["f"]["path"].endswith(("Float::max", "Float::min", "::max", "::min")) and len(t["args"]) == 2:
            ty = t["f"].get("self_ty", "").lstrip("&")
            if ty in FLOAT_TYS and not t["f"]["path"].startswith(("std::cmp::Ord", "std::iter", "core::iter")):
                a, b = (res.operand(x) for x in t["args"])
                out.append(dict(bb=i, where=body.where(i), lhs=a, rhs=b, rel=t["f"]["path"].split("::")[-1], ty=ty))
        # (b) primitive float comparisons
        for j, s in enumerate(blk["stmts"]):
            if s["k"] == "assign" and s["r"]["k"] == "bin" and s["r"]["op"] in BINOPS:
                oa = s["r"]["a"]
                ty = _op_ty(body, oa) or _op_ty(body, s["r"]["b"])
                if ty in ("f32", "f64"):
                    a, b = res.operand(s["r"]["a"]), res.operand(s["r"]["b"])
                    out.append(dict(bb=i, where=body.where(i, j), lhs=a, rhs=b, rel=BINOPS[s["r"]["op"]], ty=ty))
    return out


def _op_ty(body, o):
    if o["k"] in ("copy", "move") and not o["p"]["pr"]:
        return body.local_ty(o["p"]["l"])
    if o["k"] == "const":
        return o["ty"]
    return None


def check_body(body):
    """returns (records, violations): every T comparison with its classification"""
    res = Resolver(body)
    dg = DepGraph(body)
    recs = []
    for c in t_comparisons(body, res):
        cl, cr = classify(c["lhs"], dg), classify(c["rhs"], dg)
        verdict = "ok"
        if (cl == "data" and cr == "const") or (cl == "const" and cr == "data"):
            verdict = "absolute-threshold"
        data_side, const_side = (c["lhs"], c["rhs"]) if cl == "data" else (c["rhs"], c["lhs"])
        recs.append(dict(where=c["where"], rel=c["rel"], lhs=cl, rhs=cr, verdict=verdict,
                         text=f"{render(c['lhs'])[:70]} {c['rel']} {render(c['rhs'])[:70]}",
                         const=render(const_side)[:60] if verdict != "ok" else "",
                         data_term=data_side, const_term=const_side))
    return recs
