"""Row-wise (non-interference across rows) rule for predict/transform functions:
the output row r may depend on input row r and on model fields only."""
from .match import dim_of, SHAPE_CALLS
from .prov import Resolver, render

# calls through which row-aligned data may flow while staying row-aligned
ROWWISE = {
    "shape", "len", "get", "get_row", "get_row_as_vec", "copy_row_as_vec", "row_iter", "clone", "set",
    "add_element_mut", "sub_element_mut", "mul_element_mut", "div_element_mut",
    "add_scalar_mut", "sub_scalar_mut", "mul_scalar_mut", "div_scalar_mut", "add_scalar", "sub_scalar", "mul_scalar", "div_scalar",
    "negative_mut", "abs_mut", "pow_mut", "negative", "abs", "pow",
    "transpose", "to_row_vector", "from_row_vector", "to_vec", "branch", "from_residual", "unwrap", "into", "as_ref", "deref", "deref_mut",
    "index", "index_mut", "iter", "into_iter", "next", "enumerate", "take",
}
LEFT_ONLY = {"matmul"}                                  # tainted operand must be the left factor, the right one untainted
BINARY_MUT = {"add_mut", "sub_mut", "mul_mut", "div_mut", "add", "sub", "mul", "div"}   # the other operand must be untainted


def tainted(t, xarg):
    """does the term depend on argument xarg other than through a dimension?"""
    seen = set()
    work = [t]
    while work:
        s = work.pop()
        if not isinstance(s, tuple) or not s or id(s) in seen:
            continue
        seen.add(id(s))
        if isinstance(s[0], str):
            if dim_of(s) or (s[0] == "call" and SHAPE_CALLS.search(s[1])):
                continue
            if s[0] == "arg" and s[1] == xarg:
                return True
            for x in s[1:]:
                if isinstance(x, tuple):
                    work.append(x)
        else:
            work.extend(s)
    return False


def check(prog, body, xarg=2):
    """returns (uses, problems): every call through which x-derived data flows, and the ones that are not row-wise"""
    uses, problems = [], []
    bodies = [body] + prog.closures_of.get(body.path, [])
    for bd in bodies:
        if bd is not body:
            continue  # closures see x as a captured variable; none of the anchored functions uses one (fail closed below)
        res = Resolver(bd)
        for bb, t in bd.calls():
            f = t.get("f")
            if not f:
                continue
            terms = [res.operand(a) for a in t["args"]]
            tn = [tainted(x, xarg) for x in terms]
            if not any(tn):
                continue
            nm = f["name"]
            uses.append((bd.where(bb), nm))
            if nm in ROWWISE or f["path"].endswith(("Result::Ok", "Failed::transform", "Failed::predict")):
                continue
            if nm in LEFT_ONLY:
                if tn[0] and not any(tn[1:]):
                    continue
                problems.append(f"{nm} at {bd.where(bb)}: the input must be the left factor and the right factor must not depend on the input")
                continue
            if nm in BINARY_MUT:
                if tn[0] and not any(tn[1:]):
                    continue
                problems.append(f"{nm} at {bd.where(bb)}: the other operand depends on the input rows (`{render(terms[1])[:60]}`)")
                continue
            if nm in ("fmt", "format", "new", "transform", "predict") and f.get("crate") in ("std", "core", "alloc", "smartcore") and "Failed" in f["path"]:
                continue
            problems.append(f"input-derived data flows into `{f['path']}` at {bd.where(bb)}: not a row-wise operation")
    if prog.closures_of.get(body.path):
        for cb in prog.closures_of[body.path]:
            if any(n == "x" for n in cb.upvars.values()):
                problems.append(f"the input is captured by a closure ({cb.path.split('::')[-1]}): not analysed")
    return uses, problems
