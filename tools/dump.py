#!/usr/bin/env python3
"""Pretty-print MIR facts of bodies matching a regex: tools/dump.py <regex> [config]"""
import os
import sys

sys.path.insert(0, os.path.dirname(os.path.dirname(os.path.abspath(__file__))))
from sa import facts, mir


def pl(p):
    s = f"_{p['l']}"
    for e in p["pr"]:
        if e == "*":
            s = f"(*{s})"
        elif "f" in e:
            s = f"{s}.{e['n']}"
        elif "i" in e:
            s = f"{s}[_{e['i']}]"
        elif "dc" in e:
            s = f"({s} as {e['dc']})"
        elif "ci" in e:
            s = f"{s}[{e['ci']}]"
        else:
            s = f"{s}{{{e}}}"
    return s


def op(o):
    if o["k"] in ("copy", "move"):
        return ("move " if o["k"] == "move" else "") + pl(o["p"])
    if o["k"] == "const":
        if "fn" in o:
            return "fn:" + o["fn"]["path"]
        return "const " + o["v"]
    return str(o)


def rv(r):
    k = r["k"]
    if k == "use":
        return op(r["o"])
    if k == "ref":
        return ("&mut " if r["m"] else "&") + pl(r["p"])
    if k == "bin":
        return f"{r['op']}({op(r['a'])}, {op(r['b'])})"
    if k == "un":
        return f"{r['op']}({op(r['a'])})"
    if k == "cast":
        return f"{op(r['o'])} as {r['ty']} [{r['ck']}]"
    if k == "agg":
        nm = r.get("name", r["ak"])
        if r["ak"] == "adt":
            nm += "::" + r["variant"]
        return f"{nm}({', '.join(op(o) for o in r['ops'])})"
    if k in ("discr", "copyderef", "rawptr"):
        return f"{k}({pl(r['p'])})"
    return str(r)


def dump(b):
    print(f"== {b.path}   [{b.kind}] {b.loc[0]}:{b.loc[1]} args={b.arg_count} generics={b.generics}")
    for i, l in enumerate(b.locals):
        if "name" in l or i <= b.arg_count:
            print(f"   _{i}: {l['ty']}  {l.get('name','')}")
    for i, blk in enumerate(b.blocks):
        if blk["cleanup"]:
            continue
        print(f" bb{i}:")
        for s in blk["stmts"]:
            if s["k"] == "assign":
                print(f"     {pl(s['p'])} = {rv(s['r'])}    // {s['s'][1]}{' x' if s['x'] else ''}")
            else:
                print(f"     {s}")
        t = blk["term"]
        k = t["k"]
        if k == "call":
            f = t.get("f")
            nm = f["path"] if f else op(t["fo"])
            extra = ""
            if f and f.get("resolved"):
                extra = f"  => {f['resolved']}"
            print(f"     {pl(t['d'])} = CALL {nm}({', '.join(op(a) for a in t['args'])}) -> bb{t['t']}{extra}    // {t['s'][1]}")
        elif k == "switch":
            print(f"     SWITCH {op(t['o'])} {[(v, 'bb%d' % b_) for v, b_ in t['targets']]} else bb{t['otherwise']}    // {t['s'][1]}")
        elif k == "assert":
            print(f"     ASSERT {op(t['c'])}=={t['exp']} {t['msg']} -> bb{t['t']}")
        elif k in ("goto", "drop"):
            print(f"     {k.upper()} -> bb{t['t']}")
        else:
            print(f"     {k.upper()}")


if __name__ == "__main__":
    cfg = sys.argv[2] if len(sys.argv) > 2 else "all"
    prog = mir.Program(facts.extract(cfg))
    for b in prog.find(sys.argv[1]):
        dump(b)
