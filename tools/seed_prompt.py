#!/usr/bin/env python3
"""Print the prompt given to a seeding sub-agent: property text + worktree only."""
import json, sys
pid, n = sys.argv[1], (sys.argv[2] if len(sys.argv) > 2 else "2")
for l in open('/verif/properties.jsonl'):
    p = json.loads(l)
    if p['id'] == pid:
        break
print(f"""You are helping evaluate a verification effort by playing the role of a developer who introduces a subtle regression.

Codebase: a Rust machine-learning library (a fork of SmartCore). You have your OWN scratch git worktree of it at /tmp/wt-{pid} . Work ONLY inside /tmp/wt-{pid} and /tmp/seed-{pid}. Do NOT read, list or touch /verif or /repo (anything you need is in your worktree). The sandbox is offline: always pass --offline to cargo (e.g. `cargo test --offline --lib`), and use CARGO_TARGET_DIR=/tmp/wt-{pid}/target (the default).

The property that the library is supposed to satisfy:

TITLE: {p['title']}
STATEMENT: {p['statement']}
QUANTIFIED OVER: {p['quantifier']['text']}

Your task: produce {n} DIFFERENT, independent source changes (each a separate small patch against the pristine worktree, touching only files under src/, NOT touching any existing #[cfg(test)] test code) such that for each change:
  1. the crate still compiles (`cargo build --offline`, and if you touch feature-gated code also `cargo build --offline --features serde,ndarray-bindings,nalgebra-bindings`);
  2. the ENTIRE existing test suite still passes unchanged: `cargo test --offline --lib` (161 tests) must report 0 failures;
  3. the change makes the library VIOLATE the property above for some input/configuration;
  4. the violation needs something specific to manifest - an unusual input (boundary value, ties, all-negative data, non-contiguous labels, a particular shape, large offset, particular seed ...), a multi-step sequence of operations, or two cooperating sites that each look fine alone - NOT something ordinary use would expose at once. Make it look like a plausible refactor / optimisation / off-by-one a real developer could commit, not sabotage with an obvious marker. No comments announcing the bug.
  5. you provide a demonstration: a small Rust integration test file (to be dropped in tests/demo_<k>.rs of the crate, using only the crate's public API and dev-dependencies already in Cargo.toml) that FAILS with your change applied and PASSES on the pristine tree. Verify both directions yourself by actually running it (`cargo test --offline --test demo_<k>`), switching between pristine and patched sources with `git diff > /tmp/seed-{pid}/p.diff; git checkout -- src; git apply /tmp/seed-{pid}/p.diff` - NEVER use `git stash`, it is shared with other worktrees.

Prefer different kinds of change for the different patches (e.g. one boundary/off-by-one or guard change, one data-flow change such as using the wrong index/variable/label table, one numerical/logic change), and prefer different functions/files.

Deliverables, for k = 1..{n}, under /tmp/seed-{pid}/<k>/ :
  - patch.diff   : `git diff` of the source change only (src/ only, relative to the pristine HEAD; must apply with `git apply` at the repo root)
  - demo.rs      : the demonstration test file
  - meta.json    : {{"property": "{pid}", "summary": "<one sentence: what was changed>", "needs": "<what is needed for the violation to manifest>", "files": ["src/..."], "ran": ["<commands you ran and their outcome>"]}}
When finished, restore the worktree sources to pristine (`git checkout -- . && git clean -fd tests` is fine but keep target/ for speed), and reply with a short summary of each change (file, function, nature, and how the demo shows it). If you cannot find a change meeting all criteria for some k, say so honestly rather than delivering something that fails the criteria.""")
