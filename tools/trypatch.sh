#!/bin/bash
# tools/trypatch.sh <patch.diff> <Cxx> [<Cxx>...] : run checks against a scratch copy of /repo with the patch applied.
# The scratch copy (and its outputs) live under a fresh temp dir that is removed afterwards.
set -u
PATCH=$(realpath "$1"); shift
S=$(mktemp -d /tmp/scv-try.XXXXXX)
mkdir -p $S/repo
rsync -a --exclude target --exclude .git /repo/ $S/repo/
( cd $S/repo && git init -q . 2>/dev/null && git apply --whitespace=nowarn "$PATCH" ) || { echo "PATCH DID NOT APPLY"; rm -rf $S; exit 3; }
rc=0
for id in "$@"; do
  SCVERIF_REPO=$S/repo SCVERIF_OUTDIR=$S/o /verif/check $id 2>&1 | sed "s#$S/repo/##g" | grep -v "^\s*$" | cut -c1-400
  r=${PIPESTATUS[0]}; [ $r -ne 0 ] && rc=$r
done
rm -rf $S
exit $rc
