#!/usr/bin/env python3
"""Run every confirmed seeded change against its property's quick check (scratch copy); write seeded/EXPECT.json and seeded/RESULTS.md."""
import json, os, sys
sys.path.insert(0, os.path.dirname(os.path.dirname(os.path.abspath(__file__))))
from sa import controls
V = "/verif"
exp, lines = {}, []
only = sys.argv[1:]
old = json.load(open(f"{V}/seeded/EXPECT.json")) if os.path.exists(f"{V}/seeded/EXPECT.json") else {}
for name in sorted(os.listdir(f"{V}/seeded")):
    d = f"{V}/seeded/{name}"
    if not os.path.isdir(d):
        continue
    pid = name.split("-")[0]
    if only and pid not in only and name not in only:
        if name in old:
            exp[name] = old[name]
        continue
    if not os.path.exists(f"{V}/props/{pid}.py"):
        exp[name] = dict(property=pid, caught_by=[], note="property not claimed")
        continue
    r = controls.run_patch(pid, f"{d}/patch.diff")
    meta = json.load(open(f"{d}/meta.json")) if os.path.exists(f"{d}/meta.json") else {}
    exp[name] = dict(property=pid, caught_by=r["rules"] if r["exit"] == 1 else [], applied=r["applied"], summary=meta.get("summary", "")[:200])
    print(name, "CAUGHT by " + ", ".join(r["rules"]) if r["exit"] == 1 else ("missed" if r["applied"] else "patch no longer applies"), flush=True)
json.dump(exp, open(f"{V}/seeded/EXPECT.json", "w"), indent=1)
with open(f"{V}/seeded/RESULTS.md", "w") as fh:
    fh.write("# Seeded changes vs. checks\n\nEach change compiles, passes the 161 baseline tests and breaks its property (confirmed: demo fails with / passes without).\n\n")
    fh.write("| change | property | caught by (rules) | what was changed |\n|---|---|---|---|\n")
    for n, e in sorted(exp.items()):
        fh.write(f"| {n} | {e['property']} | {', '.join(e['caught_by']) or ('-' if e.get('applied', True) else 'n/a: no longer applies')} | {e.get('summary','').replace('|','/')} |\n")
    c = sum(1 for e in exp.values() if e["caught_by"])
    fh.write(f"\n{c} of {len(exp)} caught.\n")
print(sum(1 for e in exp.values() if e["caught_by"]), "of", len(exp))
