#!/bin/bash
# tools/benign_matrix.sh <dir-with-<k>/patch.diff> ... : run ALL checks on each behaviour-preserving patch; report false alarms
cd /verif
for d in "$@"; do
  for p in $d/*/patch.diff; do
    S=$(mktemp -d /tmp/scv-ben.XXXXXX); mkdir -p $S/repo
    rsync -a --exclude target --exclude .git /repo/ $S/repo/
    if ! ( cd $S/repo && git init -q . && git apply --whitespace=nowarn $p ) 2>/dev/null; then echo "$p: DOES NOT APPLY"; rm -rf $S; continue; fi
    out=$(SCVERIF_REPO=$S/repo SCVERIF_OUTDIR=$S/o ./check --all 2>&1)
    fired=$(echo "$out" | grep "^  rule=" | sed 's/^  rule=\([^ ]*\) instance=\(.*\) function=.*/\1 [\2]/' | sort -u | tr '\n' ';')
    props=$(echo "$out" | grep "violations=[1-9]" | sed 's/^\[\(C[0-9]*\)\].*/\1/' | tr '\n' ' ')
    if [ -n "$fired" ]; then echo "$p: FALSE ALARM in $props: $fired"; else echo "$p: silent"; fi
    rm -rf $S
  done
done
