#!/bin/bash
# tools/seed_matrix.sh : run every confirmed seeded change against its property's check; print which fired.
cd /verif
for d in seeded/*/; do
  n=$(basename $d); id=${n%%-*}
  [ -f props/$id.py ] || { echo "$n: (property $id not claimed)"; continue; }
  out=$(tools/trypatch.sh $d/patch.diff $id 2>&1)
  if echo "$out" | grep -q "PATCH DID NOT APPLY"; then echo "$n: patch does not apply to current /repo"; continue; fi
  rules=$(echo "$out" | grep "^  rule=" | sed 's/^  rule=\([^ ]*\) instance=\(.*\) function=.*/\1 [\2]/' | sort -u | tr '\n' ';')
  if [ -n "$rules" ]; then echo "$n: CAUGHT by $rules"; else echo "$n: missed"; fi
done
