#!/usr/bin/env python3
"""List comparison records + edge outcomes of bodies matching a regex."""
import os, sys
sys.path.insert(0, os.path.dirname(os.path.dirname(os.path.abspath(__file__))))
from sa import facts, mir, guards
from sa.prov import Resolver, render
cfg = sys.argv[2] if len(sys.argv) > 2 else "all"
prog = mir.Program(facts.extract(cfg))
for b in prog.find(sys.argv[1]):
    res = Resolver(b)
    print("==", b.path, f"{b.loc[0]}:{b.loc[1]}")
    for c in guards.comparisons(b, res):
        ot = guards.edge_outcomes(b, c.bb, c.true_bb, res)
        of = guards.edge_outcomes(b, c.bb, c.false_bb, res)
        print(f"  bb{c.bb} {c.where.split(':')[1]}: {render(c.lhs)}  {c.rel}  {render(c.rhs)}   T->{sorted(ot)}  F->{sorted(of)}")
    for (bb, term, tb, fb) in guards.bool_switches(b, res):
        print(f"  bb{bb} bool: {render(term)[:100]}  T->{sorted(guards.edge_outcomes(b,bb,tb,res))} F->{sorted(guards.edge_outcomes(b,bb,fb,res))}")
