#!/usr/bin/env python3
"""tools/design_table.py : regenerate the per-property rule/instance table of DESIGN.md §4 from evidence/*.json
(run the 20 quick checks first so the evidence matches the tree)."""
import json, os, re
V = "/verif"
rows = []
for i in range(1, 21):
    pid = f"C{i:02d}"
    e = json.load(open(f"{V}/evidence/{pid}.json"))
    by = e["coverage"]["instances_by_rule"]
    cells = ", ".join(f"{r} {v['evaluated']}" for r, v in sorted(by.items(), key=lambda kv: -kv[1]["evaluated"]))
    lvl = e["level"]
    rows.append(f"| {pid} | {cells} | {lvl} |")
table = "| id | rules (instances) | level |\n|----|-------------------|-------|\n" + "\n".join(rows) + "\n"
p = f"{V}/DESIGN.md"
s = open(p).read()
m = re.search(r"\| id \| rules \(instances\) \| level \|\n\|----\|[-|]+\|\n(?:\| C\d\d \|.*\n)+", s)
assert m, "table not found"
s = s[:m.start()] + table + s[m.end():]
open(p, "w").write(s)
print(table)
