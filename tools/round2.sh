#!/bin/bash
# tools/round2.sh <Cxx> [features] : verify round-2 seeds of a property and run its check on each
id=$1; feat=${2:-}
cd /verif
for k in 1 2 3; do
  d=/tmp/seed2-$id/$k; [ -f $d/patch.diff ] || continue
  n=$id-r2-$k
  [ -d seeded/$n ] || tools/verify_seed.sh $d $n $feat 2>&1 | grep RESULT | cut -c1-100
  [ -d seeded/$n ] && { echo "--- $n"; tools/trypatch.sh seeded/$n/patch.diff $id | grep "^  rule\|^  found\|^\[\|PATCH" | cut -c1-260; }
done
