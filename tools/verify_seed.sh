#!/bin/bash
# tools/verify_seed.sh <seed-dir> <name> [features]
# Confirms a candidate seeded change in a scratch worktree: patch applies, crate builds, the 161 lib tests pass,
# demo FAILS with the patch and PASSES without. On success copies it to /verif/seeded/<name>/ with what was run.
set -u
SD=$(realpath "$1"); NAME=$2; FEAT=${3:-}
W=/tmp/vs-wt-$$
export CARGO_TARGET_DIR=/tmp/vs-target CARGO_NET_OFFLINE=true
git -C /repo worktree add -q --detach $W HEAD || exit 2
cleanup() { git -C /repo worktree remove --force $W; }
trap cleanup EXIT
cd $W
FF=""; [ -n "$FEAT" ] && FF="--features $FEAT"
log=$(mktemp)
git apply --whitespace=nowarn $SD/patch.diff || { echo "RESULT $NAME: patch does not apply to current HEAD"; exit 3; }
cargo build --offline --features serde,ndarray-bindings,nalgebra-bindings >$log 2>&1 || { echo "RESULT $NAME: all-feature build fails"; tail -5 $log; exit 3; }
cargo test --offline --lib >$log 2>&1; r=$?
suite=$(grep "^test result" $log | head -1)
[ $r -ne 0 ] && { echo "RESULT $NAME: lib tests FAIL with patch: $suite"; grep "FAILED\|failed" $log | head; exit 4; }
mkdir -p tests; cp $SD/demo.rs tests/zz_demo.rs
cargo test --offline $FF --test zz_demo >$log 2>&1; with=$?
wres=$(grep "^test result" $log | head -1)
git checkout -q -- src
cargo test --offline $FF --test zz_demo >$log 2>&1; without=$?
wores=$(grep "^test result" $log | head -1)
if [ $with -ne 0 ] && [ $without -eq 0 ]; then
  mkdir -p /verif/seeded/$NAME
  cp $SD/patch.diff /verif/seeded/$NAME/patch.diff; cp $SD/demo.rs /verif/seeded/$NAME/demo.rs
  python3 - "$SD/meta.json" "/verif/seeded/$NAME/meta.json" "$suite" "$wres" "$wores" "$FEAT" <<'PY'
import json,sys
src,dst,suite,wres,wores,feat=sys.argv[1:7]
try: m=json.load(open(src))
except Exception: m={}
m["confirmed_by_main"]={"lib_suite_with_patch":suite,"demo_with_patch":wres,"demo_without_patch":wores,
  "commands":["git apply patch.diff","cargo build --offline --features serde,ndarray-bindings,nalgebra-bindings","cargo test --offline --lib",
              f"cargo test --offline {('--features '+feat) if feat else ''} --test zz_demo (patched: fails; pristine: passes)"]}
json.dump(m,open(dst,"w"),indent=1)
PY
  echo "RESULT $NAME: CONFIRMED (suite: $suite | demo with: $wres | without: $wores)"
else
  echo "RESULT $NAME: NOT CONFIRMED with=$with without=$without ($wres | $wores)"; tail -15 $log
fi
rm -f $log
