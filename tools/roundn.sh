#!/bin/bash
# tools/roundn.sh <round> <Cxx> [features] : verify seeds of /tmp/seed<round>-<Cxx>/<k> and run the property's check on each
r=$1; id=$2; feat=${3:-}
cd /verif
for k in 1 2 3; do
  d=/tmp/seed$r-$id/$k; [ -f $d/patch.diff ] || continue
  n=$id-r$r-$k
  [ -d seeded/$n ] || tools/verify_seed.sh $d $n $feat 2>&1 | grep RESULT | cut -c1-100
  [ -d seeded/$n ] && { echo "--- $n"; tools/trypatch.sh seeded/$n/patch.diff $id | grep "^  rule\|^  found\|^\[\|PATCH" | cut -c1-260; }
done
