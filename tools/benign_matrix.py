#!/usr/bin/env python3
"""tools/benign_matrix.py [--register PREFIX dir ...] | [--all]
Run the checks of every property whose anchored files a behaviour-preserving patch touches; report false alarms.
--register PREFIX dir...: copy dir/<k>/patch.diff to controls/benign/PREFIX-k.diff and add it to INDEX.json first."""
import json, os, re, shutil, sys
sys.path.insert(0, os.path.dirname(os.path.dirname(os.path.abspath(__file__))))
from sa import controls
V = "/verif"
props = {}
for l in open(f"{V}/properties.jsonl"):
    p = json.loads(l)
    props[p["id"]] = set(p["anchors"]["files"])
claimed = {f[:-3] for f in os.listdir(f"{V}/props") if re.match(r"C\d+\.py", f)}
idxp = f"{V}/controls/benign/INDEX.json"
idx = json.load(open(idxp)) if os.path.exists(idxp) else {}
a = sys.argv[1:]
todo = []
if a and a[0] == "--register":
    prefix = a[1]
    for d in a[2:]:
        for k in sorted(os.listdir(d)):
            src = os.path.join(d, k, "patch.diff")
            if not os.path.exists(src):
                continue
            name = f"{prefix}-{k}.diff"
            shutil.copy(src, f"{V}/controls/benign/{name}")
            mp = os.path.join(d, k, "meta.json")
            if os.path.exists(mp):
                shutil.copy(mp, f"{V}/controls/benign/{name[:-5]}.meta.json")
            files = set(re.findall(r"^\+\+\+ b/(\S+)", open(src).read(), re.M))
            idx[name] = sorted(pid for pid, fs in props.items() if pid in claimed and fs & files)
            todo.append(name)
    json.dump(idx, open(idxp, "w"), indent=1)
else:
    todo = sorted(idx)
bad = 0
for name in todo:
    fired = []
    for pid in idx[name]:
        r = controls.run_patch(pid, f"{V}/controls/benign/{name}")
        if not r["applied"]:
            fired.append(f"{pid}:(does not apply)")
            break
        if r["exit"] != 0:
            fired.append(f"{pid}:{','.join(r['rules'])}")
    print(name, idx[name], "FALSE ALARM " + " ".join(fired) if fired else "silent", flush=True)
    bad += bool(fired)
print("false alarms:", bad, "of", len(todo))
