#!/usr/bin/env python3
"""Generate /verif/MANIFEST.json from the per-property modules (props/Cxx.py: LEVEL, CLAIM, NOTE, TECHNIQUE)
and the NOT_APPLICABLE table below. Validates against the schema when jsonschema is available."""
import importlib, json, os, sys
HERE = os.path.dirname(os.path.dirname(os.path.abspath(__file__)))
sys.path.insert(0, HERE)

NOT_APPLICABLE = {}
ALL = [f"C{i:02d}" for i in range(1, 21)]
TRUST = ("rustc's type checking, trait resolution and MIR construction; the transparent-call / transfer tables of the "
         "analysis library (sa/); decides only the clauses named in level_claimed.text, not the numerical behaviour")

checks, na = [], []
for pid in ALL:
    if pid in NOT_APPLICABLE:
        na.append(dict(property_id=pid, reason=NOT_APPLICABLE[pid]))
        continue
    path = os.path.join(HERE, "props", pid + ".py")
    if not os.path.exists(path):
        na.append(dict(property_id=pid, reason="no check registered yet (rule instances for this property are still being built; not claimed until they exist)"))
        continue
    m = importlib.import_module("props." + pid)
    checks.append(dict(
        property_id=pid,
        quick_cmd=f"./check {pid} --tier quick",
        thorough_cmd=f"./check {pid} --tier thorough",
        evidence_file=f"/verif/evidence/{pid}.json",
        replay_cmd_template=f"./check {pid} --replay {{path}}",
        engine="sa",
        level_claimed=dict(category=getattr(m, "LEVEL", "other"),
                           text=getattr(m, "CLAIM", m.EXPLANATION) + " Decides the clauses listed in DESIGN section 4 for this property, not its numerical behaviour.",
                           design_ref=f"DESIGN.md section 4, {pid}"),
        level_note=getattr(m, "NOTE", TRUST),
        technique=getattr(m, "TECHNIQUE", "static analysis of rustc MIR (custom rustc_private driver + rule engine): guard/post-dominance rules"),
    ))
man = dict(
    version=1,
    setup_cmd="./check --setup",
    hooks=dict(guard="smartcore_verif", enable="none needed: static analysis reads /repo as it is (no hooks, no instrumentation)",
               baseline_off_cmd="cd /repo && cargo test --offline --lib", source_commits=[], add_only=True),
    engines=[dict(name="sa", path="/verif/sa", serves_properties=[c["property_id"] for c in checks],
                  kind_free_text="rustc_private MIR/item-table fact extractor (driver/) + Python rule engines: guards/post-dominance (E1), "
                                 "provenance & information flow (E2), abstract interpretation (E3), scale homogeneity (E4), "
                                 "serde tables + type-level witness crate (E5), backend siblings (E6), dead-variant contradiction (E7)")],
    checks=checks,
    not_applicable=na,
    notes="Technique family: static analysis only. Every check re-extracts facts from /repo's current working tree "
          "(content-hashed cache) and never executes the analysed code. See DESIGN.md.",
)
out = os.path.join(HERE, "MANIFEST.json")
json.dump(man, open(out, "w"), indent=1)
try:
    import jsonschema
    jsonschema.validate(man, json.load(open("/root/.vp/MANIFEST.schema.json")))
    print("MANIFEST valid;", len(checks), "checks,", len(na), "not applicable")
except ImportError:
    print("MANIFEST written (jsonschema not available);", len(checks), "checks")
