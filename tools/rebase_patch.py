#!/usr/bin/env python3
"""tools/rebase_patch.py <old_tree> <new_tree> <patch> <out> [<keep_dir>]
Rebase a patch made against <old_tree> onto <new_tree> by a per-file three-way merge (git merge-file).
Prints CONFLICT <file> when the patch and the tree change overlap (then <out> is not written); with <keep_dir> the merged
tree (conflict markers in the files) is left there: resolve by hand, then `git -C <keep_dir> diff > <out>`."""
import os, shutil, subprocess, sys, tempfile, re
old, new, patch, out = sys.argv[1:5]
keep = sys.argv[5] if len(sys.argv) > 5 else None
W = tempfile.mkdtemp(prefix="rb-")
try:
    theirs = os.path.join(W, "theirs")
    subprocess.check_call(["rsync", "-a", "--exclude", "target", "--exclude", ".git", "--exclude", "tests", old.rstrip("/") + "/", theirs + "/"])
    subprocess.check_call(["git", "apply", "--whitespace=nowarn", os.path.abspath(patch)], cwd=theirs)
    merged = os.path.join(W, "merged")
    subprocess.check_call(["rsync", "-a", "--exclude", "target", "--exclude", ".git", "--exclude", "tests", new.rstrip("/") + "/", merged + "/"])
    subprocess.check_call(["git", "init", "-q", "."], cwd=merged)
    subprocess.check_call(["git", "add", "-A"], cwd=merged)
    subprocess.check_call(["git", "-c", "user.email=a@b", "-c", "user.name=x", "commit", "-qm", "new"], cwd=merged)
    files = set(re.findall(r"^\+\+\+ b/(\S+)", open(patch).read(), re.M)) | set(re.findall(r"^--- a/(\S+)", open(patch).read(), re.M))
    conflict = False
    for f in sorted(files):
        o, n, t = os.path.join(old, f), os.path.join(merged, f), os.path.join(theirs, f)
        if not os.path.exists(t):
            if os.path.exists(n):
                os.remove(n)
            continue
        if not os.path.exists(o):
            os.makedirs(os.path.dirname(n), exist_ok=True)
            shutil.copy(t, n)
            continue
        r = subprocess.run(["git", "merge-file", "-p", n, o, t], stdout=subprocess.PIPE)
        if r.returncode != 0:
            print("CONFLICT", f)
            conflict = True
            open(n, "wb").write(r.stdout)
        else:
            open(n, "wb").write(r.stdout)
    if conflict:
        if keep:
            shutil.rmtree(keep, ignore_errors=True)
            shutil.copytree(merged, keep, symlinks=True)
            print("KEPT", keep)
        sys.exit(2)
    d = subprocess.run(["git", "diff"], cwd=merged, stdout=subprocess.PIPE, text=True).stdout
    open(out, "w").write(d)
    print("OK", out, len(d.splitlines()))
finally:
    shutil.rmtree(W, ignore_errors=True)
