"""C20 backend agreement: shape contracts, sign sensitivity, layout, unimplemented methods (E6, E2d)."""
import re

from sa import siblings as sb
from sa.mir import AnchorError
from sa.prov import Resolver, render

LEVEL = "other"
EXPLANATION = (
    "E6 sibling rules over the ndarray and nalgebra implementations of BaseVector/BaseMatrix against the built-in "
    "reference: (1) shape contracts: every binary operation with a shape contract (dot, element-wise arithmetic, copy, "
    "matmul, stacking, reshape) either carries an explicit mismatch->panic guard on the right pair of dimensions or "
    "delegates to a library call listed in the library table as rejecting every mismatch; a call listed as broadcasting "
    "(ndarray `+=`, `&a - &b`, assign) without a dominating guard is a violation; approximate_eq must return false on a "
    "mismatch in all backends (not panic, not broadcast). (2) E2d: max/min/argmax/softmax_mut of every backend take no "
    "absolute value and start their reduction from -inf/+inf or a data element. (3) layout: flattening/reshaping must "
    "not reinterpret the memory buffer (into_shape, reshape_generic) - only order-insensitive uses (unique: sorted "
    "afterwards) and 1-D sources (from_row_vector) are exempt. (4) no trait method of a backend diverges on every path "
    "while its siblings return. The library table (sa/siblings.py, with the documentation line each entry encodes) is "
    "part of the trusted base. Numerical agreement of operations and estimators across backends is not decided."
)
TECHNIQUE = "static analysis of rustc MIR: sibling cross-check of the three backend impls with a library-semantics table (reject / broadcast / layout), guard rules, sign-sensitivity rule"
# the thorough tier re-evaluates a property in the default-feature configuration and compares verdicts; two of the three
# backends do not exist there, so the comparison is meaningless for this property (sibling rules would "disagree")
CONFIGS = []

BACKENDS = {"ndarray": "ndarray::ArrayBase", "nalgebra": "nalgebra::Matrix", "dense": "linalg::naive::dense_matrix::DenseMatrix<T>", "vec": "std::vec::Vec<T>"}


def impl_body(prog, trait, backend, method):
    out = [b for b in prog.bodies.values() if b.impl_trait == "linalg::" + trait and b.name == method and b.kind != "Closure"
           and (b.impl_self or "").startswith(BACKENDS[backend])]
    return out[0] if len(out) == 1 else None


def run(ck, prog):
    # ---- (1) shape contracts
    rule = "E6-contract"
    for backend in ("ndarray", "nalgebra"):
        for trait, table in (("BaseMatrix", sb.MATRIX_CONTRACT), ("BaseVector", sb.VECTOR_CONTRACT)):
            for m, pairs in sorted(table.items()):
                inst = f"{backend} {trait}::{m} rejects a shape mismatch"
                b = impl_body(prog, trait, backend, m)
                if not b:
                    ck.violation(rule, inst, f"{backend}:{trait}::{m}", "", expected="impl exists", found="anchor vanished")
                    continue
                ok, how, detail = sb.classify_contract(prog, b, pairs, "panic")
                if ok:
                    ck.ok(rule, inst, b.path, f"{b.loc[0]}:{b.loc[1]}", f"{how}: {detail}")
                else:
                    ck.violation(rule, inst, b.path, f"{b.loc[0]}:{b.loc[1]}",
                                 expected="operands of incompatible shape are rejected (panic), as the built-in backend does", found=detail)
            # approximate_eq -> false
            inst = f"{backend} {trait}::approximate_eq returns false on a shape mismatch"
            b = impl_body(prog, trait, backend, "approximate_eq")
            if not b:
                ck.violation(rule, inst, f"{backend}:{trait}::approximate_eq", "", expected="impl exists", found="anchor vanished")
            else:
                pairs = "same" if trait == "BaseMatrix" else [(sb.LEN(1), sb.LEN(2))]
                ok, how, detail = sb.classify_contract(prog, b, pairs, "false")
                if ok:
                    ck.ok(rule, inst, b.path, f"{b.loc[0]}:{b.loc[1]}", f"{how}: {detail}")
                else:
                    ck.violation(rule, inst, b.path, f"{b.loc[0]}:{b.loc[1]}",
                                 expected="equality tests on operands of incompatible shape return false (built-in backend: false)", found=detail)
    ck.floor(rule, 36)
    # ---- (2) sign sensitivity
    rule = "E2d-sign"
    for backend in ("dense", "ndarray", "nalgebra"):
        for m in ("max", "min", "argmax", "softmax_mut"):
            inst = f"{backend} BaseMatrix::{m} does not depend on the sign of the data"
            b = impl_body(prog, "BaseMatrix", backend, m)
            if not b:
                ck.violation(rule, inst, f"{backend}:BaseMatrix::{m}", "", expected="impl exists", found="anchor vanished")
                continue
            probs = sb.sign_rule(prog, b, "softmax" if m == "softmax_mut" else m)
            if probs:
                ck.violation(rule, inst, b.path, f"{b.loc[0]}:{b.loc[1]}",
                             expected="no absolute value in the reduction/shift; fold starts from -inf/+inf or a data element", found="; ".join(probs))
            else:
                ck.ok(rule, inst, b.path, f"{b.loc[0]}:{b.loc[1]}", "no abs; identity start value")
    ck.floor(rule, 12)
    # ---- (2b) argmax tie-breaking agrees across the backends
    rule2 = "E6-sibling"
    inst = "argmax breaks ties the same way in all three backends"
    classes = {}
    for backend in ("dense", "ndarray", "nalgebra"):
        b = impl_body(prog, "BaseMatrix", backend, "argmax")
        classes[backend] = sb.argmax_tie_class(prog, b) if b else None
    if None in classes.values():
        ck.violation(rule2, inst, "BaseMatrix::argmax", "", expected="a recognised argmax idiom in every backend", found=f"{classes}")
    elif len(set(classes.values())) != 1:
        ck.violation(rule2, inst, "BaseMatrix::argmax", "", expected="the same maximal column wins on ties in every backend",
                     found=f"tie-breaking differs: {classes} (first = lowest column index among equal maxima)")
    else:
        ck.ok(rule2, inst, "BaseMatrix::argmax", "", f"{classes}")
    # ---- (2c) dot does not depend on the orientation of its vector operands
    inst0 = "BaseMatrix::dot is an element-wise inner product (orientation-free)"
    for backend in ("dense", "ndarray", "nalgebra"):
        b = impl_body(prog, "BaseMatrix", backend, "dot")
        inst = f"{backend} {inst0}"
        if not b:
            ck.violation(rule2, inst, f"{backend}:BaseMatrix::dot", "", expected="impl exists", found="anchor vanished")
            continue
        cls, how = sb.dot_orientation(prog, b)
        if cls == "elementwise":
            ck.ok(rule2, inst, b.path, f"{b.loc[0]}:{b.loc[1]}", how)
        else:
            ck.violation(rule2, inst, b.path, f"{b.loc[0]}:{b.loc[1]}", expected="sum over all corresponding elements, as in the built-in backend (row or column vectors alike)",
                         found=f"{cls}: `{how}` - for column vectors the picked entry is a_0*b_0, not the inner product")
    ck.floor(rule2, 4)
    # ---- (3) layout
    rule = "E6-layout"
    EXEMPT = {"unique": "result is sorted afterwards (order-insensitive)", "from_row_vector": "the source is one-dimensional"}
    for backend in ("ndarray", "nalgebra"):
        for trait, methods in (("BaseMatrix", ("to_row_vector", "reshape", "from_row_vector", "unique")), ("BaseVector", ("unique",))):
            for m in methods:
                inst = f"{backend} {trait}::{m} does not reinterpret the memory buffer"
                b = impl_body(prog, trait, backend, m)
                if not b:
                    ck.violation(rule, inst, f"{backend}:{trait}::{m}", "", expected="impl exists", found="anchor vanished")
                    continue
                lay = [(bb, f, lc) for (bb, f, lc, _) in sb.binary_lib_calls(b) if lc[0] == "LAYOUT"]
                if not lay:
                    ck.ok(rule, inst, b.path, f"{b.loc[0]}:{b.loc[1]}", "no buffer-reinterpreting library call")
                for bb, f, lc in lay:
                    if m in EXEMPT:
                        ck.ok(rule, inst, b.path, b.where(bb), f"{f['path'].split('::')[-1]} - exempt: {EXEMPT[m]}")
                    else:
                        ck.violation(rule, inst, b.path, b.where(bb),
                                     expected="flattening/reshaping follows the logical row-major order regardless of memory layout",
                                     found=f"{f['path'].split('::')[-1]}: {lc[1]}")
    ck.floor(rule, 10)
    # any other backend method that touches the raw buffer
    listed = {"to_row_vector", "reshape", "from_row_vector", "unique"}
    for backend in ("ndarray", "nalgebra"):
        for b in sorted(prog.bodies.values(), key=lambda b: b.path):
            if b.impl_trait in ("linalg::BaseMatrix", "linalg::BaseVector") and b.kind != "Closure" and b.name not in listed \
                    and (b.impl_self or "").startswith(BACKENDS[backend]):
                for bb, f, lc, _ in sb.binary_lib_calls(b):
                    if lc[0] == "LAYOUT":
                        ck.violation(rule, f"{backend} {b.impl_trait.split('::')[-1]}::{b.name} does not reinterpret the memory buffer", b.path, b.where(bb),
                                     expected="results follow the logical view regardless of memory layout",
                                     found=f"{f['path'].split('::')[-1]}: {lc[1]}")
    # ---- (3b) norms depend on the data only through |x|
    rule3 = "E2d-norm"
    for backend, traits in (("dense", ("BaseMatrix",)), ("vec", ("BaseVector",)), ("ndarray", ("BaseMatrix", "BaseVector")), ("nalgebra", ("BaseMatrix", "BaseVector"))):
        for trait in traits:
            inst = f"{backend} {trait}::norm takes |x| of every element"
            b = impl_body(prog, trait, backend, "norm")
            if not b:
                ck.violation(rule3, inst, f"{backend}:{trait}::norm", "", expected="impl exists", found="anchor vanished")
                continue
            probs = sb.norm_sign_rule(prog, b)
            if probs:
                ck.violation(rule3, inst, b.path, f"{b.loc[0]}:{b.loc[1]}", expected="every element reaches the norm accumulators through abs()", found="; ".join(probs))
            else:
                ck.ok(rule3, inst, b.path, f"{b.loc[0]}:{b.loc[1]}", "3 accumulation sites, all through abs()")
    ck.floor(rule3, 6)
    # ---- (4) unconditional panic
    rule = "E6-unimplemented"
    n = 0
    for backend in ("ndarray", "nalgebra"):
        for b in sorted(prog.bodies.values(), key=lambda b: b.path):
            if b.impl_trait in ("linalg::BaseMatrix", "linalg::BaseVector") and b.kind != "Closure" and (b.impl_self or "").startswith(BACKENDS[backend]):
                n += 1
                inst = f"{backend} {b.impl_trait.split('::')[-1]}::{b.name} can return"
                if not b.returns:
                    ck.violation(rule, inst, b.path, f"{b.loc[0]}:{b.loc[1]}", expected="the method is implemented (its siblings return)",
                                 found="the body diverges (panics) on every path")
                else:
                    ck.ok(rule, inst, b.path, f"{b.loc[0]}:{b.loc[1]}", "")
    ck.floor(rule, 144)


# ------------------------------------------------------------------ default ab(): the four arms are op(A)*op(B)
_run_pre_ab = run


def _norm_product(t):
    """normal form of a term built from matmul / transpose over the two arguments: list of (arg, transposed) factors;
    (XY)^T = Y^T X^T, (X^T)^T = X.  None when the term has another shape."""
    if t[0] == "arg":
        return [(t[1], False)]
    if t[0] == "call" and t[1].endswith("::transpose") and len(t[2]) == 1:
        inner = _norm_product(t[2][0])
        if inner is None:
            return None
        return [(a, not tr) for (a, tr) in reversed(inner)]
    if t[0] == "call" and t[1].endswith("::matmul") and len(t[2]) == 2:
        x, y = _norm_product(t[2][0]), _norm_product(t[2][1])
        if x is None or y is None:
            return None
        return x + y
    return None


def default_ab_algebra(ck, prog):
    """HighOrderOperations::ab (the default both bindings inherit): under each of the four flag settings the returned term,
    normalised with (XY)^T = Y^T X^T and (X^T)^T = X, is op_a(self) * op_b(b). Exact symbolic identity, no numerics."""
    from sa.prov import Resolver, render
    rule, inst0 = "E6-algebra", "default HighOrderOperations::ab"
    b = prog.bodies.get("linalg::high_order::HighOrderOperations::ab")
    if b is None:
        ck.violation(rule, inst0, "linalg::high_order::HighOrderOperations::ab", "", expected="anchor exists", found="anchor vanished")
        return
    res = Resolver(b)
    sw = []
    for i, blk in enumerate(b.blocks):
        t = blk["term"]
        if blk["cleanup"] or i not in b.reach or t["k"] != "switch" or t["o"]["k"] not in ("copy", "move"):
            continue
        term = res.operand(t["o"])
        if term[0] == "arg" and term[1] in (2, 4) and len(t["targets"]) == 1 and t["targets"][0][0] == "0":
            sw.append((i, term[1], t["targets"][0][1], t["otherwise"]))       # (bb, flag arg, false dst, true dst)
    defs = [d for d in b.defs.get(0, []) if d.kind in ("call", "assign")]
    for at in (False, True):
        for bt in (False, True):
            inst = f"{inst0}(a_transpose={str(at).lower()}, b_transpose={str(bt).lower()}) = {'A^T' if at else 'A'} * {'B^T' if bt else 'B'}"
            cut = set()
            for (bb, flag, fdst, tdst) in sw:
                val = at if flag == 2 else bt
                cut.add((bb, fdst) if val else (bb, tdst))
            reach = b.reachable_from([0], cut_edges=frozenset(cut))
            live = [d for d in defs if d.bb in reach]
            want = [(1, at), (3, bt)]
            if len(live) != 1:
                ck.violation(rule, inst, b.path, f"{b.loc[0]}:{b.loc[1]}", expected="exactly one arm assigns the result under these flags",
                             found=f"{len(live)} reachable result definitions (flags not decided by switches on the two flag arguments)")
                continue
            term = res.from_def(live[0], 1, ())
            nf = _norm_product(term)
            where = b.where(live[0].bb)
            if nf == want:
                ck.ok(rule, inst, b.path, where, f"`{render(term)}` normalises to {nf}")
            elif nf is None:
                # not a matmul/transpose term over the two operands (helper, explicit loops): outside this rule
                ck.note(f"{inst}: result `{render(term)[:80]}` is not a matmul/transpose term: not decided by E6-algebra")
            else:
                ck.violation(rule, inst, b.path, where, expected=f"a term equal to {want} (argument, transposed) under (XY)^T = Y^T X^T",
                             found=f"`{render(term)}` normalises to {nf}")


def run(ck, prog):
    _run_pre_ab(ck, prog)
    default_ab_algebra(ck, prog)


# ------------------------------------------------------------------ generic: rows/cols (outer/inner) mix-up of locally allocated buffers
_run_pre_dimension = run
DIMENSION_FILES = ['src/linalg/mod.rs', 'src/linalg/naive/dense_matrix.rs', 'src/linalg/nalgebra_bindings.rs', 'src/linalg/ndarray_bindings.rs']


def run(ck, prog):
    _run_pre_dimension(ck, prog)
    from sa import dimension
    dimension.run_rule(ck, prog, set(DIMENSION_FILES))


# ------------------------------------------------------------------ generic: signed counters are not cast to unsigned on their negative side
_run_pre_negcast = run


def run(ck, prog):
    _run_pre_negcast(ck, prog)
    from sa import negcast
    negcast.run_rule(ck, prog, set(DIMENSION_FILES))


# ------------------------------------------------------------------ dot / max_diff: the same shape contract on every backend
_run_pre_dotgate = run
BACKEND_DOT = [
    ("dense", r"^<linalg::naive::dense_matrix::DenseMatrix<T> as linalg::BaseMatrix<T>>::dot$"),
    ("ndarray", r"^linalg::ndarray_bindings::<impl linalg::BaseMatrix<T> for ndarray::ArrayBase<ndarray::OwnedRepr<T>, ndarray::Dim<\[usize; 2\]>>>::dot$"),
    ("nalgebra", r"^linalg::nalgebra_bindings::<impl linalg::BaseMatrix<T> for nalgebra::Matrix<T, nalgebra::Dynamic, nalgebra::Dynamic, nalgebra::VecStorage<T, nalgebra::Dynamic, nalgebra::Dynamic>>>::dot$"),
]


def dot_gate_all_backends(ck, prog):
    """'shape mismatches are handled the same way by all backends': BaseMatrix::dot is the inner product of two row/column
    vectors; on every backend a return is reachable exactly when each operand has a unit dimension (truth table over the four
    unit-dimension tests, as for the built-in type in C03)."""
    from sa.siblings import dot_vector_gate
    rule = "E6-contract"
    for nm, rx in BACKEND_DOT:
        inst = f"{nm} BaseMatrix::dot rejects an operand that is not a row or column vector"
        bs = prog.find(rx)
        if len(bs) != 1:
            ck.violation(rule, inst, rx, "", expected="anchor exists", found=f"{len(bs)} bodies")
            continue
        b = bs[0]
        n, bad = dot_vector_gate(b, prog)
        site = f"{b.loc[0]}:{b.loc[1]}"
        if bad:
            ck.violation(rule, inst, b.path, site, expected="a return is reachable iff each operand has a unit dimension (as on the built-in backend)",
                         found=f"{'; '.join(bad[:6])} ({n} unit-dimension tests)")
        else:
            ck.ok(rule, inst, b.path, site, f"16 assignments, {n} unit-dimension tests: rejected exactly when an operand is a proper matrix")


def run(ck, prog):
    _run_pre_dotgate(ck, prog)
    dot_gate_all_backends(ck, prog)


_run_pre_maxdiff = run


def max_diff_contract(ck, prog):
    """max_diff is overridden on all three backends with hand-written loops; the trait default (sub().abs().max()) rejects a
    shape mismatch, and so must every override - otherwise the built-in type compares raw buffers while the bindings index
    out of bounds or silently ignore the extra rows."""
    from sa import e1
    from sa.e1 import G, NE, EQ
    from sa.match import Dim
    specs = []
    for nm, rx in BACKEND_DOT:
        fn = rx.replace("::dot$", "::max_diff$")
        specs.append(G(f"{nm} max_diff: rows(self)!=rows(other)->panic", fn, Dim("rows", 1), Dim("rows", 2), NE, EQ, "panic", rule="E6-contract"))
        specs.append(G(f"{nm} max_diff: cols(self)!=cols(other)->panic", fn, Dim("cols", 1), Dim("cols", 2), NE, EQ, "panic", rule="E6-contract"))
    e1.run(ck, prog, specs)


def run(ck, prog):
    _run_pre_maxdiff(ck, prog)
    max_diff_contract(ck, prog)


EXPLANATION += (' dot: the four unit-dimension tests form the same truth table on every backend; max_diff rejects a shape mismatch on every backend (found and fixed).')


# ------------------------------------------------------------------ generic: `while counter < bound` loops advance their counter
_run_pre_progress = run


def run(ck, prog):
    _run_pre_progress(ck, prog)
    from sa import progress
    progress.run_rule(ck, prog, set(DIMENSION_FILES))


# ------------------------------------------------------------------ the reference backend keeps its own shape contracts
_run_pre_dense = run


def dense_contracts(ck, prog):
    """'shape mismatches are handled the same way by all backends': the bindings' contracts above are stated relative to the
    built-in type, so the built-in type's own guards (the C03 contract table) are part of this property as well - a
    DenseMatrix method that stops rejecting a mismatch makes the three backends disagree."""
    from sa import e1
    from props import C03
    import copy
    specs = []
    for g in C03.SPECS:
        g2 = copy.copy(g)
        g2.rule = "E6-contract"
        g2.name = "dense " + g.name
        specs.append(g2)
    e1.run(ck, prog, specs)


def run(ck, prog):
    _run_pre_dense(ck, prog)
    dense_contracts(ck, prog)


EXPLANATION += (" The built-in type's own shape contracts (C03's table) are evaluated here as the reference side of 'handled the same way by all backends'.")


# ------------------------------------------------------------------ generic: no magnitude is compared with a signed raw element
_run_pre_magnitude = run


def run(ck, prog):
    _run_pre_magnitude(ck, prog)
    from sa import magnitude
    magnitude.run_rule(ck, prog, set(DIMENSION_FILES))


# ------------------------------------------------------------------ generic: backward strided scans (`j -= step`) continue exactly while j >= step
_run_pre_subguard = run


def run(ck, prog):
    _run_pre_subguard(ck, prog)
    from sa import subguard
    subguard.run_rule(ck, prog, set(DIMENSION_FILES))


# ------------------------------------------------------------------ generic: a configuration field read on one successful path is read on every successful path
_run_pre_config = run


def run(ck, prog):
    _run_pre_config(ck, prog)
    from sa import config
    config.run_rule(ck, prog, set(DIMENSION_FILES))


# ------------------------------------------------------------------ generic: the value tested against a bound is the value set to the bound (clamps)
_run_pre_clamp = run


def run(ck, prog):
    _run_pre_clamp(ck, prog)
    from sa import clamp
    clamp.run_rule(ck, prog, set(DIMENSION_FILES))


# ------------------------------------------------------------------ generic: an index variable of one range addresses one buffer with one stride
_run_pre_stride = run


def run(ck, prog):
    _run_pre_stride(ck, prog)
    from sa import stride
    stride.run_rule(ck, prog, set(DIMENSION_FILES))



# ------------------------------------------------------------------ the reference backend's flattening follows the logical order (C03's storage-map rule)
_run_pre_storagemap = run


def run(ck, prog):
    _run_pre_storagemap(ck, prog)
    # 'flattening and reshaping follow the logical row-major order regardless of the backend's memory layout': for the built-in
    # type this is C03's rule that no method hands out / reuses the column-major buffer as a flattened or re-shaped view
    from props import C03
    C03.storage_map(ck, prog)


EXPLANATION += " The built-in type's storage-map rule (C03) is evaluated here too: no method hands out the column-major buffer as a flattened view."
