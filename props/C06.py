"""C06 random forests: seed reproducibility (E2b), OOB membership (E2h), label decoding (E2a)."""
from sa import flow, guards
from sa.mir import AnchorError
from sa.prov import Resolver, render, subterms
from props.C09 import decode_rule, classes_from_unique

LEVEL = "other"
EXPLANATION = (
    "(a) E2b determinism: from RandomForestClassifier::fit / RandomForestRegressor::fit every RNG draw reachable in "
    "the call graph (sample_with_replacement, fit_weak_learner -> find_best_cutoff/split) uses the one local "
    "initialised by StdRng::seed_from_u64(parameters.seed); no ambient source (thread_rng, from_entropy, random, clock, "
    "RealNumber::rand) and no HashMap/HashSet order iteration is reachable - the fitted forest is a function of "
    "(x, y, parameters). (b) E2h: in both predict_for_row_oob the use of a tree's prediction is dominated by the "
    "false edge of that tree's own in-bag mask at the row (mask zipped with the tree). (c) E2a: classifier predict and "
    "predict_oob store elements of self.classes; classes = unique(y). Vote/mean arithmetic, stratification, range of "
    "regressor predictions and tree count are not decided."
)
TECHNIQUE = "static analysis of rustc MIR: call-graph reachability of RNG draws with provenance of the RNG operand; dominance by the in-bag mask; label provenance"

ROOTS = {
    "classifier": "ensemble::random_forest_classifier::RandomForestClassifier::<T>::fit",
    "regressor": "ensemble::random_forest_regressor::RandomForestRegressor::<T>::fit",
}


def determinism(ck, prog, cg, rf):
    rule = "E2b-seeded"
    for nm, root in ROOTS.items():
        inst = f"{nm}: every reachable draw uses StdRng::seed_from_u64(parameters.seed)"
        if root not in prog.bodies:
            ck.violation(rule, inst, root, "", expected="anchor exists", found="anchor vanished")
            continue
        reach = cg.reachable([root])
        srcs = rf.rng_sources_at_root(root)
        seeded = 0
        for s in srcs:
            k = s["kind"]
            is_seed = isinstance(k, tuple) and k[0] == "seeded" and k[1] is not None and \
                k[1][0] == "field" and k[1][2] == "seed" and k[1][1][0] == "arg"
            if is_seed:
                seeded += 1
                ck.ok(rule, inst, s["fn"], s["where"], f"{s['callee'].split('::')[-1]} <- {s['term']}")
            else:
                ck.violation(rule, inst, s["fn"], s["where"], ordinal=s["callee"].split("::")[-1],
                             expected="the RNG handed to every drawing callee is the local seeded from parameters.seed",
                             found=f"{s['callee']} draws from `{s['term']}` ({k})", path=cg.path_to(root, s["fn"]))
        if seeded < 2:
            ck.violation(rule, inst, root, "", expected=">= 2 seeded RNG hand-offs (bootstrap sampling, weak learner)", found=f"{seeded}")
        # no ambient source or hash-order iteration reachable
        inst2 = f"{nm}: no ambient nondeterminism reachable from fit"
        amb = [(f, prog.bodies[f].where(bb), p) for f in sorted(reach) for (bb, p) in rf.ambient_sites.get(f, [])]
        hsh = flow.hash_order_iterations(prog, sorted(reach))
        if amb or hsh:
            for (f, w, p) in amb + hsh:
                ck.violation(rule, inst2, f, w, ordinal=p.split("::")[-1], expected="no ambient RNG / clock / hash-order iteration reachable",
                             found=f"{p} reachable", path=cg.path_to(root, f))
        else:
            ck.ok(rule, inst2, root, f"{prog.bodies[root].loc[0]}:{prog.bodies[root].loc[1]}", f"{len(reach)} functions reachable, none touches an ambient source")
        # the number of draws must not be zero (rule would be vacuous)
        nd = sum(len(rf.draws.get(f, [])) for f in reach)
        ck.extra.setdefault("reachable", {})[nm] = dict(functions=len(reach), draw_sites=nd)
        if nd < 2:
            ck.violation(rule, inst, root, "", expected=">= 2 draw sites reachable (bootstrap, feature shuffle)", found=f"{nd}")


def oob_polarity(ck, prog):
    rule = "E2h-oob"
    for nm, fn in (("classifier", r"^ensemble::random_forest_classifier::RandomForestClassifier::<T>::predict_for_row_oob$"),
                   ("regressor", r"^ensemble::random_forest_regressor::RandomForestRegressor::<T>::predict_for_row_oob$")):
        inst = f"{nm}: a tree votes on row i only if its own bootstrap mask at i is false"
        try:
            b = prog.one(fn)
        except AnchorError as e:
            ck.violation(rule, inst, fn, "", expected="anchor exists", found=f"anchor vanished: {e}")
            continue
        res = Resolver(b)
        preds = [(bb, t) for bb, t in b.calls() if t.get("f") and t["f"]["path"].endswith("::predict_for_row")]
        sws = guards.bool_switches(b, res)
        masks = []
        for (sb, term, tb, fb) in sws:
            # mask[row] where mask is component 1 of a zip item and row is the row argument
            if term[0] == "idx" and term[2][0] == "arg" and term[2][1] == 3 and term[1][0] == "field" and term[1][2] == "1":
                masks.append((sb, term, tb, fb))
        problems = []
        in_closure = None
        if not preds and not masks:
            # filter + fold / map / for_each form: the prediction sits in the closure consumed by an adaptor whose receiver is
            # zip(trees, samples).filter(|(_, m)| !m[row])
            stack = list(prog.closures_of.get(b.path, []))
            while stack and in_closure is None:
                c = stack.pop()
                stack.extend(prog.closures_of.get(c.path, []))
                cp = [(bb, t) for bb, t in c.calls() if t.get("f") and t["f"]["path"].endswith("::predict_for_row")]
                if len(cp) != 1:
                    continue
                for bb, t in b.calls():
                    args = [res.operand(a) for a in t["args"]]
                    if any(a[0] == "agg" and a[1] == "closure:" + c.path for a in args) and args:
                        ctree = Resolver(c).operand(cp[0][1]["args"][0])
                        in_closure = (bb, args[0], ctree)
        if in_closure is not None or (len(preds) == 1 and not masks):
            # filter form: zip(trees, samples).filter(|(_, m)| !m[row]) and the loop predicts with item.0
            from sa.prov import subst_upvars
            if in_closure is not None:
                pb, recv, ctree = in_closure
                tree = ("field", recv, "0") if (ctree[0] == "field" and ctree[2] == "0" and ctree[1][0] == "arg" and ctree[1][1] >= 2) else ctree
            else:
                pb, pt = preds[0]
                tree = res.operand(pt["args"][0])
            fl = [s for s in subterms(tree) if s[0] == "call" and s[1].endswith("Iterator::filter") and len(s[2]) == 2]
            okf = False
            why = "no mask test found (neither a branch nor a filter on the zipped iterator)"
            if fl:
                src, clo = fl[0][2]
                cb = prog.get(clo[1][len("closure:"):]) if clo[0] == "agg" and clo[1].startswith("closure:") else None
                cr = Resolver(cb).local(0) if cb else None
                neg = False
                while cr is not None and cr[0] == "un" and cr[1] == "Not":
                    neg = not neg
                    cr = cr[2]
                zipped = any(s[0] == "call" and s[1].endswith("Iterator::zip") for s in subterms(src)) and \
                    any(s[0] == "field" and s[2] == "trees" for s in subterms(src)) and any(s[0] == "field" and s[2] == "samples" for s in subterms(src))
                if cr is not None and cr[0] == "idx" and cr[1][0] == "field" and cr[1][2] == "1" and cr[1][1][0] == "arg":
                    rowv = subst_upvars(prog, cb, cr[2])
                    row_ok = rowv[0] == "arg" and rowv[1] == 3
                    tree_ok = tree[0] == "field" and tree[2] == "0"
                    if neg and zipped and row_ok and tree_ok:
                        okf = True
                    else:
                        why = f"filter keeps mask {'false' if neg else 'TRUE'} items; zipped={zipped}, row={row_ok}, tree component 0={tree_ok}"
                else:
                    why = f"filter predicate `{render(cr)[:60] if cr else None}` is not mask[row]"
            if okf:
                ck.ok(rule, inst, b.path, b.where(pb), "zip(trees, samples).filter(|(_, m)| !m[row]); predicts with item.0")
            else:
                ck.violation(rule, inst, b.path, f"{b.loc[0]}:{b.loc[1]}", expected="prediction under !mask[row], mask and tree from the same zip item", found=why)
            continue
        if len(preds) != 1:
            problems.append(f"expected one tree prediction, found {len(preds)}")
        if len(masks) != 1:
            problems.append(f"expected one test of mask[row], found {len(masks)}")
        if not problems:
            pb, pt = preds[0]
            sb, term, tb, fb = masks[0]
            tree = res.operand(pt["args"][0])
            row = res.operand(pt["args"][-1])
            item = term[1][1]
            zipped = any(s[0] == "call" and s[1].endswith("Iterator::zip") for s in subterms(item))
            trees_ok = any(s[0] == "field" and s[2] == "trees" for s in subterms(item))
            samples_ok = any(s[0] == "field" and s[2] == "samples" for s in subterms(item))
            if not (tree[0] == "field" and tree[2] == "0" and tree[1] == item):
                problems.append(f"the predicting tree `{render(tree)[:80]}` is not component 0 of the item whose component 1 is the tested mask")
            if not (zipped and trees_ok and samples_ok):
                problems.append("the item is not drawn from zip(self.trees, self.samples)")
            if not (row[0] == "arg" and row[1] == 3):
                problems.append("the prediction is not for the same row")
            if not (b.dominates(fb, pb) and not b.dominates(tb, pb)):
                problems.append("the tree's prediction is not dominated by the mask-false (out-of-bag) edge")
        if problems:
            ck.violation(rule, inst, b.path, f"{b.loc[0]}:{b.loc[1]}", expected="prediction under !mask[row], mask and tree from the same zip item", found="; ".join(problems))
        else:
            ck.ok(rule, inst, b.path, b.where(masks[0][0]), f"mask = {render(masks[0][1])[:90]}")


def run(ck, prog):
    cg = flow.CallGraph(prog)
    rf = flow.RngFlow(prog, cg)
    ck.extra["call_graph"] = dict(nodes=len(prog.bodies), edges=sum(len(v) for v in cg.edges.values()))
    determinism(ck, prog, cg, rf)
    oob_polarity(ck, prog)
    P = r"^ensemble::random_forest_classifier::RandomForestClassifier::<T>::"
    decode_rule(ck, prog, P + "predict$", "RandomForestClassifier::predict stores classes[..]", 1)
    decode_rule(ck, prog, P + "predict_oob$", "RandomForestClassifier::predict_oob stores classes[..]", 1)
    classes_from_unique(ck, prog, P + "fit$", "RandomForestClassifier::fit: classes = unique(y)", "RandomForestClassifier")
    ck.floor("E2b-seeded", 6)
    ck.floor("E2h-oob", 2)
    ck.floor("E2a-label-decode", 2)
    ck.floor("E2a-label-table", 1)


def mask_provenance(ck, prog):
    """the in-bag mask kept for a tree is `count != 0` over the very bootstrap sample that tree is fitted on"""
    rule = "E2h-mask"
    from sa import guards as G
    for nm, root in ROOTS.items():
        inst = f"{nm}: stored mask = (bootstrap count != 0) of the sample given to that tree"
        b = prog.bodies.get(root)
        if not b:
            ck.violation(rule, inst, root, "", expected="anchor exists", found="anchor vanished")
            continue
        res = Resolver(b)
        fwl = [(bb, t) for bb, t in b.calls() if t.get("f") and t["f"]["path"].endswith("::fit_weak_learner")]
        pushes = [(bb, t) for bb, t in b.calls() if t.get("f") and t["f"]["path"].endswith("Vec::<T, A>::push")]
        maskpush = None
        for bb, t in pushes:
            v = res.operand(t["args"][1])
            clos = [s for s in subterms(v) if s[0] == "agg" and s[1].startswith("closure:")]
            if clos and v[0] == "call" and v[1].endswith(("Iterator::collect",)) and any(s[0] == "call" and s[1].endswith("Iterator::map") for s in subterms(v)):
                maskpush = (bb, v, clos[0])
        problems = []
        if len(fwl) != 1:
            problems.append(f"expected one fit_weak_learner call, found {len(fwl)}")
        if not maskpush:
            problems.append("no push of a mapped mask found")
        if not problems:
            sample_term = res.operand(fwl[0][1]["args"][2])
            bb, v, clo = maskpush
            maps = [s for s in subterms(v) if s[0] == "call" and s[1].endswith("Iterator::map")]

            def pred_of(m):
                c_ = m[2][1]
                cb_ = prog.get(c_[1][len("closure:"):]) if c_[0] == "agg" and c_[1].startswith("closure:") else None
                return G._cond(None, Resolver(cb_).local(0)) if cb_ else None
            # the map whose closure is a comparison (the mask predicate), not e.g. the label-index map
            maps = sorted(maps, key=lambda m: 0 if pred_of(m) else 1)
            src = maps[0][2][0]
            clo = maps[0][2][1]
            while src[0] == "call" and src[1].endswith(("::iter", "::into_iter", "::deref")) and len(src[2]) == 1:
                src = src[2][0]
            st = sample_term
            strip = lambda t: [a for a in (t[2] if t[0] == "phi" else (t,)) if not (a[0] == "call" and a[1].startswith("mut:"))]
            if strip(src) != strip(st):
                problems.append(f"mask is computed from `{render(src)[:80]}` but the tree is fitted on `{render(st)[:80]}`")
            cb = prog.get(clo[1][len("closure:"):]) if clo[0] == "agg" and clo[1].startswith("closure:") else None
            cr = Resolver(cb).local(0) if cb else None
            c = G._cond(None, cr) if cr else None
            if not (c and c[1] == "!=" and (c[2] == ("int", 0) or c[0] == ("int", 0))):
                problems.append(f"mask predicate is `{render(cr)[:80] if cr else None}`, expected count != 0")
        if problems:
            ck.violation(rule, inst, b.path, f"{b.loc[0]}:{b.loc[1]}", expected="mask_i = sample_i != 0 for the sample passed to fit_weak_learner", found="; ".join(problems))
        else:
            ck.ok(rule, inst, b.path, b.where(maskpush[0]), render(maskpush[1])[:120])


_run0 = run


def run(ck, prog):
    _run0(ck, prog)
    mask_provenance(ck, prog)
    ck.floor("E2h-mask", 2)


def _tree_loop_exit(b, res):
    """(switch block, body edge dst, exhausted edge dst) of the loop iterating self.trees"""
    for i, blk in enumerate(b.blocks):
        t = blk["term"]
        if blk["cleanup"] or i not in b.reach or t["k"] != "switch" or t["o"]["k"] not in ("copy", "move"):
            continue
        term = res.operand(t["o"])
        if term[0] == "discr" and term[1][0] == "call" and term[1][1].endswith("Iterator::next") \
                and any(s[0] == "field" and s[2] == "trees" for s in subterms(term)):
            some = [d for v, d in t["targets"] if v == "1"]
            none = [d for v, d in t["targets"] if v == "0"]
            if some and none:
                return i, some[0], none[0]
    return None


def aggregates_all_trees(ck, prog):
    """the forest's answer for a row is formed after the loop over ALL member trees: no return from inside the loop"""
    rule = "E2h-aggregate"
    from sa import guards as G
    for nm, base in (("classifier", "ensemble::random_forest_classifier::RandomForestClassifier::<T>::"),
                     ("regressor", "ensemble::random_forest_regressor::RandomForestRegressor::<T>::")):
        for fn in ("predict_for_row", "predict_for_row_oob"):
            inst = f"{nm} {fn}: the result is formed after all member trees have been visited"
            b = prog.bodies.get(base + fn)
            if not b:
                ck.violation(rule, inst, base + fn, "", expected="anchor exists", found="anchor vanished")
                continue
            res = Resolver(b)
            lp = _tree_loop_exit(b, res)
            if not lp:
                # iterator form: self.trees.iter()...{fold|sum|for_each|count|product}(..) consumes every tree unless the chain
                # contains a truncating adaptor
                from sa.prov import subterms as _st
                full, trunc = [], []
                for bb, t in b.calls():
                    f = t.get("f")
                    if not (f and f["path"].endswith(("Iterator::fold", "Iterator::sum", "Iterator::for_each", "Iterator::count",
                                                      "Iterator::product", "Iterator::collect"))) or not t["args"]:
                        continue
                    recv = res.operand(t["args"][0])
                    if not any(x[0] == "field" and x[2] == "trees" and x[1][0] == "arg" and x[1][1] == 1 for x in _st(recv)):
                        continue
                    bad = [x[1].split("::")[-1] for x in _st(recv) if x[0] == "call" and x[1].endswith(
                        ("::take", "::take_while", "::skip", "::skip_while", "::step_by", "::nth", "::map_while", "::scan"))]
                    (trunc if bad else full).append((bb, bad))
                if full and not trunc:
                    ck.ok(rule, inst, b.path, b.where(full[0][0]), "iterator form: a full-consumption adaptor over iter(self.trees), no truncating adaptor in the chain")
                elif trunc:
                    ck.violation(rule, inst, b.path, b.where(trunc[0][0]), expected="every member tree contributes",
                                 found=f"the iterator over self.trees is truncated by {trunc[0][1]}")
                else:
                    ck.violation(rule, inst, b.path, f"{b.loc[0]}:{b.loc[1]}", expected="a loop (or a full-consumption iterator chain) over self.trees",
                                 found="neither recognised")
                continue
            sw, body_dst, exit_dst = lp
            be = G.back_edges(b)
            inside = b.reachable_from([body_dst], cut_edges=be, cut_blocks=frozenset([exit_dst]))
            early = [r for r in b.returns if r in inside]
            # blocks of the loop body that leave the loop without going back to the header
            if early:
                ck.violation(rule, inst, b.path, b.where(early[0]), expected="every return is reached only after the iterator over the trees is exhausted",
                             found=f"a return is reachable from inside the loop body (early exit before all trees voted)")
            else:
                ck.ok(rule, inst, b.path, b.where(sw), "all returns lie behind the exhausted edge of the tree loop")


def bootstrap_no_skip(ck, prog):
    """stratified bootstrap: within the per-class iteration the draw loop is reached on every path (no class is skipped)"""
    rule, inst = "E2h-stratified", "classifier sample_with_replacement: every class iteration reaches the draw loop"
    from sa import guards as G, flow as F
    b = prog.bodies.get("ensemble::random_forest_classifier::RandomForestClassifier::<T>::sample_with_replacement")
    if not b:
        ck.violation(rule, inst, "sample_with_replacement", "", expected="anchor exists", found="anchor vanished")
        return
    res = Resolver(b)
    draws = [bb for bb, t in b.calls() if t.get("f") and t["f"]["path"].endswith(F.DRAW_SUFFIX)]
    if not draws:
        ck.violation(rule, inst, b.path, "", expected="a draw site", found="none")
        return
    be = sorted(G.back_edges(b))
    # loop headers that dominate the draw, outermost first
    from sa.isolation import natural_loops as _nl
    _loops = _nl(b)
    # loops that CONTAIN the site (the header of a loop that merely precedes it dominates it as well)
    headers = sorted({h for h, nodes in _loops.items() if draws[0] in nodes}, key=lambda h: len(b.dom[h]))
    if len(headers) < 2:
        ck.violation(rule, inst, b.path, b.where(draws[0]), expected="a per-class loop around the draw loop", found=f"{len(headers)} enclosing loops")
        return
    outer, inner = headers[0], headers[-1]
    latches = [u for (u, h) in be if h == outer]
    # every path from the outer body back to the outer header passes through the draw loop's header
    ok = all(b.dominates(inner, u) for u in latches)
    if ok:
        ck.ok(rule, inst, b.path, b.where(draws[0]), "the draw loop header dominates the class loop's latch")
    else:
        ck.violation(rule, inst, b.path, b.where(draws[0]), expected="no path of a class iteration bypasses the draw loop",
                     found="a class iteration can return to the class loop without entering the draw loop (a class can be skipped)")


_run_c06 = run


def run(ck, prog):
    _run_c06(ck, prog)
    aggregates_all_trees(ck, prog)
    bootstrap_no_skip(ck, prog)
    ck.floor("E2h-aggregate", 4)
    ck.floor("E2h-stratified", 1)


_run_pre_builders = run


def run(ck, prog):
    _run_pre_builders(ck, prog)
    # every setting of the quantifier is reachable through the public builder chain: setters must not clobber other fields
    from sa.builders import check_builders
    check_builders(ck, prog, r"^ensemble::random_forest_(classifier|regressor)::RandomForest(Classifier|Regressor)Parameters$")
    ck.floor("E2-builder", 15)


# ------------------------------------------------------------------ per-row outputs: no state carried between row iterations
_run_pre_isolation = run
ISOLATION_FNS = [('RandomForestClassifier::predict', '^ensemble::random_forest_classifier::RandomForestClassifier::<T>::predict$'), ('RandomForestClassifier::predict_oob', '^ensemble::random_forest_classifier::RandomForestClassifier::<T>::predict_oob$'), ('RandomForestRegressor::predict', '^ensemble::random_forest_regressor::RandomForestRegressor::<T>::predict$'), ('RandomForestRegressor::predict_oob', '^ensemble::random_forest_regressor::RandomForestRegressor::<T>::predict_oob$')]


def run(ck, prog):
    _run_pre_isolation(ck, prog)
    from sa import isolation
    isolation.run_rule(ck, prog, ISOLATION_FNS, xarg=2)


EXPLANATION += (" Row-loop isolation (E2-isolation): in the `for i in 0..rows(x)` loop of the forest predict / predict_oob functions every piece of state an "
                "iteration reads is completely re-defined earlier in the same iteration (fresh allocation, whole assignment, fill/clear/"
                "copy_row_as_vec, or a reset loop over the full length), except the loop iterator and the result container written "
                "at row i only: a buffer hoisted out of the loop and only partly reset makes the output for a row depend on the rows "
                "processed before it.")
TECHNIQUE += "; loop-carried-state (iteration isolation) rule on the row loops"


# ------------------------------------------------------------------ generic: rows/cols (outer/inner) mix-up of locally allocated buffers
_run_pre_dimension = run
DIMENSION_FILES = ['src/ensemble/random_forest_classifier.rs', 'src/ensemble/random_forest_regressor.rs', 'src/tree/decision_tree_classifier.rs', 'src/tree/decision_tree_regressor.rs']


def run(ck, prog):
    _run_pre_dimension(ck, prog)
    from sa import dimension
    dimension.run_rule(ck, prog, set(DIMENSION_FILES))


# ------------------------------------------------------------------ the sweep's running totals are advanced uniformly
_run_pre_uniform = run


def uniform_accumulators(ck, prog):
    """Bootstrap multiplicities are weights: wherever the threshold sweep of find_best_split advances a running total it adds
    the same weighted term (count += w_i, sum += w_i * y_i) - also on the branches that skip a candidate. Sibling agreement:
    all update sites of one accumulator inside the sweep add the same provenance term. A site that adds y_i where the
    others add w_i * y_i makes leaf means wrong exactly when a skipped row was drawn more than once."""
    from sa.prov import Resolver, render
    rule = "E1-sibling"
    for nm, path in (("regressor", "tree::decision_tree_regressor::DecisionTreeRegressor::<T>::find_best_split"),
                     ("classifier", "tree::decision_tree_classifier::DecisionTreeClassifier::<T>::find_best_split")):
        inst = f"{nm} find_best_split: every update of a running total adds the same weighted term"
        b = prog.bodies.get(path)
        if b is None:
            ck.violation(rule, inst, path, "", expected="anchor exists", found="anchor vanished")
            continue
        res = Resolver(b)
        groups = {}
        for bb, t in b.calls():
            f = t.get("f")
            if f and f["path"].endswith("AddAssign::add_assign") and t["args"][0]["k"] in ("move", "copy"):
                tgt = b.mutref_of.get(t["args"][0]["p"]["l"])
                if tgt is not None and not b.is_arg(tgt):
                    groups.setdefault(tgt, []).append((b.where(bb), res.operand(t["args"][1])))
        for l, ds in b.defs.items():
            if b.is_arg(l) or not b.local_name(l):
                continue
            for d in ds:
                if d.kind == "assign" and d.data["r"]["k"] in ("bin", "use"):
                    tm = res.from_def(d, 1, ())
                    if tm[0] == "field" and tm[2] == "0":
                        tm = tm[1]
                    if tm[0] == "bin" and tm[1] in ("Add", "AddWithOverflow") and tm[2][0] in ("phi", "local") and tm[2][1] == l:
                        groups.setdefault(l, []).append((b.where(d.bb, d.idx), tm[3]))
                elif d.kind == "store":
                    tm = res.rvalue(d.data["r"], 0, ())
                    if tm[0] == "field" and tm[2] == "0":
                        tm = tm[1]
                    if tm[0] == "bin" and tm[1] in ("Add", "AddWithOverflow"):
                        groups.setdefault(l, []).append((b.where(d.bb, d.idx), tm[3]))
        n = 0
        for l, sites in sorted(groups.items()):
            if len(sites) < 2:
                continue
            n += 1
            kinds = {}
            for w, tm in sites:
                kinds.setdefault(render(tm), []).append(w)
            name = b.local_name(l) or f"_{l}"
            if len(kinds) > 1:
                major = max(kinds.items(), key=lambda kv: len(kv[1]))
                odd = [(k, v) for k, v in kinds.items() if k != major[0]]
                ck.violation(rule, inst, b.path, odd[0][1][0], ordinal=n,
                             expected=f"all {len(sites)} updates of `{name}` add `{major[0][:70]}`",
                             found=f"the update at {odd[0][1][0]} adds `{odd[0][0][:70]}`")
            else:
                ck.ok(rule, inst, b.path, sites[0][0], f"`{name}`: {len(sites)} update sites, all add `{list(kinds)[0][:70]}`")
        if n == 0:
            ck.note(f"{inst}: no accumulator with two or more update sites (sweep restructured): no instance")


def run(ck, prog):
    _run_pre_uniform(ck, prog)
    uniform_accumulators(ck, prog)


EXPLANATION += (' Weighted sweep: all update sites of one running total in find_best_split add the same weighted term (E1-sibling) - bootstrap multiplicities enter the skip branches as well.')


# ------------------------------------------------------------------ generic: signed counters are not cast to unsigned on their negative side
_run_pre_negcast = run


def run(ck, prog):
    _run_pre_negcast(ck, prog)
    from sa import negcast
    negcast.run_rule(ck, prog, set(DIMENSION_FILES))


# ------------------------------------------------------------------ OOB mean: the number of out-of-bag trees can be zero
_run_pre_oobdiv = run


def oob_mean_guarded(ck, prog):
    """'regressor predictions lie within the range of the training targets' and the OOB prediction 'aggregates ... only the trees
    whose bootstrap sample did not contain row i': the mean divides by the number of such trees, a counter that starts at 0
    and is incremented under the mask test - it is 0 for a row that every tree drew (certain for n_trees = 1 and in-bag rows).
    Guarded-division rule on RandomForestRegressor::predict_for_row_oob."""
    from sa import divguard
    rule, inst = "E2-guarded-division", "regressor predict_for_row_oob: the out-of-bag tree count is tested before dividing by it"
    b = prog.bodies.get("ensemble::random_forest_regressor::RandomForestRegressor::<T>::predict_for_row_oob")
    if b is None:
        ck.violation(rule, inst, "predict_for_row_oob", "", expected="anchor exists", found="anchor vanished")
        return
    # a counter: phi(0 | _ + 1)
    def is_counter(t):
        return t[0] == "phi" and any(a == ("int", 0) for a in t[2]) and \
            any(a[0] == "bin" and a[1] in ("Add", "AddWithOverflow") and ("int", 1) in (a[2], a[3]) for a in t[2]) or \
            (t[0] == "phi" and any(a == ("int", 0) for a in t[2]) and any(a[0] == "field" and a[1][0] == "bin" and a[1][1].startswith("Add") for a in t[2]))
    sites = divguard.check(b, is_counter)
    if not sites:
        ck.note(f"{inst}: no division by a conditional counter (mean formed differently): no instance")
        return
    for k, (where, den, guarded) in enumerate(sites):
        if guarded:
            ck.ok(rule, inst, b.path, where, f"division by `{render(den)[:60]}` behind a non-zero test")
        else:
            ck.violation(rule, inst, b.path, where, ordinal=k,
                         expected="a zero test of the out-of-bag tree count on every path to the division (error or fallback for a row no tree left out)",
                         found=f"divides by `{render(den)[:80]}` unconditionally: the count is 0 for a row contained in every bootstrap sample "
                               f"(every in-bag row when n_trees = 1) and predict_oob returns Ok with NaN")


def oob_vote_nonempty(ck, prog):
    """Classifier sibling of the rule above: the OOB vote tally starts at zero and is incremented under the mask test only,
    so it is ALL ZERO for a row every tree drew; which_max of an all-zero tally is index 0 and predict_oob returns
    Ok(classes[0]) as if an out-of-bag tree had voted.  Rule: predict_for_row_oob tests the number of votes (a conditional
    counter, or a sum / max / any over the tally) before the arg-max is taken as the answer."""
    rule, inst = "E2-guarded-division", "classifier predict_for_row_oob: the number of out-of-bag votes is tested before the arg-max is taken"
    b = prog.bodies.get("ensemble::random_forest_classifier::RandomForestClassifier::<T>::predict_for_row_oob")
    if b is None:
        ck.violation(rule, inst, "predict_for_row_oob", "", expected="anchor exists", found="anchor vanished")
        return
    from sa.e1 import BodyCtx
    cx = BodyCtx.of(b)
    amax = [bb for bb, t in b.calls() if t.get("f") and t["f"]["path"].split("::")[-1] in ("which_max", "max_by_key", "max_by", "position_max")]
    if not amax:
        ck.note(f"{inst}: no arg-max over a tally in predict_for_row_oob: no instance")
        return
    tested = []
    for c in cx.cmps:
        for (L, R) in ((c.lhs, c.rhs), (c.rhs, c.lhs)):
            if R == ("int", 0) and L[0] in ("phi", "call", "local") and not (L[0] == "call" and L[1].endswith(("::len", "shape"))):
                tested.append(c.where)
    if tested:
        ck.ok(rule, inst, b.path, tested[0], "a vote count is compared with 0")
    else:
        ck.violation(rule, inst, b.path, b.where(amax[0]), ordinal=0,
                     expected="a test that at least one tree was out-of-bag for the row (error or marker otherwise)",
                     found="which_max of the tally is returned unconditionally: for a row contained in every bootstrap sample (every in-bag row when "
                           "n_trees = 1) the tally is all zero and predict_oob returns Ok with classes[0]")


def run(ck, prog):
    _run_pre_oobdiv(ck, prog)
    oob_mean_guarded(ck, prog)
    oob_vote_nonempty(ck, prog)


# ------------------------------------------------------------------ generic: `while counter < bound` loops advance their counter
_run_pre_progress = run


def run(ck, prog):
    _run_pre_progress(ck, prog)
    from sa import progress
    progress.run_rule(ck, prog, set(DIMENSION_FILES))


_run_pre_eqrefl = run


def run(ck, prog):
    _run_pre_eqrefl(ck, prog)
    # 'two forests fitted with the same data, parameters and seed are identical': equality of trees and forests is reflexive
    from props import C19
    C19.eq_reflexive(ck, prog, files=set(DIMENSION_FILES), floor=0)


EXPLANATION += (" Equality of trees and forests is reflexive (C19's tolerance rule restricted to this property's files).")


# ------------------------------------------------------------------ generic: no magnitude is compared with a signed raw element
_run_pre_magnitude = run


def run(ck, prog):
    _run_pre_magnitude(ck, prog)
    from sa import magnitude
    magnitude.run_rule(ck, prog, set(DIMENSION_FILES))


# ------------------------------------------------------------------ generic: backward strided scans (`j -= step`) continue exactly while j >= step
_run_pre_subguard = run


def run(ck, prog):
    _run_pre_subguard(ck, prog)
    from sa import subguard
    subguard.run_rule(ck, prog, set(DIMENSION_FILES))


# ------------------------------------------------------------------ generic: a configuration field read on one successful path is read on every successful path
_run_pre_config = run


def run(ck, prog):
    _run_pre_config(ck, prog)
    from sa import config
    config.run_rule(ck, prog, set(DIMENSION_FILES))


# ------------------------------------------------------------------ predictions are a function of (forest, x): no ambient source on the predict side
_run_pre_predict_det = run


def predict_determinism(ck, prog):
    """Same seed => identical predictions: the prediction routines must not observe anything but the fitted forest and the
    query (no ambient RNG / clock, no iteration in HashMap / HashSet order - a vote tally kept in a hash map breaks ties in a
    per-process random order)."""
    rule = "E2b-seeded"
    cg = flow.CallGraph(prog)
    rf = flow.RngFlow(prog, cg)
    for nm, ty in (("classifier", "ensemble::random_forest_classifier::RandomForestClassifier::<T>"),
                   ("regressor", "ensemble::random_forest_regressor::RandomForestRegressor::<T>")):
        inst = f"{nm}: no ambient nondeterminism reachable from predict / predict_oob"
        roots = [f"{ty}::{m}" for m in ("predict", "predict_oob") if f"{ty}::{m}" in prog.bodies]
        if not roots:
            ck.violation(rule, inst, ty, "", expected="predict exists", found="anchor vanished")
            continue
        reach = cg.reachable(roots)
        amb = [(f, prog.bodies[f].where(bb), p) for f in sorted(reach) for (bb, p) in rf.ambient_sites.get(f, [])]
        hsh = flow.hash_order_iterations(prog, sorted(reach))
        drw = [(f, prog.bodies[f].where(bb), p) for f in sorted(reach) for (bb, p, _) in rf.draws.get(f, [])]
        if amb or hsh or drw:
            for (f, w, p) in amb + hsh + drw:
                ck.violation(rule, inst, f, w, ordinal=p.split("::")[-1], expected="predictions depend on the fitted forest and the query only",
                             found=f"{p} reachable from predict", path=cg.path_to(roots[0], f))
        else:
            ck.ok(rule, inst, roots[0], f"{prog.bodies[roots[0]].loc[0]}:{prog.bodies[roots[0]].loc[1]}",
                  f"{len(reach)} functions reachable from {len(roots)} root(s), none draws, reads an ambient source or iterates in hash order")


def run(ck, prog):
    _run_pre_predict_det(ck, prog)
    predict_determinism(ck, prog)


EXPLANATION += (" Predict side: nothing reachable from predict / predict_oob draws random numbers, reads an ambient source or "
                "iterates a HashMap / HashSet in hash order.")


# ------------------------------------------------------------------ generic: the value tested against a bound is the value set to the bound (clamps)
_run_pre_clamp = run


def run(ck, prog):
    _run_pre_clamp(ck, prog)
    from sa import clamp
    clamp.run_rule(ck, prog, set(DIMENSION_FILES))


# ------------------------------------------------------------------ generic: an index variable of one range addresses one buffer with one stride
_run_pre_stride = run


def run(ck, prog):
    _run_pre_stride(ck, prog)
    from sa import stride
    stride.run_rule(ck, prog, set(DIMENSION_FILES))
