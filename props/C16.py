"""C16 data splitting: no-leak dataflow (E2c), pairing, shuffle gating (E2b), guards (E1)."""
from sa import e1, guards
from sa.e1 import G, BodyCtx
from sa.match import Dim, Field, Int, Zero, Pred, Arg, contains, dim_of
from sa.mir import AnchorError
from sa.prov import render, Resolver, subterms

LEVEL = "other"
EXPLANATION = (
    "E2c (value provenance on MIR): in cross_validate / cross_val_predict the estimator is fitted on take(x, I0), "
    "take(y, I0) with I0 = component 0 of the split item and no dependence on component 1; held-out predictions are "
    "made on take(x, I1) by that estimator, scored against take(y, I1), train/test scores go to the vectors returned "
    "as train_score/test_score, and cross_val_predict writes prediction i to position I1[i] (index and position from one "
    "enumerate over I1). train_test_split pairs x and y through the same index slice, the two slices are "
    "indices[n_test..n] and indices[0..n_test] of one collect(0..n) vector, n_test = trunc(f32(n)*test_size). "
    "KFoldIter::next builds train/test by filtering one enumeration with the same mask and opposite polarity, train "
    "first. E2b: the only RNG draws (shuffle) are dominated by the true edge of the shuffle flag. E1: the argument "
    "guards refuse no k >= 2, no test_size in (0,1], no n_test >= 1. Fold sizes and the partition arithmetic are not decided."
)
TECHNIQUE = "static analysis of rustc MIR: value-provenance (non-interference) rules, dominance of RNG draws by the shuffle flag, guard rules"

TTS = r"^model_selection::train_test_split$"
SPECS = [
    G("KFold::split accepts every k>=2", r"^<model_selection::kfold::KFold as model_selection::BaseKFold>::split$",
      Field(1, "n_splits"), Int(), [], [("ge", 2)], "reject", int_domain=guards.USIZE),
    G("KFold::split accepts every k<=n (leave-one-out included)", r"^<model_selection::kfold::KFold as model_selection::BaseKFold>::split$",
      Field(1, "n_splits"), Dim("rows", 2), "", "nz", "reject"),
    G("train_test_split accepts every test_size>0", TTS, Arg(3), Zero(), "", "p", "reject"),
    G("train_test_split accepts every test_size<=1", TTS, Arg(3),
      Pred(lambda t: t[0] == "const" and t[1] in ("1f32", "1.0f32", "1_f32"), "1f32"), "", "nz", "reject"),
    G("train_test_split accepts every n_test>=1", TTS, Pred(lambda t: t[0] == "cast" and t[2] == "usize", "n_test"),
      Int(), [], [("ge", 1)], "reject", int_domain=guards.USIZE),
    G("train_test_split rejects |x| != |y|", TTS, Dim("rows", 1), Dim("len", 2), "np", "z", "panic"),
]


def calls_in(t, suffix):
    return [s for s in subterms(t) if s[0] == "call" and s[1].endswith(suffix)]


def peel(t):
    """strip borrowing iterator adaptors: iter(v), into_iter(v), deref(v), as_slice(v) designate v's elements in order"""
    while t[0] == "call" and t[1].endswith(("::iter", "::into_iter", "::deref", "::as_slice", "::as_ref")) and len(t[2]) == 1:
        t = t[2][0]
    return t


def is_take(t, data_arg, idx_pred):
    """take(<arg data_arg>, I [,0]) with I satisfying idx_pred"""
    if t[0] != "call" or not t[1].endswith("::take"):
        return False
    a = t[2]
    if not (a[0][0] == "arg" and a[0][1] == data_arg):
        return False
    if not idx_pred(a[1]):
        return False
    if len(a) == 3 and a[2] != ("int", 0):
        return False
    return True


def split_component(k):
    """term is component k of an item produced by iterating cv.split(x)"""
    def p(t):
        if not (t[0] == "field" and t[2] == str(k)):
            return False
        it = t[1]
        # (next(split(cv, x)) as Some).0
        return (it[0] == "field" and it[2] == "0" and it[1][0] == "variant" and it[1][2] == "Some"
                and it[1][1][0] == "call" and it[1][1][1].endswith("Iterator::next")
                and bool(calls_in(it[1][1], "BaseKFold::split")))
    return p


def mentions_component(t, k):
    return any(split_component(k)(s) for s in subterms(t))


def root_local(body, o):
    """the local whose storage an operand (a reference chain) designates"""
    seen = 0
    while seen < 12:
        seen += 1
        if o["k"] not in ("copy", "move"):
            return None
        l = o["p"]["l"]
        ds = body.defs.get(l, [])
        if len(ds) == 1 and ds[0].kind == "assign":
            r = ds[0].data["r"]
            if r["k"] == "ref":
                if not [e for e in r["p"]["pr"] if e != "*"]:
                    nl = r["p"]["l"]
                    if "*" in r["p"]["pr"] and body.local_ty(nl).startswith("&") and len(body.defs.get(nl, [])) == 1:
                        o = {"k": "copy", "p": {"l": nl, "pr": []}}
                        continue
                    return nl
                return None
            if r["k"] == "use" and r["o"]["k"] in ("copy", "move") and not r["o"]["p"]["pr"]:
                o = r["o"]
                continue
            if r["k"] == "cast" and r["o"]["k"] in ("copy", "move") and not r["o"]["p"]["pr"]:
                o = r["o"]
                continue
        if len(ds) == 1 and ds[0].kind == "call":
            f = ds[0].data.get("f")
            from sa.prov import TRANSPARENT_1
            if f and (f["path"] in TRANSPARENT_1 or f["path"].endswith(("::deref", "::deref_mut", "::as_slice", "::as_mut_slice", "::as_ref", "::as_mut"))) and ds[0].data["args"]:
                o = ds[0].data["args"][0]
                continue
        return l
    return None


def cv_common(ck, prog, b, res, fname):
    """fit-call obligations shared by cross_validate and cross_val_predict; returns the fit call term"""
    rule = "E2c-noleak"
    fits = []
    for bb, t in b.calls():
        f = t.get("f")
        if f and f["path"] in ("std::ops::Fn::call", "std::ops::FnMut::call_mut", "std::ops::FnOnce::call_once"):
            callee = res.operand(t["args"][0])
            if callee[0] == "arg" and callee[1] == 1:
                fits.append((bb, res.operand(t["args"][1])))
    if len(fits) != 1:
        ck.violation(rule, f"{fname}: one fit per fold", b.path, "", expected="exactly one call of fit_estimator inside the fold loop",
                     found=f"{len(fits)} calls")
        return None
    bb, argt = fits[0]
    ok = (argt[0] == "agg" and argt[1] == "tuple" and len(argt[2]) == 3
          and is_take(argt[2][0], 2, split_component(0)) and is_take(argt[2][1], 3, split_component(0))
          and argt[2][0][2][1] == argt[2][1][2][1]
          and not mentions_component(argt[2][0], 1) and not mentions_component(argt[2][1], 1))
    if ok:
        ck.ok(rule, f"{fname}: fit on (take(x,I0), take(y,I0)) only", b.path, b.where(bb), render(argt)[:160])
    else:
        ck.violation(rule, f"{fname}: fit on (take(x,I0), take(y,I0)) only", b.path, b.where(bb),
                     expected="fit_estimator(take(x, I0, 0), take(y, I0), parameters) with I0 the training component of the split, no dependence on the test component",
                     found=render(argt)[:400])
    return fits[0]


def is_pred_on(t, k):
    """predict(E, take(x, Ik, 0)) (possibly ?-unwrapped) with E derived from the fit call on I0"""
    cs = calls_in(t, "Predictor::predict")
    if len(cs) < 1:
        return False
    c = cs[0]
    if t is not c and not (t[0] == "field" and True):
        pass
    est, data = c[2][0], c[2][1]
    if not is_take(data, 2, split_component(k)):
        return False
    fc = [s for s in subterms(est) if s[0] == "call" and s[1].startswith("std::ops::Fn") and s[2][0][0] == "arg" and s[2][0][1] == 1]
    return bool(fc)


def strip_try(t):
    """(branch(X) as Continue).0 -> X ; unwrap(X) -> X"""
    while True:
        if t[0] == "field" and t[2] == "0" and t[1][0] == "variant" and t[1][2] == "Continue" and t[1][1][0] == "call" \
                and t[1][1][1].endswith("Try::branch"):
            t = t[1][1][2][0]
            continue
        if t[0] == "call" and t[1] == "unwrap":
            t = t[2][0]
            continue
        return t


def cross_validate(ck, prog):
    rule = "E2c-noleak"
    try:
        b = prog.one(r"^model_selection::cross_validate$")
    except AnchorError as e:
        ck.violation(rule, "cross_validate", "cross_validate", "", expected="anchor exists", found=f"anchor vanished: {e}")
        return
    res = Resolver(b)
    cv_common(ck, prog, b, res, "cross_validate")
    # result struct: which local is test_score / train_score
    fields = {}
    for i, j, s in b.stmts():
        r = s["r"] if s["k"] == "assign" else None
        if r and r["k"] == "agg" and r.get("name", "").endswith("CrossValidationResult"):
            for nm, o in zip(r["fields"], r["ops"]):
                fields[nm] = root_local(b, o)
    seen = {}
    for bb, t in b.calls():
        f = t.get("f")
        if f and f["path"].endswith("Vec::<T, A>::push"):
            dest = root_local(b, t["args"][0])
            val = res.operand(t["args"][1])
            sc = [s for s in subterms(val) if s[0] == "call" and s[1].startswith("std::ops::Fn") and s[2][0][0] == "arg" and s[2][0][1] == 6]
            if not sc:
                continue
            tup = sc[0][2][1]
            for k, nm in ((0, "train_score"), (1, "test_score")):
                if dest is not None and dest == fields.get(nm):
                    good = (tup[0] == "agg" and len(tup[2]) == 2 and is_take(tup[2][0], 3, split_component(k))
                            and is_pred_on(strip_try(tup[2][1]), k)
                            and not mentions_component(tup[2][0], 1 - k)
                            and not mentions_component(calls_in(tup[2][1], "Predictor::predict")[0][2][1], 1 - k))
                    seen[nm] = True
                    inst = f"cross_validate: {nm} = score(take(y,I{k}), predict(take(x,I{k})))"
                    if good:
                        ck.ok(rule, inst, b.path, b.where(bb), render(tup)[:140])
                    else:
                        ck.violation(rule, inst, b.path, b.where(bb),
                                     expected=f"the value pushed to {nm} is score(take(y, I{k}), estimator.predict(take(x, I{k}, 0))) with no dependence on the other component",
                                     found=render(tup)[:400])
    for nm in ("train_score", "test_score"):
        if nm not in seen:
            ck.violation(rule, f"cross_validate: {nm} is pushed", b.path, "", expected=f"a push of a score into the vector returned as {nm}",
                         found=f"none found (result fields -> locals {fields})")


def cross_val_predict(ck, prog):
    rule = "E2c-noleak"
    try:
        b = prog.one(r"^model_selection::cross_val_predict$")
    except AnchorError as e:
        ck.violation(rule, "cross_val_predict", "cross_val_predict", "", expected="anchor exists", found=f"anchor vanished: {e}")
        return
    res = Resolver(b)
    cv_common(ck, prog, b, res, "cross_val_predict")
    sets = [(bb, t) for bb, t in b.calls() if t.get("f") and t["f"]["path"].endswith("BaseVector::set")]
    inst = "cross_val_predict: y_hat[I1[i]] = predict(take(x,I1))[i]"
    if len(sets) != 1:
        ck.violation(rule, inst, b.path, "", expected="exactly one scatter write", found=f"{len(sets)} calls of BaseVector::set")
        return
    bb, t = sets[0]
    dest = res.operand(t["args"][0])
    idx = res.operand(t["args"][1])
    val = res.operand(t["args"][2])
    # idx = (next(enumerate(iter(I1))) as Some).0.1 ; val = get(P, (next(enumerate(iter(I1))) as Some).0.0)
    problems = []
    indexed = idx[0] == "idx" and split_component(1)(peel(idx[1]))     # form B: I1[i] with i in 0..len(I1)
    if indexed:
        item = None
        k = idx[2]
        rng = None
        if k[0] == "field" and k[2] == "0" and k[1][0] == "variant" and k[1][1][0] == "call" and k[1][1][1].endswith("Iterator::next"):
            from sa.prov import alts as _alts
            rng = [a for a in _alts(k[1][1][2][0]) if a[0] == "agg" and a[1].endswith("Range::Range")]
        d = dim_of(rng[0][2][1]) if rng else None
        if not (rng and rng[0][2][0] == ("int", 0) and d and d[0] == "len" and split_component(1)(peel(d[1]))):
            problems.append(f"index position `{render(k)[:80]}` does not range over 0..len(I1)")
    else:
        if not (idx[0] == "field" and idx[2] == "1"):
            problems.append(f"index `{render(idx)[:80]}` is not the element component of an enumerate item")
        item = idx[1] if idx[0] == "field" else None
        en = calls_in(idx, "Iterator::enumerate")
        if not en or not split_component(1)(peel(en[0][2][0])):
            problems.append("the scatter does not iterate the test component I1 of the split")
    if not (val[0] == "call" and val[1].endswith("BaseVector::get")):
        problems.append(f"value `{render(val)[:80]}` is not an element of the prediction vector")
    else:
        pos = val[2][1]
        if indexed:
            if pos != idx[2]:
                problems.append(f"position `{render(pos)[:80]}` differs from the position used to index I1")
        elif not (pos[0] == "field" and pos[2] == "0" and item is not None and pos[1] == item):
            problems.append(f"position `{render(pos)[:80]}` is not the counter of the same enumerate item as the index")
        if not is_pred_on(strip_try(val[2][0]), 1):
            problems.append(f"prediction vector `{render(val[2][0])[:120]}` is not predict(take(x, I1, 0)) of the fold's estimator")
        elif mentions_component(calls_in(val[2][0], "Predictor::predict")[0][2][1], 0):
            problems.append("held-out input depends on the training component")
    # the written vector is the returned one
    ret_ok = False
    for d in b.defs.get(0, []):
        if d.kind == "assign" and d.data["r"]["k"] == "agg" and d.data["r"].get("variant") == "Ok":
            ret_ok = root_local(b, d.data["r"]["ops"][0]) == root_local(b, t["args"][0])
    if not ret_ok:
        problems.append("the vector written by the scatter is not the one returned in Ok(..)")
    if problems:
        ck.violation(rule, inst, b.path, b.where(bb), expected="prediction i of the held-out block is written to position I1[i] of the returned vector",
                     found="; ".join(problems))
    else:
        ck.ok(rule, inst, b.path, b.where(bb), f"set({render(dest)[:30]}, {render(idx)[:60]}, ...)")


def train_test(ck, prog):
    rule = "E2c-pairing"
    try:
        b = prog.one(TTS)
    except AnchorError as e:
        ck.violation(rule, "train_test_split", TTS, "", expected="anchor exists", found=f"anchor vanished: {e}")
        return
    res = Resolver(b)
    ret = res.local(0)
    if not (ret[0] == "agg" and ret[1] == "tuple" and len(ret[2]) == 4):
        ck.violation(rule, "train_test_split returns (x_train, x_test, y_train, y_test)", b.path, "", expected="a 4-tuple", found=render(ret)[:200])
        return
    xtr, xte, ytr, yte = ret[2]
    site = f"{b.loc[0]}:{b.loc[1]}"

    def parts(t, data_arg):
        if t[0] != "call" or not t[1].endswith("::take") or not (t[2][0][0] == "arg" and t[2][0][1] == data_arg):
            return None
        if len(t[2]) == 3 and t[2][2] != ("int", 0):
            return None
        i = t[2][1]
        if i[0] == "idx" and i[2][0] == "agg" and i[2][1].endswith("Range::Range"):
            return (i[1], i[2][2][0], i[2][2][1])
        # `let (head, tail) = indices.split_at(k)`: head = indices[0..k], tail = indices[k..len]
        if i[0] == "field" and i[2] in ("0", "1") and i[1][0] == "call" and i[1][1].endswith("::split_at") and len(i[1][2]) == 2:
            vec_, k_ = i[1][2]
            while vec_[0] == "call" and vec_[1].endswith(("::deref", "::as_slice", "::as_ref")) and vec_[2]:
                vec_ = vec_[2][0]
            return (vec_, ("int", 0), k_) if i[2] == "0" else (vec_, k_, ("end",))
        return None
    P = dict(xtr=parts(xtr, 1), xte=parts(xte, 1), ytr=parts(ytr, 2), yte=parts(yte, 2))
    bad = [k for k, v in P.items() if v is None]
    if bad:
        ck.violation(rule, "train_test_split: parts are take(data, indices[a..b])", b.path, site,
                     expected="each returned part is take(x|y, indices[a..b]) (rows)", found=f"unrecognised parts {bad}: {render(ret)[:300]}")
        return
    # pairing
    for a, c, nm in (("xtr", "ytr", "train"), ("xte", "yte", "test")):
        inst = f"train_test_split: x_{nm} and y_{nm} use the same index slice"
        if P[a] == P[c]:
            ck.ok(rule, inst, b.path, site, f"indices[{render(P[a][1])[:40]}..{render(P[a][2])[:40]}]")
        else:
            ck.violation(rule, inst, b.path, site, expected="identical (vector, start, end) for x and y",
                         found=f"x: {[render(z)[:60] for z in P[a]]} ; y: {[render(z)[:60] for z in P[c]]}")
    # complementarity: train = indices[n_test..n], test = indices[0..n_test], indices = collect(0..n)
    inst = "train_test_split: test = indices[0..n_test], train = indices[n_test..n] of one permutation of 0..n"
    vec, s1, e1_ = P["xtr"]
    vec2, s2, e2 = P["xte"]
    problems = []
    # in-place permutations of the index vector keep it a permutation of 0..n
    PERM = ("::deref_mut", "SliceRandom::shuffle", "::reverse", "::sort", "::sort_unstable", "::swap", "::as_mut_slice")
    if vec == vec2 and vec[0] == "phi":
        base = [a for a in vec[2] if not (a[0] == "call" and a[1].startswith("mut:"))]
        muts = [a[1] for a in vec[2] if a[0] == "call" and a[1].startswith("mut:")]
        other = [m for m in muts if not m.endswith(PERM)]
        if other:
            problems.append(f"index vector is modified by {other}")
        if len(base) == 1:
            vec = vec2 = base[0]
    coll = vec[0] == "call" and vec[1].endswith("Iterator::collect") and vec[2][0][0] == "agg" and vec[2][0][1].endswith("Range::Range")
    if vec != vec2:
        problems.append("train and test index different vectors")
    if not coll:
        problems.append(f"index vector `{render(vec)[:80]}` is not collect(0..n)")
    else:
        lo, n = vec[2][0][2]
        if lo != ("int", 0):
            problems.append("index vector does not start at 0")
        dn = dim_of(n)
        if not (dn and dn[1][0] == "arg" and dn[1][1] in (1, 2) and dn[0] in ("len", "rows")):
            problems.append(f"n = `{render(n)}` is not the number of samples")
        if e1_ != n and e1_ != ("end",):
            problems.append(f"train slice ends at `{render(e1_)[:60]}`, not n")
    if s2 != ("int", 0):
        problems.append(f"test slice starts at `{render(s2)[:60]}`, not 0")
    if s1 != e2:
        problems.append(f"train starts at `{render(s1)[:60]}` but test ends at `{render(e2)[:60]}`")
    # n_test = trunc(f32(n) * test_size)
    nt = e2
    def is_ntest(t):
        while t[0] == "call" and t[1].endswith(("::floor", "::trunc")):
            t = t[2][0]
        if not (t[0] == "cast" and t[2] == "usize" and t[3] == "FloatToInt"):
            return False
        m = t[1]
        while m[0] == "call" and m[1].endswith(("::floor", "::trunc")):
            m = m[2][0]
        if not (m[0] == "bin" and m[1] == "Mul"):
            return False
        for a_, b_ in ((m[2], m[3]), (m[3], m[2])):
            if a_[0] == "cast" and a_[2] == "f32" and dim_of(a_[1]) and b_[0] == "arg" and b_[1] == 3:
                return True
        return False
    if not is_ntest(nt):
        # the size computed (and validated) by a private helper: `let n_test = check_split_arguments(.., n, test_size);`
        from sa.prov import inline_calls
        nt = inline_calls(prog, nt, allow=lambda p: p.startswith("model_selection::"))
    if not is_ntest(nt):
        problems.append(f"n_test = `{render(nt)[:100]}` is not trunc((n as f32) * test_size)")
    if problems:
        ck.violation(rule, inst, b.path, site, expected="complementary slices of one index vector, split at n_test = trunc(f32(n)*test_size)",
                     found="; ".join(problems))
    else:
        ck.ok(rule, inst, b.path, site, f"n_test = {render(nt)[:80]}")


def _polarity_loop_form(ck, prog, b, rule, inst):
    """loop form: `for i in 0..n { if mask[i] { test.push(i) } else { train.push(i) } }` returning (train, test).
    returns True when the form was recognised (verdict recorded), False otherwise"""
    res = Resolver(b)
    be = guards.back_edges(b)
    pair = None
    for i, j, st in b.stmts():
        r = st["r"] if st["k"] == "assign" else None
        if r and r["k"] == "agg" and r["ak"] == "tuple" and len(r["ops"]) == 2 and all(o["k"] in ("move", "copy") and not o["p"]["pr"] for o in r["ops"]):
            ls = [o["p"]["l"] for o in r["ops"]]
            if all("Vec<usize>" in b.local_ty(l) for l in ls):
                def src(l, depth=0):
                    ds = [d for d in b.defs.get(l, []) if d.kind == "assign"]
                    if depth < 4 and len(b.defs.get(l, [])) == 1 and ds and ds[0].data["r"]["k"] == "use" and \
                            ds[0].data["r"]["o"]["k"] in ("move", "copy") and not ds[0].data["r"]["o"]["p"]["pr"]:
                        return src(ds[0].data["r"]["o"]["p"]["l"], depth + 1)
                    return l
                pair = [src(l) for l in ls]
    if not pair:
        return False
    pushes = {}
    for bb, t in b.calls():
        f = t.get("f")
        if f and f["path"].endswith("Vec::<T, A>::push") and t["args"][0]["k"] in ("move", "copy"):
            tgt = b.mutref_of.get(t["args"][0]["p"]["l"])
            pushes.setdefault(tgt, []).append((bb, res.operand(t["args"][1])))
    if not (pushes.get(pair[0]) and pushes.get(pair[1])):
        return False
    verdicts = []
    for (sw, term, tb, fb) in guards.bool_switches(b, res):
        if term[0] != "idx":
            continue
        ix = term[2]
        rt = b.reachable_from([tb], cut_edges=be, cut_blocks=frozenset([fb]))
        rf = b.reachable_from([fb], cut_edges=be, cut_blocks=frozenset([tb]))
        t_test = [v for (bb, v) in pushes[pair[1]] if bb in rt and bb not in rf]
        t_train = [v for (bb, v) in pushes[pair[0]] if bb in rt and bb not in rf]
        f_test = [v for (bb, v) in pushes[pair[1]] if bb in rf and bb not in rt]
        f_train = [v for (bb, v) in pushes[pair[0]] if bb in rf and bb not in rt]
        if not (t_test or t_train or f_test or f_train):
            continue
        ok = t_test and f_train and not t_train and not f_test and all(v == ix for v in t_test + f_train)
        verdicts.append((ok, b.where(sw), render(term)[:60]))
    if not verdicts:
        return False
    if all(v[0] for v in verdicts):
        ck.ok(rule, inst, b.path, verdicts[0][1], f"loop form: `{verdicts[0][2]}` true -> test.push(position), false -> train.push(position)")
    else:
        w = [v for v in verdicts if not v[0]][0]
        ck.violation(rule, inst, b.path, w[1], expected="mask true -> the position joins the test part (second component), mask false -> the train part",
                     found=f"the branches on `{w[2]}` push into the wrong part or push something other than the tested position")
    return True


def kfold_polarity(ck, prog):
    rule = "E2c-polarity"
    inst = "KFoldIter::next: (train, test) = (mask false, mask true) over one enumeration"
    try:
        nxt = prog.one(r"^<model_selection::kfold::KFoldIter as std::iter::Iterator>::next$")
    except AnchorError as e:
        ck.violation(rule, inst, "KFoldIter::next", "", expected="anchor exists", found=f"anchor vanished: {e}")
        return
    # the pair may be built in `next` itself or in a closure mapped over the popped mask
    bodies, stack = [nxt], list(prog.closures_of.get(nxt.path, []))
    while stack:
        c = stack.pop()
        bodies.append(c)
        stack.extend(prog.closures_of.get(c.path, []))
    cand = None
    for bd in bodies:
        rs = Resolver(bd)
        for i, j, s in bd.stmts():
            r = s["r"] if s["k"] == "assign" else None
            if r and r["k"] == "agg" and r["ak"] == "tuple" and len(r["ops"]) == 2:
                comps = [rs.operand(o) for o in r["ops"]]
                if all(calls_in(c, "Iterator::filter") for c in comps):
                    cand = (bd, comps, bd.where(i, j))
    if not cand and _polarity_loop_form(ck, prog, nxt, rule, inst):
        return
    if not cand:
        ck.violation(rule, inst, nxt.path, f"{nxt.loc[0]}:{nxt.loc[1]}", expected="a (train, test) pair built from two filters over the mask", found="no such pair found")
        return
    bd, comps, site = cand
    problems = []
    pol, srcs, masks = [], [], []
    for comp in comps:
        fl = calls_in(comp, "Iterator::filter")
        mp = calls_in(comp, "Iterator::map")
        if len(fl) != 1 or len(mp) > 1:
            problems.append(f"component `{render(comp)[:100]}` is not collect([map](filter(..)))")
            continue
        srcs.append(fl[0][2][0])
        clo = fl[0][2][1]
        if not (clo[0] == "agg" and clo[1].startswith("closure:")):
            problems.append("filter predicate is not a closure literal")
            continue
        cb = prog.get(clo[1][len("closure:"):])
        cr = Resolver(cb).local(0)
        neg = False
        while cr[0] == "un" and cr[1] == "Not":
            neg = not neg
            cr = cr[2]
        if not (cr[0] == "idx" and cr[1][0] == "upvar"):
            problems.append(f"filter predicate `{render(cr)[:80]}` is not mask[position]")
            continue
        ix = cr[2]
        # the looked-up position is the item itself (range form) or the counter of an enumerate item
        form = "item" if ix[0] == "arg" else "counter" if (ix[0] == "field" and ix[2] == "0" and ix[1][0] == "arg") else None
        if form is None:
            problems.append(f"mask is indexed by `{render(ix)[:60]}`, not by the position being filtered")
            continue
        if mp:
            mc = mp[0][2][1]
            mb = prog.get(mc[1][len("closure:"):]) if mc[0] == "agg" and mc[1].startswith("closure:") else None
            mr = Resolver(mb).local(0) if mb else None
            same = mr is not None and ((form == "counter" and mr[0] == "field" and mr[2] == "0" and mr[1][0] == "arg") or (form == "item" and mr[0] == "arg"))
            if not same:
                problems.append("the collected value is not the position looked up in the mask")
        elif form != "item":
            problems.append("enumerate items are collected without projecting the position")
        cap = dict(zip([cb.upvars.get(i) for i in range(len(clo[2]))], clo[2]))
        masks.append(cap.get(cr[1][1]))
        pol.append(neg)
    if len(pol) == 2:
        if masks[0] != masks[1] or masks[0] is None:
            problems.append("train and test filters read different masks")
        if not (pol[0] is True and pol[1] is False):
            problems.append(f"polarity (negated?) train={pol[0]} test={pol[1]}; expected train = !mask, test = mask")
        if len(srcs) == 2 and srcs[0] != srcs[1]:
            problems.append("train and test walk different sequences")
    if problems:
        ck.violation(rule, inst, bd.path, site, expected="train = positions where !mask[i], test = positions where mask[i], same mask, train first",
                     found="; ".join(problems))
    else:
        ck.ok(rule, inst, bd.path, site, "(" + render(comps[0])[:90] + ", ..)")


RNG_DRAWS = ("SliceRandom::shuffle", "SliceRandom::choose", "Rng::gen", "Rng::gen_range", "RngCore::next_u64", "RngCore::next_u32",
             "Rng::sample", "Rng::gen_bool", "Distribution::sample", "SliceRandom::choose_multiple", "SliceRandom::partial_shuffle")


def shuffle_gating(ck, prog):
    rule = "E2b-guarded"
    for fn, flag, inst in ((r"^model_selection::kfold::KFold::test_indices$", lambda t: t[0] == "field" and t[2] == "shuffle" and t[1][0] == "arg" and t[1][1] == 1,
                            "KFold::test_indices: RNG draws only under self.shuffle"),
                           (TTS, lambda t: t[0] == "arg" and t[1] == 4, "train_test_split: RNG draws only under shuffle")):
        try:
            b = prog.one(fn)
        except AnchorError as e:
            ck.violation(rule, inst, fn, "", expected="anchor exists", found=f"anchor vanished: {e}")
            continue
        res = Resolver(b)
        sw = [s for s in guards.bool_switches(b, res) if flag(s[1])]
        draws = [(bb, t) for bb, t in b.calls() if t.get("f") and t["f"]["path"].endswith(RNG_DRAWS)]
        # calls into local functions that may draw are treated as draws too
        for bb, t in b.calls():
            f = t.get("f")
            if f and (f["path"].endswith(("rand::thread_rng", "::from_entropy")) or "rand::random" in f["path"]):
                draws.append((bb, t))
        if not draws:
            ck.ok(rule, inst, b.path, f"{b.loc[0]}:{b.loc[1]}", "no RNG use at all")
            continue
        bad = []
        for bb, t in draws:
            if not any(b.dominates(tb, bb) and not b.dominates(fb, bb) for (_, _, tb, fb) in sw):
                bad.append(f"{t['f']['path']} at {b.where(bb)}")
        if bad:
            ck.violation(rule, inst, b.path, b.where(draws[0][0]), expected="every RNG use is dominated by the true edge of the shuffle flag",
                         found="; ".join(bad))
        else:
            ck.ok(rule, inst, b.path, b.where(draws[0][0]), f"{len(draws)} RNG uses, all under the flag")


def run(ck, prog):
    e1.run(ck, prog, SPECS)
    cross_validate(ck, prog)
    cross_val_predict(ck, prog)
    train_test(ck, prog)
    kfold_polarity(ck, prog)
    shuffle_gating(ck, prog)
    ck.floor("E1-guard", 5)
    ck.floor("E2c-noleak", 5)
    ck.floor("E2c-pairing", 3)
    ck.floor("E2c-polarity", 1)
    ck.floor("E2b-guarded", 2)


def builders(ck, prog):
    """KFold's builder setters change their own field only: `with_n_splits(5).with_shuffle(false)` must still have 5 folds"""
    rule = "E2-provenance"
    adt = prog.adts.get("model_selection::kfold::KFold")
    fields = [f["name"] for f in adt["variants"][0]["fields"]] if adt else []
    for m in ("with_n_splits", "with_shuffle"):
        target = m[len("with_"):]
        inst = f"KFold::{m} sets `{target}` and keeps every other field"
        b = prog.bodies.get(f"model_selection::kfold::KFold::{m}")
        if not b or target not in fields:
            ck.violation(rule, inst, f"KFold::{m}", "", expected="anchor exists", found="anchor vanished")
            continue
        res = Resolver(b)
        ret = res.local(0)
        problems = []
        if ret[0] == "arg" and ret[1] == 1:
            # in-place form: only the target field of `self` is stored to, with the argument
            stores = [d for d in b.partial_defs.get(1, []) if d.kind == "assign"]
            names = []
            for d in stores:
                fs = [e["n"] for e in d.data["p"]["pr"] if isinstance(e, dict) and "f" in e]
                names.append(fs[0] if fs else "?")
                v = res.rvalue(d.data["r"], 0, ())
                if fs and fs[0] == target and not (v[0] == "arg" and v[1] == 2):
                    problems.append(f"`{target}` is set to `{render(v)[:40]}`, not to the argument")
            if sorted(set(names)) != [target]:
                problems.append(f"stores to fields {sorted(set(names))}")
        elif ret[0] == "agg" and ret[1].endswith("KFold::KFold"):
            vals = dict(zip(ret[3], ret[2]))
            for f in fields:
                v = vals.get(f)
                if f == target:
                    if not (v and v[0] == "arg" and v[1] == 2):
                        problems.append(f"`{f}` is set to `{render(v)[:40] if v else None}`, not to the argument")
                elif not (v and v[0] == "field" and v[2] == f and v[1][0] == "arg" and v[1][1] == 1):
                    problems.append(f"`{f}` is taken from `{render(v)[:50] if v else None}` instead of self.{f}")
        else:
            problems.append(f"returns `{render(ret)[:80]}`")
        if problems:
            ck.violation(rule, inst, b.path, f"{b.loc[0]}:{b.loc[1]}", expected="only the named field changes", found="; ".join(problems))
        else:
            ck.ok(rule, inst, b.path, f"{b.loc[0]}:{b.loc[1]}", render(ret)[:80])


_run_c16 = run


def run(ck, prog):
    _run_c16(ck, prog)
    builders(ck, prog)
    ck.floor("E2-provenance", 2)


def take_is_gather(ck, prog):
    """BaseVector::take / BaseMatrix::take are the trait-default gather loops (result[i] = self[index[i]]) and the built-in
    types do not override them: 'each target still attached to its own row' rests on both takes using the same gather"""
    rule = "E8-by-construction"
    for trait, selfs in (("linalg::BaseVector", ("std::vec::Vec",)), ("linalg::BaseMatrix", ("linalg::naive::dense_matrix::DenseMatrix",))):
        inst = f"{trait.split('::')[-1]}::take is the default gather loop, not overridden by the built-in type"
        d = prog.bodies.get(f"{trait}::take")
        ov = [b.impl_self for b in prog.bodies.values() if b.impl_trait == trait and b.name == "take" and b.kind != "Closure"
              and (b.impl_self or "").startswith(selfs)]
        if not d:
            ck.violation(rule, inst, f"{trait}::take", "", expected="trait default body exists", found="anchor vanished")
            continue
        res = Resolver(d)
        problems = []
        if ov:
            problems.append(f"overridden for {ov}")
        sets = [(bb, t) for bb, t in d.calls() if t.get("f") and t["f"]["path"].endswith(("BaseVector::set", "BaseMatrix::set"))]
        if not sets:
            problems.append("no element store found")
        for bb, t in sets:
            a = [res.operand(x) for x in t["args"]]
            val = a[-1]
            gets = [s for s in subterms(val) if s[0] == "call" and s[1].endswith(("BaseVector::get", "BaseMatrix::get"))]
            en = calls_in(val, "Iterator::enumerate")
            ok = bool(gets) and bool(en) and any(x[0] == "arg" and x[1] == 2 for x in subterms(peel(en[0][2][0]))) and val == gets[0]
            # the element read is addressed by the index VALUE (item.1), the store by the item COUNTER (item.0)
            reads_idx = any(s[0] == "field" and s[2] == "1" for g in gets for s in subterms(g))
            writes_cnt = any(s[0] == "field" and s[2] == "0" for x in a[1:-1] for s in subterms(x))
            if not gets and en and val[0] == "field" and val[2] == "1":
                # `index.iter().map(|&idx| self.get(idx)).enumerate()`: the gathered value is produced by the map closure
                for m in calls_in(en[0][2][0], "Iterator::map"):
                    if len(m[2]) == 2 and m[2][1][0] == "agg" and m[2][1][1].startswith("closure:") and \
                            any(x[0] == "arg" and x[1] == 2 for x in subterms(peel(m[2][0]))):
                        cb = prog.get(m[2][1][1][len("closure:"):])
                        if cb is not None:
                            cr = Resolver(cb).local(0)
                            if cr[0] == "call" and cr[1].endswith(("BaseVector::get", "BaseMatrix::get")) and cr[2] and \
                                    cr[2][0][0] == "upvar" and any(x[0] == "arg" and x[1] == 2 for x in cr[2][1:]):
                                ok, reads_idx = True, True
            if not (ok and reads_idx and writes_cnt):
                problems.append(f"store at {d.where(bb)} is not result[counter] = self[index value]: `{render(val)[:80]}`")
        # every returned value is the gathered buffer: no path hands back self (or a copy of it) un-gathered
        from sa.prov import alts as _alts
        ret = res.local(0)
        for a in [ret] + list(_alts(ret)):
            if a[0] == "arg" and a[1] == 1:
                problems.append("some path returns self (or a clone of it) instead of the gathered buffer: a selection of all "
                                "rows in another order comes back unpermuted")
                break
        if problems:
            ck.violation(rule, inst, d.path, f"{d.loc[0]}:{d.loc[1]}", expected="result[i] = self[index[i]] for (i, idx) in index.iter().enumerate(), default body used by the built-in type",
                         found="; ".join(problems))
        else:
            ck.ok(rule, inst, d.path, f"{d.loc[0]}:{d.loc[1]}", f"{len(sets)} gather store(s)")


_run_c16b = run


def run(ck, prog):
    _run_c16b(ck, prog)
    take_is_gather(ck, prog)
    ck.floor("E8-by-construction", 2)


# ------------------------------------------------------------------ fold sizes: quotient and remainder of the same division
_run_pre_divmod = run


def divmod_pairing(ck, prog):
    """Fold sizes are n div k, with the n mod k left-over samples handed out one each. Structural necessary conditions in
    KFold::test_indices (and its closures): every remainder taken is n % n_splits for n = rows(x) - the same operands as the
    quotient - and the remainder is used as a count (iteration bound / take / comparison with a position), not merely tested
    against zero. Decided: the operands and the role of the remainder; not the arithmetic of the resulting partition."""
    from sa.prov import Resolver, render, subterms
    from sa.match import dim_of
    rule, inst = "E2-provenance", "KFold::test_indices: the remainder handed out is rows(x) % n_splits, used as a count"
    try:
        b = prog.one(r"^model_selection::kfold::KFold::test_indices$")
    except AnchorError as e:
        ck.violation(rule, inst, "KFold::test_indices", "", expected="anchor exists", found=f"anchor vanished: {e}")
        return
    bodies = [b] + prog.closures_of.get(b.path, [])
    rems, flagged_zero, counted = {}, [], False

    def is_n(t):
        d = dim_of(t)
        return bool(d) and d[0] in ("rows", "len") and ((d[1][0] == "arg" and d[1][1] == 2) or d[1][0] == "upvar")

    def is_k(t):
        return (t[0] == "field" and t[2] == "n_splits") or (t[0] == "upvar" and "n_splits" in str(t[1]))
    for bd in bodies:
        rs = Resolver(bd)
        terms = []
        for bb, t in bd.calls():
            for a in t["args"]:
                terms.append((bd.where(bb), rs.operand(a), t.get("f") or {}))
        for i, j, s in bd.stmts():
            if s["k"] == "assign" and s["r"]["k"] in ("bin", "agg"):
                terms.append((bd.where(i, j), rs.rvalue(s["r"], 0, ()), {}))
        for where, tm, f in terms:
            for s in subterms(tm):
                if s[0] == "bin" and s[1] == "Rem":
                    rems.setdefault(render(s), (where, s))
            # role: a remainder as take() count / range bound
            if f.get("path", "").endswith(("Iterator::take", "Iterator::skip")) and tm[0] == "bin" and tm[1] == "Rem":
                counted = True
            if tm[0] == "agg" and tm[1].endswith("Range::Range") and any(x[0] == "bin" and x[1] == "Rem" for x in tm[2]):
                counted = True
        for c in guards.comparisons(bd, rs):
            for (L, R) in ((c.lhs, c.rhs), (c.rhs, c.lhs)):
                if L[0] == "bin" and L[1] == "Rem":
                    if R == ("int", 0):
                        flagged_zero.append(c.where)
                    else:
                        counted = True
    if not rems:
        ck.note(f"{inst}: no remainder operation in KFold::test_indices (sizes computed differently): no instance")
        return
    n = 0
    for key, (where, s) in sorted(rems.items()):
        n += 1
        a, k = s[2], s[3]
        if is_n(a) and is_k(k):
            ck.ok(rule, inst, b.path, where, f"remainder `{key}`")
        else:
            ck.violation(rule, inst, b.path, where, ordinal=n, expected="rows(x) % self.n_splits",
                         found=f"the remainder taken is `{key}`")
    if flagged_zero and not counted:
        ck.violation(rule, inst, b.path, flagged_zero[0], ordinal=99, expected="the remainder is the NUMBER of folds that receive one more sample",
                     found="the remainder is only tested against zero (a flag): at most one fold is enlarged, the fold sizes no longer sum to n")


def run(ck, prog):
    _run_pre_divmod(ck, prog)
    divmod_pairing(ck, prog)


# ------------------------------------------------------------------ generic: rows/cols (outer/inner) mix-up of locally allocated buffers
_run_pre_dimension = run
DIMENSION_FILES = ['src/linalg/mod.rs', 'src/model_selection/kfold.rs', 'src/model_selection/mod.rs']


def run(ck, prog):
    _run_pre_dimension(ck, prog)
    from sa import dimension
    dimension.run_rule(ck, prog, set(DIMENSION_FILES))


# ------------------------------------------------------------------ generic: signed counters are not cast to unsigned on their negative side
_run_pre_negcast = run


def run(ck, prog):
    _run_pre_negcast(ck, prog)
    from sa import negcast
    negcast.run_rule(ck, prog, set(DIMENSION_FILES))


# ------------------------------------------------------------------ generic: `while counter < bound` loops advance their counter
_run_pre_progress = run


def run(ck, prog):
    _run_pre_progress(ck, prog)
    from sa import progress
    progress.run_rule(ck, prog, set(DIMENSION_FILES))


EXPLANATION += (' KFold::split accepts every k <= n (leave-one-out included).')


# ------------------------------------------------------------------ generic: no magnitude is compared with a signed raw element
_run_pre_magnitude = run


def run(ck, prog):
    _run_pre_magnitude(ck, prog)
    from sa import magnitude
    magnitude.run_rule(ck, prog, set(DIMENSION_FILES))


# ------------------------------------------------------------------ generic: backward strided scans (`j -= step`) continue exactly while j >= step
_run_pre_subguard = run


def run(ck, prog):
    _run_pre_subguard(ck, prog)
    from sa import subguard
    subguard.run_rule(ck, prog, set(DIMENSION_FILES))


# ------------------------------------------------------------------ generic: a configuration field read on one successful path is read on every successful path
_run_pre_config = run


def run(ck, prog):
    _run_pre_config(ck, prog)
    from sa import config
    config.run_rule(ck, prog, set(DIMENSION_FILES))


# ------------------------------------------------------------------ generic: the value tested against a bound is the value set to the bound (clamps)
_run_pre_clamp = run


def run(ck, prog):
    _run_pre_clamp(ck, prog)
    from sa import clamp
    clamp.run_rule(ck, prog, set(DIMENSION_FILES))


# ------------------------------------------------------------------ generic: an index variable of one range addresses one buffer with one stride
_run_pre_stride = run


def run(ck, prog):
    _run_pre_stride(ck, prog)
    from sa import stride
    stride.run_rule(ck, prog, set(DIMENSION_FILES))
