"""C17 distances: length contracts (E1) [+ E3 metric axioms, added below]."""
from sa import e1
from sa.e1 import G, NE, EQ
from sa.match import Dim, Base, Field, Int
from sa.guards import USIZE

LEVEL = "other"
EXPLANATION = (
    "E1 (guards): for each distance, the comparison between the two operand lengths (resp. operand length and "
    "covariance order) exists, its violating edge (lengths differ) is post-dominated by a panic, and it lies on "
    "every successful path; Minkowski additionally refuses p = 0 and accepts every p >= 1. Decides 'vectors of "
    "different length (or of a length that does not match the covariance) are rejected' and 'integer order "
    "p >= 1'. The metric values themselves are not decided by E1."
)

D = r"math::distance::"
SPECS = [
    G("len(x)!=len(y)->panic", r"^math::distance::euclidian::Euclidian::squared_distance$",
      Dim("len", 1), Dim("len", 2), NE, EQ, "panic"),
    G("len(x)!=len(y)->panic", r"^<math::distance::euclidian::Euclidian as math::distance::Distance<.*>>::distance$",
      Dim("len", 2), Dim("len", 3), NE, EQ, "panic"),
    G("len(x)!=len(y)->panic", r"^<math::distance::manhattan::Manhattan as math::distance::Distance<.*>>::distance$",
      Dim("len", 2), Dim("len", 3), NE, EQ, "panic"),
    G("len(x)!=len(y)->panic", r"^<math::distance::minkowski::Minkowski as math::distance::Distance<.*>>::distance$",
      Dim("len", 2), Dim("len", 3), NE, EQ, "panic"),
    G("len(x)!=len(y)->panic", r"^<math::distance::hamming::Hamming as math::distance::Distance<.*>>::distance$",
      Dim("len", 2), Dim("len", 3), NE, EQ, "panic"),
    G("len(x)!=order(sigma)->panic", r"^<math::distance::mahalanobis::Mahalanobis<T, M> as math::distance::Distance<.*>>::distance$",
      Dim("len", 2), Dim("rows", Base(1, "sigma")), NE, EQ, "panic"),
    G("len(y)!=order(sigma)->panic", r"^<math::distance::mahalanobis::Mahalanobis<T, M> as math::distance::Distance<.*>>::distance$",
      Dim("len", 3), Dim("rows", Base(1, "sigma")), NE, EQ, "panic"),
    G("p<1->panic", r"^<math::distance::minkowski::Minkowski as math::distance::Distance<.*>>::distance$",
      Field(1, "p"), Int(), [0], [("ge", 1)], "panic", int_domain=(0, 65535)),
]


def run(ck, prog):
    e1.run(ck, prog, SPECS)
    ck.floor("E1-guard", 8)
