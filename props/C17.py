"""C17 distances: length contracts (E1) [+ E3 metric axioms, added below]."""
from sa import e1
from sa.e1 import G, NE, EQ
from sa.match import Dim, Base, Field, Int
from sa.guards import USIZE

LEVEL = "other"
EXPLANATION = (
    "E1 (guards): for each distance, the comparison between the two operand lengths (resp. operand length and "
    "covariance order) exists, its violating edge (lengths differ) is post-dominated by a panic, and it lies on "
    "every successful path; Minkowski additionally refuses p = 0 and accepts every p >= 1. Decides 'vectors of "
    "different length (or of a length that does not match the covariance) are rejected' and 'integer order "
    "p >= 1'. The metric values themselves are not decided by E1."
)

D = r"math::distance::"
SPECS = [
    G("len(x)!=len(y)->panic", r"^math::distance::euclidian::Euclidian::squared_distance$",
      Dim("len", 1), Dim("len", 2), NE, EQ, "panic"),
    G("len(x)!=len(y)->panic", r"^<math::distance::euclidian::Euclidian as math::distance::Distance<.*>>::distance$",
      Dim("len", 2), Dim("len", 3), NE, EQ, "panic"),
    G("len(x)!=len(y)->panic", r"^<math::distance::manhattan::Manhattan as math::distance::Distance<.*>>::distance$",
      Dim("len", 2), Dim("len", 3), NE, EQ, "panic"),
    G("len(x)!=len(y)->panic", r"^<math::distance::minkowski::Minkowski as math::distance::Distance<.*>>::distance$",
      Dim("len", 2), Dim("len", 3), NE, EQ, "panic"),
    G("len(x)!=len(y)->panic", r"^<math::distance::hamming::Hamming as math::distance::Distance<.*>>::distance$",
      Dim("len", 2), Dim("len", 3), NE, EQ, "panic"),
    G("len(x)!=order(sigma)->panic", r"^<math::distance::mahalanobis::Mahalanobis<T, M> as math::distance::Distance<.*>>::distance$",
      Dim("len", 2), Dim("rows", Base(1, "sigma")), NE, EQ, "panic"),
    G("len(y)!=order(sigma)->panic", r"^<math::distance::mahalanobis::Mahalanobis<T, M> as math::distance::Distance<.*>>::distance$",
      Dim("len", 3), Dim("rows", Base(1, "sigma")), NE, EQ, "panic"),
    G("p<1->panic", r"^<math::distance::minkowski::Minkowski as math::distance::Distance<.*>>::distance$",
      Field(1, "p"), Int(), [0], [("ge", 1)], "panic", int_domain=(0, 65535)),
]


def run(ck, prog):
    e1.run(ck, prog, SPECS)
    ck.floor("E1-guard", 8)


# ---------------------------------------------------------------- E3: metric axioms by abstract interpretation
LEVEL = "proof"
TECHNIQUE = "abstract interpretation over rustc MIR (swap-parity / diagonal-zero / sign domains) + guard/post-dominance rules"
EXPLANATION = (
    "Proof (abstract interpretation over MIR; all vector lengths, all finite components, both float widths) of three "
    "metric axioms for the five distances: d(x,y) == d(y,x) bit for bit (parity S under exchange of the arguments), "
    "d(x,x) == 0 (diagonal value Z; finite inputs so that x - x = 0), d >= 0 or NaN (sign NN; for Mahalanobis this is the "
    "'sqrt' bound, positive-definiteness is not used) - 15 obligations, each the abstract value of the return place of "
    "Distance::distance (Euclidian through squared_distance, analysed inter-procedurally). Plus E1: the length contracts "
    "(mismatch -> panic on every path; Minkowski p = 0 refused, p >= 1 accepted), which are also what identifies len(x) "
    "with len(y) in the proof. NOT decided: the triangle inequality, agreement with the closed forms, "
    "Minkowski(1|2) = Manhattan/Euclid, Mahalanobis(I) = Euclid."
)
CLAIM = EXPLANATION
NOTE = ("trusted base: rustc MIR; the transfer table of sa/absint.py (IEEE: a-b = -(b-a), |−t| = |t|, (−a)(−b) = ab, + and * commutative, "
        "all exact; sums are taken in the same order because loop ranges are symmetric; external float functions are deterministic "
        "functions of their arguments); flow-insensitive weak updates; unknown callee => T => obligation not discharged")

DIST = [
    ("Euclidian", r"<math::distance::euclidian::Euclidian as math::distance::Distance<std::vec::Vec<T>, T>>::distance"),
    ("Manhattan", r"<math::distance::manhattan::Manhattan as math::distance::Distance<std::vec::Vec<T>, T>>::distance"),
    ("Minkowski", r"<math::distance::minkowski::Minkowski as math::distance::Distance<std::vec::Vec<T>, T>>::distance"),
    ("Hamming", r"<math::distance::hamming::Hamming as math::distance::Distance<std::vec::Vec<T>, F>>::distance"),
    ("Mahalanobis", r"<math::distance::mahalanobis::Mahalanobis<T, M> as math::distance::Distance<std::vec::Vec<T>, T>>::distance"),
]

_run_e1 = run


def run(ck, prog):
    from sa import absint
    _run_e1(ck, prog)
    ck.trusted_base = [NOTE]
    for nm, path in DIST:
        b = prog.bodies.get(path)
        if not b:
            for ob in ("symmetric", "zero on identical arguments", "non-negative"):
                ck.obligation("E3-metric", f"{nm}: {ob}", path, False, detail="anchor vanished")
            continue
        ai = absint.AbsInt(b, prog, {1: "S", 2: "XV", 3: "YV"})
        v = ai.val.get(0)
        site = f"{b.loc[0]}:{b.loc[1]}"
        unk = f"; callees without transfer function: {ai.unknown[:3]}" if ai.unknown else ""
        ck.obligation("E3-metric", f"{nm}: symmetric", b.path, v[0] == "S", site=site, detail=f"return value {v}{unk}",
                      expected="parity S of the return place under exchange of x and y")
        ck.obligation("E3-metric", f"{nm}: zero on identical arguments", b.path, v[1] == "Z", site=site, detail=f"return value {v}{unk}",
                      expected="diagonal value Z of the return place")
        ck.obligation("E3-metric", f"{nm}: non-negative", b.path, v[2] == "NN", site=site, detail=f"return value {v}{unk}",
                      expected="sign NN (non-negative or NaN) of the return place")
    ck.floor("E3-metric", 15)


# ------------------------------------------------------------------ translation-invariant (difference) form
_run_pre_difference = run
DIFF_FNS = [
    ("Euclidian::squared_distance", r"^math::distance::euclidian::Euclidian::squared_distance$", 1, 2),
    ("Euclidian::distance", r"^<math::distance::euclidian::Euclidian as math::distance::Distance<std::vec::Vec<T>, T>>::distance$", 2, 3),
    ("Manhattan::distance", r"^<math::distance::manhattan::Manhattan as math::distance::Distance<std::vec::Vec<T>, T>>::distance$", 2, 3),
    ("Minkowski::distance", r"^<math::distance::minkowski::Minkowski as math::distance::Distance<std::vec::Vec<T>, T>>::distance$", 2, 3),
    ("Mahalanobis::distance", r"^<math::distance::mahalanobis::Mahalanobis<T, M> as math::distance::Distance<std::vec::Vec<T>, T>>::distance$", 2, 3),
]


def run(ck, prog):
    _run_pre_difference(ck, prog)
    from sa import difference
    difference.run_rule(ck, prog, DIFF_FNS)
    ck.floor("E2f-difference", 5)


EXPLANATION += (" Difference form (E2f-difference): Euclidean, Manhattan, Minkowski and Mahalanobis distances depend on their two vector arguments only through x - y - no "
                "arithmetic node of the result (dot, norm, sum, product, power) is computed from one of the vectors alone. The "
                "algebraically equal expansion |x|^2 + |y|^2 - 2 x.y cancels catastrophically for data with a large common offset "
                "(distinct points at distance 0, K = 1 or K > 1, negative squared distances).")
TECHNIQUE += "; difference-form provenance rule"


# ------------------------------------------------------------------ generic: rows/cols (outer/inner) mix-up of locally allocated buffers
_run_pre_dimension = run
DIMENSION_FILES = ['src/math/distance/euclidian.rs', 'src/math/distance/hamming.rs', 'src/math/distance/mahalanobis.rs', 'src/math/distance/manhattan.rs', 'src/math/distance/minkowski.rs', 'src/math/distance/mod.rs']


def run(ck, prog):
    _run_pre_dimension(ck, prog)
    from sa import dimension
    dimension.run_rule(ck, prog, set(DIMENSION_FILES))


# ------------------------------------------------------------------ generic: signed counters are not cast to unsigned on their negative side
_run_pre_negcast = run


def run(ck, prog):
    _run_pre_negcast(ck, prog)
    from sa import negcast
    negcast.run_rule(ck, prog, set(DIMENSION_FILES))


# ------------------------------------------------------------------ generic: `while counter < bound` loops advance their counter
_run_pre_progress = run


def run(ck, prog):
    _run_pre_progress(ck, prog)
    from sa import progress
    progress.run_rule(ck, prog, set(DIMENSION_FILES))


_run_pre_cov = run


def run(ck, prog):
    _run_pre_cov(ck, prog)
    from props import C03
    C03.centred_cov(ck, prog)                  # Mahalanobis::new(data) is built on DenseMatrix::cov: centred products, 'large magnitudes'


EXPLANATION += (" Mahalanobis::new(data): DenseMatrix::cov accumulates centred products (C03's rule, evaluated here as well).")


# ------------------------------------------------------------------ Mahalanobis: sigmaInv is the LU inverse of the covariance as given
_run_pre_precision = run


def precision_of_given_sigma(ck, prog):
    """The form the distance evaluates is (x-y)' sigma^-1 (x-y) with sigma the covariance that was given / estimated: the
    matrix handed to lu() in mahalanobis.rs is that covariance itself - a parameter, a clone of one, or the result of cov() -
    and nothing writes into it between its creation and the factorisation (no ridge, no rescaling)."""
    rule, inst = "E2-provenance", "Mahalanobis: the matrix that is LU-inverted is the covariance as given (no write into it before lu())"
    n = 0
    for b in prog.bodies.values():
        if b.loc[0] != "src/math/distance/mahalanobis.rs" or "::tests::" in b.path:
            continue
        for bb, t in b.calls():
            f = t.get("f")
            if not f or not f["path"].endswith("LUDecomposableMatrix::lu"):
                continue
            a = t["args"][0]
            if a["k"] not in ("move", "copy"):
                continue
            l = a["p"]["l"]
            # follow `&x` / reborrows back to the matrix local
            seen = set()
            while l not in seen:
                seen.add(l)
                ds = [d for d in b.defs.get(l, []) if d.kind == "assign"]
                if len(ds) == 1 and ds[0].data["r"]["k"] == "ref":
                    l = ds[0].data["r"]["p"]["l"]
                elif len(ds) == 1 and ds[0].data["r"]["k"] == "use" and ds[0].data["r"]["o"]["k"] in ("move", "copy") \
                        and not ds[0].data["r"]["o"]["p"]["pr"]:
                    l = ds[0].data["r"]["o"]["p"]["l"]
                else:
                    break
            n += 1
            site = b.where(bb)
            if b.is_arg(l):
                ck.ok(rule, inst, b.path, site, "lu() is called on a parameter")
                continue
            ds = b.defs.get(l, [])
            writes = [d for d in ds if d.kind in ("mutcall", "store")] + list(b.partial_defs.get(l, []))
            srcs = [d for d in ds if d.kind in ("assign", "call")]
            ok_src = len(srcs) == 1 and srcs[0].kind == "call" and srcs[0].data.get("f") and \
                srcs[0].data["f"]["path"].endswith(("Clone::clone", "::cov", "ToOwned::to_owned"))
            if writes:
                w = writes[0]
                ck.violation(rule, inst, b.path, b.where(w.bb, w.idx),
                             expected="the covariance is factorised as given: sigmaInv * sigma = I",
                             found=f"`{b.local_name(l) or '_%d' % l}` is written to before lu() is called on it")
            elif not ok_src:
                what = srcs[0].data["f"]["path"] if srcs and srcs[0].kind == "call" and srcs[0].data.get("f") else "a computed value"
                ck.violation(rule, inst, b.path, site,
                             expected="lu() is called on the given covariance, a clone of it, or cov(data)",
                             found=f"`{b.local_name(l) or '_%d' % l}` comes from {what}")
            else:
                ck.ok(rule, inst, b.path, site, f"lu() on `{b.local_name(l) or l}` = {srcs[0].data['f']['path'].split('::')[-1]}(..), never written to")
    if n == 0:
        ck.note(f"{inst}: no call of lu() in mahalanobis.rs: no instance")


def run(ck, prog):
    _run_pre_precision(ck, prog)
    precision_of_given_sigma(ck, prog)
    # the inversion goes through linalg::lu: its singularity / pivot tests are zero tests or relative (C01's E4 binding)
    from props import C01
    C01.run_e4(ck, prog, r"^linalg::lu::LUDecomposableMatrix::lu_mut$|^linalg::lu::LU::<T, M>::(new|inverse|solve)$",
               ["lu_mut", "LU::<T, M>::new", "LU::<T, M>::inverse"])


EXPLANATION += (" Mahalanobis constructors: the matrix handed to lu() is the covariance as given (a parameter, a clone, or cov(data)) "
                "and is not written to before the factorisation; the LU routines it goes through (lu_mut, LU::new, inverse, solve) "
                "compare data only with zero or with data-derived scales (E4, C01's binding evaluated here as well).")
TECHNIQUE += "; provenance of the inverted matrix; E4 on the LU routines the constructors call"


# ------------------------------------------------------------------ generic: no magnitude is compared with a signed raw element
_run_pre_magnitude = run


def run(ck, prog):
    _run_pre_magnitude(ck, prog)
    from sa import magnitude
    magnitude.run_rule(ck, prog, set(DIMENSION_FILES))


# ------------------------------------------------------------------ generic: backward strided scans (`j -= step`) continue exactly while j >= step
_run_pre_subguard = run


def run(ck, prog):
    _run_pre_subguard(ck, prog)
    from sa import subguard
    subguard.run_rule(ck, prog, set(DIMENSION_FILES))


# ------------------------------------------------------------------ generic: a configuration field read on one successful path is read on every successful path
_run_pre_config = run


def run(ck, prog):
    _run_pre_config(ck, prog)
    from sa import config
    config.run_rule(ck, prog, set(DIMENSION_FILES))


# ------------------------------------------------------------------ generic: the value tested against a bound is the value set to the bound (clamps)
_run_pre_clamp = run


def run(ck, prog):
    _run_pre_clamp(ck, prog)
    from sa import clamp
    clamp.run_rule(ck, prog, set(DIMENSION_FILES))


# ------------------------------------------------------------------ generic: an index variable of one range addresses one buffer with one stride
_run_pre_stride = run


def run(ck, prog):
    _run_pre_stride(ck, prog)
    from sa import stride
    stride.run_rule(ck, prog, set(DIMENSION_FILES))
