"""C07 OLS / ridge: predict is the row-wise affine map X*w + b (one clause only)."""
from sa import rowwise
from sa.mir import AnchorError
from sa.prov import Resolver, render, subterms

LEVEL = "other"
EXPLANATION = (
    "ONE clause of the statement is decided: 'for both models predict(X) equals X*w + b row by row'. Rules on MIR provenance "
    "terms of LinearRegression::predict and RidgeRegression::predict: (1) row-wise non-interference - the input reaches the "
    "result only through row-preserving operations (left factor of matmul, element access, element-wise ops whose other "
    "operand does not depend on the input), never through a reduction over rows; (2) the result depends on BOTH "
    "self.coefficients (as the right factor of the product with the input) and self.intercept (in an additive position). "
    "Residual orthogonality, vanishing gradient and solver agreement are identities between computed floating-point values "
    "and are NOT decided."
)
TECHNIQUE = "static analysis of rustc MIR: row-wise non-interference and dependence of the prediction on coefficients and intercept"

FNS = [("LinearRegression", r"^linear::linear_regression::LinearRegression::<T, M>::predict$"),
       ("RidgeRegression", r"^linear::ridge_regression::RidgeRegression::<T, M>::predict$")]


def run(ck, prog):
    rule = "E2c-rowwise"
    for nm, fn in FNS:
        inst = f"{nm}::predict is the row-wise map X*coefficients + intercept"
        try:
            b = prog.one(fn)
        except AnchorError as e:
            ck.violation(rule, inst, fn, "", expected="anchor exists", found=f"anchor vanished: {e}")
            continue
        uses, problems = rowwise.check(prog, b, 2)
        res = Resolver(b)
        ret = res.local(0)
        is_self = lambda t, f: t[0] == "field" and t[2] == f and t[1][0] == "arg" and t[1][1] == 1
        mm = [s for s in subterms(ret) if s[0] == "call" and s[1].endswith("BaseMatrix::matmul") and len(s[2]) == 2]
        if not any(s[2][0][0] == "arg" and s[2][0][1] == 2 and is_self(s[2][1], "coefficients") for s in mm):
            # loop form: products of x.get(..) with coefficients.get(..)
            prod = [s for s in subterms(ret) if s[0] == "call" and s[1] == "std::ops::Mul::mul"
                    and any(x[0] == "arg" and x[1] == 2 for x in subterms(s)) and any(is_self(x, "coefficients") for x in subterms(s))]
            if not prod:
                problems.append("the input is not multiplied with self.coefficients")
        add = [s for s in subterms(ret) if s[0] == "call" and s[1].split("::")[-1] in ("add_mut", "add", "add_scalar_mut", "add_scalar", "add_element_mut", "add_assign")
               and any(is_self(x, "intercept") for x in subterms(s))]
        if not add:
            problems.append("self.intercept is not added to the product")
        if problems:
            ck.violation(rule, inst, b.path, f"{b.loc[0]}:{b.loc[1]}", expected="predict = x.matmul(coefficients) + intercept, row by row", found="; ".join(problems))
        else:
            ck.ok(rule, inst, b.path, f"{b.loc[0]}:{b.loc[1]}", f"uses {sorted({u[1] for u in uses})}; intercept added via {add[0][1].split('::')[-1]}")
    ck.floor(rule, 2)


_run_pre_builders = run


def run(ck, prog):
    _run_pre_builders(ck, prog)
    # every setting of the quantifier is reachable through the public builder chain: setters must not clobber other fields
    from sa.builders import check_builders
    check_builders(ck, prog, r"^linear::(linear_regression::LinearRegression|ridge_regression::RidgeRegression)Parameters$")
    ck.floor("E2-builder", 4)


# ------------------------------------------------------------------ generic: rows/cols (outer/inner) mix-up of locally allocated buffers
_run_pre_dimension = run
DIMENSION_FILES = ['src/linalg/cholesky.rs', 'src/linalg/qr.rs', 'src/linalg/stats.rs', 'src/linalg/svd.rs', 'src/linear/linear_regression.rs', 'src/linear/ridge_regression.rs']


def run(ck, prog):
    _run_pre_dimension(ck, prog)
    from sa import dimension
    dimension.run_rule(ck, prog, set(DIMENSION_FILES))


# ------------------------------------------------------------------ generic: signed counters are not cast to unsigned on their negative side
_run_pre_negcast = run


def run(ck, prog):
    _run_pre_negcast(ck, prog)
    from sa import negcast
    negcast.run_rule(ck, prog, set(DIMENSION_FILES))


# ------------------------------------------------------------------ generic: `while counter < bound` loops advance their counter
_run_pre_progress = run


def run(ck, prog):
    _run_pre_progress(ck, prog)
    from sa import progress
    progress.run_rule(ck, prog, set(DIMENSION_FILES))


# ------------------------------------------------------------------ the solvers' entry conditions on the quantified domain (p < n)
_run_pre_domain = run


def run(ck, prog):
    _run_pre_domain(ck, prog)
    # ridge: every design with more rows than columns is fitted (n = p + 1 included), whatever the normalisation setting
    from sa.e1 import accepts_above
    from sa.match import Dim
    accepts_above(ck, prog, r"^linear::ridge_regression::RidgeRegression::<T, M>::fit$", Dim("rows", 1), Dim("cols", 1),
                  "RidgeRegression::fit: no refusal of a design with n > p")
    # OLS through QR: the Householder norm takes the sign of the pivot (C01's rule, evaluated here as well: a cancelled
    # reflector gives NaN coefficients for n = p + 1 designs and for a negative dominant first entry)
    from props import C01
    C01.qr_householder_sign(ck, prog)


EXPLANATION += (" Domain entry: RidgeRegression::fit refuses no design with n > p (a refusing comparison of the row count with "
                "cols + c is evaluated as an integer interval; n = p + 1 must pass for every normalisation setting). QR path: "
                "the Householder norm in qr_mut takes the sign of the diagonal entry (C01's rule).")
TECHNIQUE += "; accept-side guard rule with affine bounds; sign-source rule for the Householder norm"


# ------------------------------------------------------------------ generic: no magnitude is compared with a signed raw element
_run_pre_magnitude = run


def run(ck, prog):
    _run_pre_magnitude(ck, prog)
    from sa import magnitude
    magnitude.run_rule(ck, prog, set(DIMENSION_FILES))


# ------------------------------------------------------------------ generic: backward strided scans (`j -= step`) continue exactly while j >= step
_run_pre_subguard = run


def run(ck, prog):
    _run_pre_subguard(ck, prog)
    from sa import subguard
    subguard.run_rule(ck, prog, set(DIMENSION_FILES))


# ------------------------------------------------------------------ generic: a configuration field read on one successful path is read on every successful path
_run_pre_config = run


def run(ck, prog):
    _run_pre_config(ck, prog)
    from sa import config
    config.run_rule(ck, prog, set(DIMENSION_FILES))


# ------------------------------------------------------------------ generic: the value tested against a bound is the value set to the bound (clamps)
_run_pre_clamp = run


def run(ck, prog):
    _run_pre_clamp(ck, prog)
    from sa import clamp
    clamp.run_rule(ck, prog, set(DIMENSION_FILES))


# ------------------------------------------------------------------ generic: an index variable of one range addresses one buffer with one stride
_run_pre_stride = run


def run(ck, prog):
    _run_pre_stride(ck, prog)
    from sa import stride
    stride.run_rule(ck, prog, set(DIMENSION_FILES))
