"""C08 Lasso / elastic net: the invalid-settings clause (E1)."""
from sa import e1, guards
from sa.e1 import G, NE, EQ, BodyCtx
from sa.match import Dim, Base, Arg, Field, Int, Zero, Pred, contains
from sa.mir import AnchorError
from sa.prov import render, subterms

LEVEL = "other"
EXPLANATION = (
    "E1: Lasso::fit reports each invalid setting the statement lists as an Err on every path and accepts the valid "
    "ones: n <= p refused (n > p accepted), alpha < 0 refused (alpha >= 0 accepted), tol <= 0 refused (tol > 0 "
    "accepted), max_iter = 0 refused (>= 1 accepted), len(y) != n refused; under normalisation a column whose "
    "standard deviation is zero is refused by rescale_x, whose Err is ?-propagated by fit on every normalising path "
    "before the optimizer is built. Termination, near-optimality and the elastic-net relations are not decided."
)

FIT = r"^linear::lasso::Lasso::<T, M>::fit$"
SPECS = [
    G("n<=p->Err, n>p accepted", FIT, Dim("rows", 1), Dim("cols", 1), "nz", "p", "Err"),
    G("alpha<0->Err, alpha>=0 accepted", FIT, Field(3, "alpha"), Zero(), "n", "zp", "Err"),
    G("tol<=0->Err, tol>0 accepted", FIT, Field(3, "tol"), Zero(), "nz", "p", "Err"),
    G("max_iter=0->Err, >=1 accepted", FIT, Field(3, "max_iter"), Int(), [0], [("ge", 1)], "Err", int_domain=guards.USIZE),
    G("len(y)!=n->Err", FIT, Dim("len", 2), Dim("rows", 1), NE, EQ, "Err"),
]

IS_STD = lambda t: t[0] == "call" and t[1].endswith("MatrixStats::std")
IS_EPS = lambda t: t[0] == "call" and t[1].endswith("::epsilon") and not t[2]


def constant_column(ck, prog):
    rule, inst = "E1-guard", "constant column under normalisation -> Err (rescale_x, ?-propagated by fit)"
    try:
        rx = prog.one(r"^linear::lasso::Lasso::<T, M>::rescale_x$")
        fit = prog.one(FIT)
    except AnchorError as e:
        ck.violation(rule, inst, "rescale_x", "", expected="anchors exist", found=f"anchor vanished: {e}")
        return
    cx = BodyCtx.of(rx)
    ok_site = None
    why = "no comparison of a column standard deviation of x against zero / epsilon whose small side returns Err"
    for c in cx.cmps:
        for (L, R, rel) in ((c.lhs, c.rhs, c.rel), (c.rhs, c.lhs, guards.FLIP[c.rel])):
            if not contains(L, IS_STD):
                continue
            zero_b, eps_b = Zero()(R), IS_EPS(R)
            if not (zero_b or eps_b):
                continue
            for edge_rel, dst in ((rel, c.true_bb), (guards.NEG[rel], c.false_bb)):
                outs = cx.edges.get((c.bb, dst), set())
                if not guards.outcome_ok(outs, "Err"):
                    continue
                atoms = guards.ATOMS[edge_rel]
                # std == 0 must be refused: with bound 0 the edge must contain 'z'; with bound eps (> 0) it must contain 'n'
                need = "z" if zero_b else "n"
                if need in atoms and "p" not in atoms:
                    # the standard deviation is of the function's matrix argument
                    ok_site = (c.where, f"`{render(L)[:70]} {edge_rel} {render(R)}` -> Err")
                else:
                    why = f"`{render(L)[:70]} {edge_rel} {render(R)}` -> Err does not cover a zero standard deviation"
    if not ok_site:
        # iterator form: std.iter().position/any/find(|s| <test>) and the hit is turned into Err
        from sa.prov import Resolver, subterms
        for bb, t in rx.calls():
            f = t.get("f")
            if not (f and f["path"].endswith(("Iterator::position", "Iterator::any", "Iterator::find", "Iterator::find_map")) and len(t["args"]) == 2):
                continue
            recv = cx.res.operand(t["args"][0])
            if not contains(recv, IS_STD):
                continue
            clo = cx.res.operand(t["args"][1])
            cb = prog.get(clo[1][len("closure:"):]) if clo[0] == "agg" and clo[1].startswith("closure:") else None
            if cb is None:
                continue
            cr = Resolver(cb).local(0)
            c = guards._cond(None, cr)
            if not c:
                continue
            is_item = lambda s: s[0] == "arg" and s[1] == 2
            for (L, R, rel) in ((c[0], c[2], c[1]), (c[2], c[0], guards.FLIP[c[1]])):
                if not any(is_item(s) for s in subterms(L)):
                    continue
                zero_b, eps_b = Zero()(R), IS_EPS(R)
                if not (zero_b or eps_b):
                    continue
                atoms = guards.ATOMS[rel]
                need = "z" if zero_b else "n"
                if not (need in atoms and "p" not in atoms):
                    continue
                # the hit edge of the search result must return Err
                dl = t["d"]["l"]
                for i2, blk in enumerate(rx.blocks):
                    tt = blk["term"]
                    if blk["cleanup"] or tt["k"] != "switch" or tt["o"]["k"] not in ("copy", "move"):
                        continue
                    st = cx.res.operand(tt["o"])
                    hit = None
                    if st[0] == "discr" and any(s[0] == "call" and s[1] == f["path"] for s in subterms(st)):
                        hit = [d for v, d in tt["targets"] if v == "1"]
                    elif st[0] == "call" and st[1] == f["path"]:
                        hit = [tt["otherwise"]]
                    if hit:
                        outs = guards.edge_outcomes(rx, i2, hit[0], cx.res)
                        if guards.outcome_ok(outs, "Err"):
                            ok_site = (rx.where(bb), f"{f['path'].split('::')[-1]}(|s| `{render(L)[:50]} {rel} {render(R)}`) hit -> Err")
    if not ok_site:
        ck.violation(rule, inst, rx.path, f"{rx.loc[0]}:{rx.loc[1]}", expected="std(column) == 0 is refused with Err", found=why)
        return
    # fit: on the normalising path rescale_x(x) is called and its Err propagates, before the optimizer is constructed
    fx = BodyCtx.of(fit)
    norm = [s for s in guards.bool_switches(fit, fx.res) if s[1][0] == "field" and s[1][2] == "normalize"]
    calls = [(bb, t) for bb, t in fit.calls() if t.get("f") and t["f"]["path"].endswith("Lasso::<T, M>::rescale_x")]
    problems = []
    if len(norm) != 1:
        problems.append(f"expected one branch on parameters.normalize, found {len(norm)}")
    if not calls:
        problems.append("fit does not call rescale_x")
    if not problems:
        nb, _, tb, fb = norm[0]
        bb, t = calls[0]
        arg = fx.res.operand(t["args"][0])
        if not (arg[0] == "arg" and arg[1] == 1):
            problems.append(f"rescale_x is applied to `{render(arg)}`, not to x")
        if not e1._propagates_err(fit, fx, bb, t):
            problems.append("the Result of rescale_x is not ?-propagated")
        # every optimizer construction reachable from the normalising edge is dominated by the rescale_x call
        opt = [b2 for b2, t2 in fit.calls() if t2.get("f") and t2["f"]["path"].endswith("InteriorPointOptimizer::<T, M>::new")]
        reach_t = fit.reachable_from([tb])
        for ob in opt:
            if ob in reach_t and not fit.dominates(bb, ob) and not fit.dominates(fb, ob):
                problems.append(f"optimizer construction at {fit.where(ob)} on the normalising path is not dominated by rescale_x")
        if bb not in reach_t or not fit.dominates(tb, bb):
            problems.append("rescale_x is not on the normalising branch")
    if problems:
        ck.violation(rule, inst, fit.path, f"{fit.loc[0]}:{fit.loc[1]}", expected="fit ?-propagates rescale_x(x) on the normalising path", found="; ".join(problems))
    else:
        ck.ok(rule, inst, fit.path, ok_site[0], ok_site[1] + "; fit ?-propagates it on the normalising branch before building the optimizer")


def run(ck, prog):
    e1.run(ck, prog, SPECS)
    constant_column(ck, prog)
    ck.floor("E1-guard", 6)


def branch_siblings(ck, prog):
    """the penalty weight, iteration cap and tolerance handed to the optimizer do not depend on the normalisation branch:
    both calls of `optimize` in a fit receive the same terms (up to which design matrix was augmented)"""
    from sa.prov import Resolver
    rule = "E1-sibling"

    def skeleton(t):
        if not isinstance(t, tuple):
            return t
        if t and t[0] == "call" and t[1].endswith(("::augment_x_and_y", "::rescale_x")):
            return ("call", t[1], tuple("_" if i == 0 else skeleton(a) for i, a in enumerate(t[2])))
        return tuple(skeleton(x) for x in t)
    for nm, fn in (("Lasso", r"^linear::lasso::Lasso::<T, M>::fit$"), ("ElasticNet", r"^linear::elastic_net::ElasticNet::<T, M>::fit$")):
        inst = f"{nm}::fit passes the same (lambda, max_iter, tol) to the optimizer on both normalisation branches"
        try:
            b = prog.one(fn)
        except AnchorError as e:
            ck.violation(rule, inst, fn, "", expected="anchor exists", found=f"anchor vanished: {e}")
            continue
        res = Resolver(b)
        calls = [(bb, t) for bb, t in b.calls() if t.get("f") and t["f"]["path"].endswith("InteriorPointOptimizer::<T, M>::optimize")]
        if len(calls) != 2:
            ck.violation(rule, inst, b.path, f"{b.loc[0]}:{b.loc[1]}", expected="two optimizer runs (normalised / raw)", found=f"{len(calls)}")
            continue
        sk = [[skeleton(res.operand(a)) for a in t["args"][3:6]] for _, t in calls]
        names = ["lambda", "max_iter", "tol"]
        diff = [names[i] for i in range(3) if sk[0][i] != sk[1][i]]
        if diff:
            show = "; ".join(f"{names[i]}: `{render(res.operand(calls[0][1]['args'][3 + i]))[:60]}` vs `{render(res.operand(calls[1][1]['args'][3 + i]))[:60]}`"
                             for i in range(3) if names[i] in diff)
            ck.violation(rule, inst, b.path, b.where(calls[1][0]), expected="identical optimizer settings on both branches", found=show)
        else:
            ck.ok(rule, inst, b.path, b.where(calls[0][0]), f"lambda = {render(res.operand(calls[0][1]['args'][3]))[:60]}")


_run_c08 = run


def run(ck, prog):
    _run_c08(ck, prog)
    branch_siblings(ck, prog)
    ck.floor("E1-sibling", 2)


_run_pre_builders = run


def run(ck, prog):
    _run_pre_builders(ck, prog)
    # every setting of the quantifier is reachable through the public builder chain: setters must not clobber other fields
    from sa.builders import check_builders
    check_builders(ck, prog, r"^linear::(lasso::Lasso|elastic_net::ElasticNet)Parameters$")
    ck.floor("E2-builder", 9)


# ------------------------------------------------------------------ generic: rows/cols (outer/inner) mix-up of locally allocated buffers
_run_pre_dimension = run
DIMENSION_FILES = ['src/linear/bg_solver.rs', 'src/linear/elastic_net.rs', 'src/linear/lasso.rs', 'src/linear/lasso_optimizer.rs']


def run(ck, prog):
    _run_pre_dimension(ck, prog)
    from sa import dimension
    dimension.run_rule(ck, prog, set(DIMENSION_FILES))


# ------------------------------------------------------------------ generic: signed counters are not cast to unsigned on their negative side
_run_pre_negcast = run


def run(ck, prog):
    _run_pre_negcast(ck, prog)
    from sa import negcast
    negcast.run_rule(ck, prog, set(DIMENSION_FILES))


# ------------------------------------------------------------------ generic: `while counter < bound` loops advance their counter
_run_pre_progress = run


def run(ck, prog):
    _run_pre_progress(ck, prog)
    from sa import progress
    progress.run_rule(ck, prog, set(DIMENSION_FILES))


# ------------------------------------------------------------------ elastic net: the augmented target is centred by the mean of the n targets
_run_pre_encentre = run


def elastic_net_centres_targets(ck, prog):
    """Elastic net is solved as a lasso on the augmented system [gamma X; sqrt(l2) gamma I], [y; 0]. The optimizer centres the
    vector it is handed by that vector's own mean; handed the uncentred, zero-padded [y; 0_p] it subtracts sum(y)/(n+p)
    instead of mean(y): the fit changes when a constant is added to every target and l1_ratio = 1 no longer reproduces
    the lasso. Necessary condition: the n target entries stored into the augmented vector are differences y_i - mean(y)
    (then the padded vector has mean zero and the optimizer's centring is the identity)."""
    from sa.prov import Resolver, render, subterms
    rule, inst = "E2f-centred", "ElasticNet::augment_x_and_y stores centred targets into the padded vector"
    bs = prog.find(r"^linear::elastic_net::ElasticNet::<T, M>::augment_x_and_y$")
    if len(bs) != 1:
        ck.note(f"{inst}: augment_x_and_y not found ({len(bs)}): augmentation done differently, no instance")
        return
    b = bs[0]
    res = Resolver(b)
    n = 0
    for bb, t in b.calls():
        f = t.get("f")
        if not (f and f["path"].endswith("BaseVector::set") and len(t["args"]) == 3):
            continue
        v = res.operand(t["args"][2])
        reads_y = any(s[0] == "call" and s[1].endswith("BaseVector::get") and s[2] and s[2][0][0] == "arg" and s[2][0][1] == 2 for s in subterms(v))
        if not reads_y:
            continue
        n += 1
        centred = v[0] == "call" and v[1].endswith("Sub::sub") and any(
            s[0] == "call" and s[1].endswith(("::mean",)) and s[2] and s[2][0][0] == "arg" and s[2][0][1] == 2 for s in subterms(v[2][1]))
        if centred:
            ck.ok(rule, inst, b.path, b.where(bb), f"stores `{render(v)[:70]}`")
        else:
            ck.violation(rule, inst, b.path, b.where(bb), ordinal=n, expected="y_i - mean(y) for the n target entries (the p padding entries stay 0)",
                         found=f"stores `{render(v)[:70]}`: the optimizer then centres the padded vector by sum(y)/(n+p), not by mean(y)")
    if n == 0:
        ck.note(f"{inst}: no element-wise copy of y into the augmented vector: no instance")


def run(ck, prog):
    _run_pre_encentre(ck, prog)
    elastic_net_centres_targets(ck, prog)


EXPLANATION += (' Elastic net: the n targets stored into the padded vector are y_i - mean(y) (found and fixed). Termination: the exit test of every counter loop compares a counter that advances (found and fixed: the interior-point line search advanced its bound instead).')


# ------------------------------------------------------------------ the stopping test is relative
_run_pre_relgap = run


def relative_gap(ck, prog):
    """'terminate near the optimum of their stated objective' at every scale of the targets: the stopping test compares the
    duality gap with the dual objective through the tolerance (gap / dobj < tol). Flooring the dual objective by a constant
    (`max(dobj, 1)`) turns it into an absolute gap test whenever the objective is small (targets with a small spread): the
    solver then stops early. Rule: no comparison that involves the `tol` argument contains max/min of a data quantity with a
    non-zero constant."""
    from sa.match import Zero
    from sa.prov import subterms
    rule, inst = "E4-scale", "InteriorPointOptimizer::optimize: the stopping test against tol is purely relative"
    bs = prog.find(r"InteriorPointOptimizer::<T, M>::optimize$")
    if len(bs) != 1:
        ck.violation(rule, inst, "optimize", "", expected="anchor exists", found=f"{len(bs)} bodies")
        return
    b = bs[0]
    cx = BodyCtx.of(b)
    tol_args = {i for i in range(1, b.arg_count + 1) if (b.local_name(i) or "") in ("tol", "tolerance")}
    zero = Zero()
    def is_const(x):
        return (x[0] == "call" and not x[2] and x[1].endswith(("::one", "::two", "::half", "::epsilon"))) or x[0] == "const" or \
            (x[0] == "call" and x[1].endswith("::unwrap") and x[2] and x[2][0][0] == "call" and x[2][0][1].endswith(("::from", "::from_f64"))
             and x[2][0][2] and x[2][0][2][0][0] == "const")

    def floored(d):
        return d[0] == "call" and d[1].endswith(("::max", "::min")) and len(d[2]) == 2 and any(is_const(x) and not zero(x) for x in d[2])
    is_tol = lambda t: t[0] == "arg" and t[1] in tol_args
    n = 0
    for c in cx.cmps:
        # the two shapes of the test: gap / D ? tol   and   gap ? tol * D
        D = None
        for (A, B) in ((c.lhs, c.rhs), (c.rhs, c.lhs)):
            if is_tol(B) and A[0] == "call" and A[1].endswith("Div::div") and len(A[2]) == 2:
                D = A[2][1]
            if B[0] == "call" and B[1].endswith("Mul::mul") and len(B[2]) == 2 and any(is_tol(x) for x in B[2]):
                D = [x for x in B[2] if not is_tol(x)][0]
        if D is None:
            continue
        n += 1
        if floored(D):
            ck.violation(rule, inst, b.path, c.where, ordinal=n, expected="gap and dual objective are compared through tol only (a ratio, scale-free)",
                         found=f"the quantity the gap is measured against is `{render(D)[:60]}`: an absolute floor - for small objectives the "
                               f"criterion is no longer relative")
        else:
            ck.ok(rule, inst, b.path, c.where, f"`{render(c.lhs)[:50]} {c.rel} {render(c.rhs)[:30]}`")
    if n == 0:
        ck.note(f"{inst}: no comparison involving the tolerance argument: no instance")


def run(ck, prog):
    _run_pre_relgap(ck, prog)
    relative_gap(ck, prog)


EXPLANATION += (' The stopping test against tol measures the gap against the dual objective itself, not against max/min(dual objective, constant) (E4-scale; three independent seeds).')


# ------------------------------------------------------------------ generic: no magnitude is compared with a signed raw element
_run_pre_magnitude = run


def run(ck, prog):
    _run_pre_magnitude(ck, prog)
    from sa import magnitude
    magnitude.run_rule(ck, prog, set(DIMENSION_FILES))


# ------------------------------------------------------------------ generic: backward strided scans (`j -= step`) continue exactly while j >= step
_run_pre_subguard = run


def run(ck, prog):
    _run_pre_subguard(ck, prog)
    from sa import subguard
    subguard.run_rule(ck, prog, set(DIMENSION_FILES))


# ------------------------------------------------------------------ generic: a configuration field read on one successful path is read on every successful path
_run_pre_config = run


def run(ck, prog):
    _run_pre_config(ck, prog)
    from sa import config
    config.run_rule(ck, prog, set(DIMENSION_FILES))


# ------------------------------------------------------------------ generic: the value tested against a bound is the value set to the bound (clamps)
_run_pre_clamp = run


def run(ck, prog):
    _run_pre_clamp(ck, prog)
    from sa import clamp
    clamp.run_rule(ck, prog, set(DIMENSION_FILES))


# ------------------------------------------------------------------ generic: an index variable of one range addresses one buffer with one stride
_run_pre_stride = run


def run(ck, prog):
    _run_pre_stride(ck, prog)
    from sa import stride
    stride.run_rule(ck, prog, set(DIMENSION_FILES))


# ------------------------------------------------------------------ the stopping test does not divide by a dual objective that can be exactly zero
_run_pre_gapdiv = run


def gap_test_total(ck, prog):
    """'all y' includes a constant target: after centring y = 0, at w = 0 the primal objective, the dual objective and the
    gap are all exactly 0 - the optimum has been found - and `gap / dobj < tol` is 0/0 = NaN < tol = false, so the solver runs
    on into a NaN Newton step and returns Err.  The dual objective is a running maximum that starts at zero: it is 0 exactly
    in that case.  Rule: the comparison with the tolerance does not have a quotient by that accumulator on one side
    (`gap <= tol * dobj` decides the same test without dividing)."""
    rule, inst = "E2-guarded-division", "InteriorPointOptimizer::optimize: the stopping test does not divide by the dual objective (0 for a constant target)"
    bs = prog.find(r"InteriorPointOptimizer::<T, M>::optimize$")
    if len(bs) != 1:
        ck.violation(rule, inst, "optimize", "", expected="anchor exists", found=f"{len(bs)} bodies")
        return
    b = bs[0]
    cx = BodyCtx.of(b)
    tol_args = {i for i in range(1, b.arg_count + 1) if (b.local_name(i) or "") in ("tol", "tolerance")}
    is_tol = lambda t: t[0] == "arg" and t[1] in tol_args
    is_zero = lambda t: t[0] == "call" and t[1].endswith("::zero") and not t[2]

    def starts_at_zero(d):
        return d[0] == "phi" and any(is_zero(a) for a in d[2])
    n = 0
    for c in cx.cmps:
        for (A, B) in ((c.lhs, c.rhs), (c.rhs, c.lhs)):
            if not any(is_tol(x) for x in [B] + list(subterms(B))):
                continue
            n += 1
            if A[0] == "call" and A[1].endswith("Div::div") and len(A[2]) == 2 and starts_at_zero(A[2][1]):
                # guarded?  a zero test of the denominator whose non-zero edge dominates the comparison
                den = A[2][1]
                guarded = any(((cc.lhs == den and is_zero(cc.rhs)) or (cc.rhs == den and is_zero(cc.lhs))) and b.dominates(cc.bb, c.bb) and cc.bb != c.bb
                              for cc in cx.cmps)
                if not guarded:
                    ck.violation(rule, inst, b.path, c.where, expected="gap <= tol * dobj (or a zero test of dobj before the division)",
                                 found=f"`{render(A)[:70]} {c.rel} tol`: the denominator is a running maximum that starts at zero(); for a constant target it is 0 "
                                       "when the optimum w = 0 is reached and the test is NaN < tol")
                    continue
            ck.ok(rule, inst, b.path, c.where, f"`{render(c.lhs)[:40]} {c.rel} {render(c.rhs)[:40]}`")
    if n == 0:
        ck.note(f"{inst}: no comparison involving the tolerance argument: no instance")


def run(ck, prog):
    _run_pre_gapdiv(ck, prog)
    gap_test_total(ck, prog)


EXPLANATION += (" The stopping test does not divide the gap by the dual-objective accumulator, which is exactly 0 for a constant "
                "target (found and fixed: Err for every constant y).")


# ------------------------------------------------------------------ inside the optimizer the targets take part in arithmetic only in centred form
_run_pre_rawy = run


def optimizer_uses_centred_targets(ck, prog):
    """The objective is ||y - mean(y) - Z w||^2: optimize() centres its target argument first.  A product / norm / dot that
    is computed from the raw argument (a term that contains the parameter y but no mean(y)) - e.g. a screening test
    2 |X'y|_inf <= lambda placed before the centring - makes the result depend on the target offset."""
    rule, inst = "E2f-centred", "InteriorPointOptimizer::optimize: the targets enter products and norms only after centring"
    bs = prog.find(r"InteriorPointOptimizer::<T, M>::optimize$")
    if len(bs) != 1:
        ck.violation(rule, inst, "optimize", "", expected="anchor exists", found=f"{len(bs)} bodies")
        return
    b = bs[0]
    ys = [i for i in range(1, b.arg_count + 1) if (b.local_name(i) or "") == "y"]
    if not ys:
        ck.note(f"{inst}: no parameter named y: no instance")
        return
    yarg = ys[0]
    res = BodyCtx.of(b).res
    ARITH = ("ab", "matmul", "dot", "norm", "norm2", "mul", "mul_mut", "add", "add_mut", "sub", "sub_mut", "sum", "max", "min", "abs")
    n = 0
    for bb, t in b.calls():
        f = t.get("f")
        if not f or f["path"].split("::")[-1] not in ARITH:
            continue
        for a in t["args"]:
            term = res.operand(a)
            subs = list(subterms(term))
            if any(s[0] == "arg" and s[1] == yarg for s in subs):
                n += 1
                if any(s[0] == "call" and s[1].split("::")[-1] == "mean" for s in subs):
                    continue
                ck.violation(rule, inst, b.path, b.where(bb), ordinal=n, expected="y - mean(y) wherever the targets are multiplied, summed or normed",
                             found=f"{f['path'].split('::')[-1]}(.. {render(term)[:60]} ..) is computed from the raw target argument")
    ck.ok(rule, inst, b.path, f"{b.loc[0]}:{b.loc[1]}", f"{n} arithmetic use(s) of the target argument, all containing mean(y)")


def run(ck, prog):
    _run_pre_rawy(ck, prog)
    optimizer_uses_centred_targets(ck, prog)


EXPLANATION += " Inside optimize() the target argument takes part in products, dots and norms only in centred form (terms containing mean(y))."
