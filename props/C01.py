"""C01 factorisations: scale-homogeneous thresholds (E4) + Cholesky rejection (E1)."""
from sa import scale, guards
from sa.e1 import BodyCtx
from sa.match import Zero, contains
from sa.mir import AnchorError
from sa.prov import render, subterms, alts

LEVEL = "other"
EXPLANATION = (
    "(a) E4 scale homogeneity: in lu_mut, LU::{new,solve,inverse}, qr_mut, QR::{new,Q,R,solve}, cholesky_mut, "
    "Cholesky::solve, svd_mut, SVD::{new,solve} every comparison between values of the element type is classified by "
    "the leaves of the provenance terms of its sides; no comparison has a side derived from matrix/vector elements "
    "against a non-zero pure machine constant (|x| > eps is refused; x != 0, |x| <= eps*anorm, s[j] > tol are fine). "
    "Necessary for 'accuracy relative to the norm of A at every scale (1e-12..1e12), both float widths': an algorithm "
    "that branches on data vs absolute constant takes different branches on A and 2^k*A. "
    "(b) E1: in cholesky_mut the pivot d is compared with zero, the d < 0 edge returns Err on every path, d > 0 is "
    "accepted, and the comparison dominates sqrt(d) - 'returns an error instead of factors'. "
    "Residuals, orthogonality, ordering, pivoting quality and least-squares optimality are not decided."
)
TECHNIQUE = "static analysis of rustc MIR: scale-homogeneity classification of float comparisons (degenerate units analysis) + guard/post-dominance rule"

SCOPE = (r"^linalg::lu::LUDecomposableMatrix::lu_mut$|^linalg::lu::LU::<T, M>::(new|solve|inverse|L|U|pivot)$|"
         r"^linalg::qr::QRDecomposableMatrix::qr_mut$|^linalg::qr::QR::<T, M>::(new|Q|R|solve)$|"
         r"^linalg::cholesky::CholeskyDecomposableMatrix::cholesky_mut$|^linalg::cholesky::Cholesky::<T, M>::(new|L|U|solve)$|"
         r"^linalg::svd::SVDDecomposableMatrix::svd_mut$|^linalg::svd::SVD::<T, M>::(new|solve|S)$")
MUST = ["lu_mut", "qr_mut", "cholesky_mut", "svd_mut", "SVD::<T, M>::solve", "LU::<T, M>::new", "QR::<T, M>::new"]


def run_e4(ck, prog, scope, must, exceptions=None, floor=0):
    rule = "E4-scale"
    bodies = prog.find(scope)
    for b0 in list(bodies):
        stack = list(prog.closures_of.get(b0.path, []))
        while stack:
            c = stack.pop()
            bodies.append(c)
            stack.extend(prog.closures_of.get(c.path, []))
    for m in must:
        if not any(m in b.path for b in bodies):
            ck.violation(rule, "anchor", m, "", expected="function in scope exists", found="anchor vanished")
    n = 0
    used_exc = 0
    for b in sorted(bodies, key=lambda b: b.path):
        ordinal = {}
        for r in scale.check_body(b):
            n += 1
            inst = f"{r['rel']} {r['lhs']}/{r['rhs']}"
            if r["verdict"] == "ok":
                ck.ok(rule, "comparison is scale-free or relative", b.path, r["where"], f"[{r['lhs']} vs {r['rhs']}] {r['text']}")
                continue
            if exceptions and exceptions(b, r):
                used_exc += 1
                ck.ok(rule, "frozen scale-free exception", b.path, r["where"], r["text"])
                continue
            k = render(r["const_term"])[:30]
            ordinal[k] = ordinal.get(k, 0) + 1
            ck.violation(rule, f"data compared with absolute constant {k}", b.path, r["where"], ordinal=ordinal[k],
                         expected="no element-derived quantity is compared with a non-zero machine constant (thresholds must be zero tests or relative to a data-derived scale)",
                         found=r["text"])
    ck.floor(rule, floor)
    return n, used_exc


def cholesky_guard(ck, prog):
    rule, inst = "E1-guard", "cholesky_mut: non-positive pivot -> Err before sqrt"
    try:
        b = prog.one(r"^linalg::cholesky::CholeskyDecomposableMatrix::cholesky_mut$")
    except AnchorError as e:
        ck.violation(rule, inst, "cholesky_mut", "", expected="anchor exists", found=f"anchor vanished: {e}")
        return
    cx = BodyCtx.of(b)
    zero = Zero()
    sqrts = [(bb, cx.res.operand(t["args"][0])) for bb, t in b.calls() if t.get("f") and t["f"]["path"].endswith("Float::sqrt")]
    if not sqrts:
        ck.violation(rule, inst, b.path, "", expected="a sqrt of the pivot", found="no sqrt call")
        return
    ok = False
    detail = "no comparison of the pivot (the argument of sqrt) with zero whose negative and zero sides return Err"
    for c in cx.cmps:
        for (L, R, rel) in ((c.lhs, c.rhs, c.rel), (c.rhs, c.lhs, guards.FLIP[c.rel])):
            if not zero(R):
                continue
            if not any(L == s for _, s in sqrts):
                continue
            viol = set()
            for edge_rel, dst in ((rel, c.true_bb), (guards.NEG[rel], c.false_bb)):
                outs = cx.edges.get((c.bb, dst), set())
                if guards.outcome_ok(outs, "Err"):
                    viol |= guards.ATOMS[edge_rel]
            dom = all(b.dominates(c.bb, sb) for sb, s in sqrts if s == L)
            if "n" in viol and "z" in viol and "p" not in viol and dom:
                ok = True
                detail = f"`{render(L)[:60]} ? 0`: refused on {sorted(viol)} with Err; dominates sqrt"
                site = c.where
            else:
                detail = f"pivot comparison at {c.where}: Err on atoms {sorted(viol)}, dominates sqrt: {dom}"
    if not ok:
        # helper form: `check_pivot(d)?` dominating the sqrt
        from sa import e1
        from sa.e1 import G
        from sa.match import Arg
        for bb, t in b.calls():
            f = t.get("f")
            cal = None
            for key in ((f or {}).get("resolved"), (f or {}).get("path")):
                if key and key in prog.bodies:
                    cal = prog.bodies[key]
            if cal is None or cal is b:
                continue
            for j, a in enumerate(t["args"]):
                at = cx.res.operand(a)
                if any(at == s for _, s in sqrts) and all(b.dominates(bb, sb) for sb, s in sqrts if s == at) and e1._propagates_err(b, cx, bb, t):
                    g2 = G(inst, cal, Arg(j + 1), zero, "nz", "p", "Err", interproc=False)
                    ok2, d2, sites, _ = e1.eval_guard(prog, g2, cal)
                    if ok2:
                        ok, site, detail = True, sites[0] if sites else b.where(bb), f"via {cal.path}: {d2}; ?-propagated; dominates sqrt"
    if ok:
        ck.ok(rule, inst, b.path, site, detail)
    else:
        ck.violation(rule, inst, b.path, f"{b.loc[0]}:{b.loc[1]}", expected="pivot < 0 and pivot == 0 -> Err on every path (a zero pivot becomes a zero divisor of the next row: 0/0 = NaN, and NaN < 0 is false, so an indefinite matrix is then accepted with NaN factors), pivot > 0 accepted, test dominates sqrt(pivot)", found=detail)


def run(ck, prog):
    n, _ = run_e4(ck, prog, SCOPE, MUST, floor=16)
    ck.extra["t_comparisons_classified"] = n
    cholesky_guard(ck, prog)
    ck.floor("E1-guard", 1)


def lu_pivot_magnitude(ck, prog):
    """partial pivoting selects by magnitude: the comparison between two candidate
    pivots has abs() on both sides (necessary: 'zero leading entries with negative
    alternatives' must pivot onto the negative entry)"""
    rule, inst = "E2d-sign", "lu_mut: pivot candidates are compared by magnitude"
    try:
        b = prog.one(r"^linalg::lu::LUDecomposableMatrix::lu_mut$")
    except AnchorError as e:
        ck.violation(rule, inst, "lu_mut", "", expected="anchor exists", found=f"anchor vanished: {e}")
        return
    is_abs = lambda t: t[0] == "call" and t[1].endswith("::abs") and len(t[2]) == 1
    n = 0
    # fold form of the search: `(j + 1..m).fold(j, |best, i| if |col[i]| > |col[best]| { i } else { best })` - the comparison
    # lives in the closure, the running arg-max is the closure's accumulator parameter
    for cb in prog.closures_of.get(b.path, []):
        for r in scale.check_body(cb):
            if r["lhs"] == "data" and r["rhs"] == "data" and r["rel"] in ("<", "<=", ">", ">="):
                l, rr = r["data_term"], r["const_term"]
                idxs = [s[2] for side in (l, rr) for s in subterms(side) if s[0] == "idx"]
                params = {i[1] for i in idxs if i[0] == "arg"} | {x[1] for i in idxs for x in subterms(i) if x[0] == "arg"}
                if not (len(params) >= 2 and all(k >= 2 for k in params)):
                    continue                                    # not a comparison between the accumulator's and the item's entry
                n += 1
                if is_abs(l) and is_abs(rr):
                    ck.ok(rule, inst, cb.path, r["where"], "fold form: " + r["text"])
                else:
                    ck.violation(rule, inst, cb.path, r["where"], expected="|candidate| compared with |current pivot|",
                                 found=f"{render(l)[:80]} {r['rel']} {render(rr)[:80]}")
    for r in scale.check_body(b):
        if r["lhs"] == "data" and r["rhs"] == "data" and r["rel"] in ("<", "<=", ">", ">="):
            n += 1
            l, rr = r["data_term"], r["const_term"]
            # one side is the candidate (indexed by the loop variable), the other the CURRENT best, i.e. indexed by the
            # running arg-max variable that is re-assigned inside the loop
            def idx_locals(t):
                return [s[2] for s in subterms(t) if s[0] == "idx"]
            running = [i for side in (l, rr) for i in idx_locals(side) if i[0] == "phi" and any(a[0] != "int" and a[0] != "call" for a in i[2])]
            if is_abs(l) and is_abs(rr) and running:
                ck.ok(rule, inst, b.path, r["where"], r["text"])
            elif is_abs(l) and is_abs(rr):
                ck.violation(rule, inst, b.path, r["where"], expected="|candidate| compared with |current pivot| (the running maximum)",
                             found=f"neither side is indexed by the running arg-max variable: {render(l)[:70]} {r['rel']} {render(rr)[:70]}")
            else:
                ck.violation(rule, inst, b.path, r["where"], expected="|candidate| compared with |current pivot|",
                             found=f"{render(l)[:80]} {r['rel']} {render(rr)[:80]}")
    if n < 1:
        ck.violation(rule, inst, b.path, "", expected="a pivot-selection comparison between two matrix-derived values", found="none found")


def svd_guarded_division(ck, prog):
    """SVD::solve divides by a singular value only under the test of that same singular value against the tolerance"""
    rule, inst = "E2-guarded-division", "SVD::solve: s[j] > tol guards the division by the same s[j]"
    try:
        b = prog.one(r"^linalg::svd::SVD::<T, M>::solve$")
    except AnchorError as e:
        ck.violation(rule, inst, "SVD::solve", "", expected="anchor exists", found=f"anchor vanished: {e}")
        return
    cx = BodyCtx.of(b)
    is_s = lambda t: t[0] == "idx" and t[1][0] == "field" and t[1][2] == "s" and t[1][1][0] == "arg"
    is_tol = lambda t: t[0] == "field" and t[2] == "tol" and t[1][0] == "arg"
    gates = []
    for c in cx.cmps:
        for (L, R, rel) in ((c.lhs, c.rhs, c.rel), (c.rhs, c.lhs, guards.FLIP[c.rel])):
            if is_s(L) and is_tol(R):
                acc = c.true_bb if "p" in guards.ATOMS[rel] else c.false_bb
                rej = c.false_bb if acc == c.true_bb else c.true_bb
                gates.append((L, acc, rej, c.where))
    divs = []
    for bb, t in b.calls():
        f = t.get("f")
        if f and f["path"] in ("std::ops::DivAssign::div_assign", "std::ops::Div::div"):
            d = cx.res.operand(t["args"][1])
            if any(is_s(s) for s in subterms(d)):
                divs.append((bb, d))
    if not gates or not divs:
        ck.violation(rule, inst, b.path, f"{b.loc[0]}:{b.loc[1]}", expected="a test s[j] > tol and a division by s[j]", found=f"{len(gates)} tests, {len(divs)} divisions")
        return
    for bb, d in divs:
        ok = any(d == L and b.dominates(acc, bb) and not b.dominates(rej, bb) for (L, acc, rej, _) in gates)
        if ok:
            ck.ok(rule, inst, b.path, b.where(bb), f"divisor {render(d)[:60]} is the tested singular value")
        else:
            ck.violation(rule, inst, b.path, b.where(bb), expected="the divisor is the very singular value that passed the tolerance test",
                         found=f"divisor `{render(d)[:90]}`; tested: {[render(g[0])[:90] for g in gates]}")


_run0 = run


def run(ck, prog):
    _run0(ck, prog)
    lu_pivot_magnitude(ck, prog)
    svd_guarded_division(ck, prog)
    ck.floor("E2d-sign", 1)
    ck.floor("E2-guarded-division", 1)


# ------------------------------------------------------------------ generic: rows/cols (outer/inner) mix-up of locally allocated buffers
_run_pre_dimension = run
DIMENSION_FILES = ['src/linalg/cholesky.rs', 'src/linalg/lu.rs', 'src/linalg/naive/dense_matrix.rs', 'src/linalg/qr.rs', 'src/linalg/svd.rs']


def run(ck, prog):
    _run_pre_dimension(ck, prog)
    from sa import dimension
    dimension.run_rule(ck, prog, set(DIMENSION_FILES))


# ------------------------------------------------------------------ generic: signed counters are not cast to unsigned on their negative side
_run_pre_negcast = run


def run(ck, prog):
    _run_pre_negcast(ck, prog)
    from sa import negcast
    negcast.run_rule(ck, prog, set(DIMENSION_FILES))


# ------------------------------------------------------------------ SVD::solve writes the solution where it fits
_run_pre_svdsolve = run


def svd_solve_rows(ck, prog):
    """'for SVD, wide' shapes are in the domain: the solution of A X = B has n = cols(A) rows while B has m = rows(A) rows.
    SVD::solve checks rows(b) against rows(U) (= m) and then stores the solution row by row; the rows it stores into must be
    bounded by the row count of the matrix it stores into - rows(b) (or the quantity rows(b) was checked against) when it
    reuses b, the allocated row count when it builds a fresh result. A loop over 0..self.n writing into b is out of range
    for every wide A (and leaves m - n stale rows for every tall A)."""
    from sa.match import dim_of
    rule, inst = "E2-dimension", "SVD::solve: the rows stored are bounded by the row count of the matrix stored into"
    bs = prog.find(r"^linalg::svd::SVD::<T, M>::solve$")
    if len(bs) != 1:
        ck.violation(rule, inst, "SVD::solve", "", expected="anchor exists", found=f"{len(bs)} bodies")
        return
    b = bs[0]
    cx = BodyCtx.of(b)
    res = cx.res
    # what rows(b) is checked against
    checked = []
    for c in cx.cmps:
        for (L, R) in ((c.lhs, c.rhs), (c.rhs, c.lhs)):
            d = dim_of(L)
            if d and d[0] == "rows" and d[1][0] == "arg" and d[1][1] == 2:
                checked.append(render(R))
    n = 0
    from sa.prov import alts
    for bb, t in b.calls():
        f = t.get("f")
        if not (f and f["path"].endswith("BaseMatrix::set") and len(t["args"]) == 4):
            continue
        base = res.operand(t["args"][0])
        row = res.operand(t["args"][1])
        if not (row[0] == "field" and row[2] == "0" and row[1][0] == "variant"):
            continue
        nx = row[1][1]
        bound = None
        if nx[0] == "call" and nx[1].endswith("Iterator::next") and nx[2]:
            for a in alts(nx[2][0]):
                if a[0] == "agg" and a[1].endswith("Range::Range"):
                    bound = a[2][1]
        if bound is None:
            continue
        n += 1
        into_arg = any(a[0] == "arg" and a[1] == 2 for a in [base] + list(alts(base)))
        if into_arg:
            db = dim_of(bound)
            ok = (db and db[0] == "rows" and db[1][0] == "arg" and db[1][1] == 2) or render(bound) in checked
            what = "b (the right-hand side, whose row count is checked against " + (checked[0] if checked else "nothing") + ")"
        else:
            sizes = [render(x[2][0]) for x in [base] + list(alts(base)) if x[0] == "call" and x[1].endswith("::zeros") and x[2]]
            ok = render(bound) in sizes or not sizes
            what = f"a fresh matrix with {sizes[0] if sizes else '?'} rows"
        if ok:
            ck.ok(rule, inst, b.path, b.where(bb), f"rows 0..{render(bound)} stored into {what}")
        else:
            ck.violation(rule, inst, b.path, b.where(bb), ordinal=n,
                         expected="the stored rows range over the row count of the matrix they are stored into",
                         found=f"rows 0..{render(bound)} are stored into {what}: out of range whenever A has more columns than rows")
    if n == 0:
        ck.note(f"{inst}: no row-indexed stores in SVD::solve: no instance")


def run(ck, prog):
    _run_pre_svdsolve(ck, prog)
    svd_solve_rows(ck, prog)


EXPLANATION += (" Cholesky: a pivot that is not strictly positive is refused (a zero pivot is the next row's divisor; found and fixed: NaN factors for indefinite matrices). SVD::solve: the rows stored are bounded by the row count of the matrix stored into (found and fixed: out-of-range writes for every wide system).")


# ------------------------------------------------------------------ generic: `while counter < bound` loops advance their counter
_run_pre_progress = run


def run(ck, prog):
    _run_pre_progress(ck, prog)
    from sa import progress
    progress.run_rule(ck, prog, set(DIMENSION_FILES))


# ------------------------------------------------------------------ qr_mut: the Householder norm takes the sign of the pivot a[k][k]
_run_pre_qrsign = run


def qr_householder_sign(ck, prog):
    """The reflector's leading entry is 1 + a_kk / nrm: with nrm carrying the sign of a_kk this is 1 + |a_kk| / |nrm| >= 1;
    with any other sign it cancels (to exactly 0 when the pivot dominates its sub-column, and the later division by it gives
    NaN).  Rule: the divisor of the column scaling is negated under a test of the DIAGONAL entry get(k, k) against zero (or
    takes its sign through copysign / signum of that entry)."""
    from sa import guards
    from sa.e1 import BodyCtx
    rule, inst = "E2d-sign", "qr_mut: the Householder norm takes the sign of the diagonal entry a[k][k]"
    try:
        b = prog.one(r"^linalg::qr::QRDecomposableMatrix::qr_mut$")
    except AnchorError as e:
        ck.violation(rule, inst, "qr_mut", "", expected="anchor exists", found=f"anchor vanished: {e}")
        return
    cx = BodyCtx.of(b)
    res = cx.res
    is_zero = lambda t: t[0] == "call" and t[1].endswith("::zero") and not t[2]

    def is_diag(t):
        for a in alts(t):
            if not (a[0] == "call" and a[1].split("::")[-1] == "get" and len(a[2]) == 3 and a[2][1] == a[2][2]):
                return False
        return True
    # divisor local of the column scaling
    divs = set()
    for bb, t in b.calls():
        f = t.get("f")
        if f and f["path"].endswith("div_element_mut") and t["args"][-1]["k"] in ("move", "copy") and not t["args"][-1]["p"]["pr"]:
            l = t["args"][-1]["p"]["l"]
            # through a temp copy
            seen = set()
            while l not in seen:                                  # through temporaries and single-assignment aliases (`let divisor = nrm;`)
                seen.add(l)
                ds = b.defs.get(l, [])
                if len(ds) == 1 and ds[0].kind == "assign" and ds[0].data["r"]["k"] == "use" and ds[0].data["r"]["o"]["k"] in ("move", "copy") \
                        and not ds[0].data["r"]["o"]["p"]["pr"]:
                    l = ds[0].data["r"]["o"]["p"]["l"]
            divs.add(l)
    if not divs:
        ck.note(f"{inst}: no div_element_mut scaling in qr_mut: no instance")
        return
    found = []
    for bb, t in b.calls():
        f = t.get("f")
        if not f:
            continue
        nm = f["path"].split("::")[-1]
        if nm == "neg" and t["args"][0]["k"] in ("move", "copy"):
            src = t["args"][0]["p"]["l"]
            ds = b.defs.get(src, [])
            if src not in divs and len(ds) == 1 and ds[0].kind == "assign" and ds[0].data["r"]["k"] == "use":
                src = ds[0].data["r"]["o"]["p"]["l"]
            dst = t["d"]["l"]
            flows = dst in divs or any(d.kind == "assign" and d.data["r"]["k"] == "use" and d.data["r"]["o"]["k"] in ("move", "copy")
                                       and d.data["r"]["o"]["p"]["l"] == dst for l in divs for d in b.defs.get(l, []))
            if flows:
                # innermost comparison one of whose edges dominates the negation
                ctl = [c for c in cx.cmps if b.dominates(c.true_bb, bb) != b.dominates(c.false_bb, bb)]
                ctl = [c for c in ctl if not any(o is not c and b.dominates(c.bb, o.bb) for o in ctl)]
                for c in ctl:
                    sides = [s for s, o in ((c.lhs, c.rhs), (c.rhs, c.lhs)) if is_zero(o)]
                    found.append((b.where(bb), "negated under a test of " + render(sides[0] if sides else c.lhs)[:60], bool(sides) and is_diag(sides[0]) and c.rel in ("<", ">", "<=", ">=")))
                if not ctl:
                    found.append((b.where(bb), "negated unconditionally", False))
        elif nm in ("copysign", "signum"):
            args = [res.operand(a) for a in t["args"]]
            src = args[-1]
            found.append((b.where(bb), f"{nm} of {render(src)[:60]}", is_diag(src)))
    good = [x for x in found if x[2]]
    if good:
        ck.ok(rule, inst, b.path, good[0][0], good[0][1])
    elif found:
        ck.violation(rule, inst, b.path, found[0][0], expected="the sign is taken from the diagonal entry get(k, k)", found=found[0][1])
    else:
        ck.violation(rule, inst, b.path, f"{b.loc[0]}:{b.loc[1]}", expected="nrm = -nrm when get(k, k) < 0",
                     found="the divisor of the column scaling never takes the sign of the pivot: 1 + a_kk/nrm cancels for a negative dominant pivot")


def run(ck, prog):
    _run_pre_qrsign(ck, prog)
    qr_householder_sign(ck, prog)


EXPLANATION += (" qr_mut: the Householder norm is negated under a test of the diagonal entry get(k, k) against zero (the reflector's "
                "leading entry 1 + a_kk/nrm must not cancel).")
TECHNIQUE += "; sign-source rule for the Householder norm"


# ------------------------------------------------------------------ generic: no magnitude is compared with a signed raw element
_run_pre_magnitude = run


def run(ck, prog):
    _run_pre_magnitude(ck, prog)
    from sa import magnitude
    magnitude.run_rule(ck, prog, set(DIMENSION_FILES))


# ------------------------------------------------------------------ generic: backward strided scans (`j -= step`) continue exactly while j >= step
_run_pre_subguard = run


def run(ck, prog):
    _run_pre_subguard(ck, prog)
    from sa import subguard
    subguard.run_rule(ck, prog, set(DIMENSION_FILES))


# ------------------------------------------------------------------ generic: a configuration field read on one successful path is read on every successful path
_run_pre_config = run


def run(ck, prog):
    _run_pre_config(ck, prog)
    from sa import config
    config.run_rule(ck, prog, set(DIMENSION_FILES))


# ------------------------------------------------------------------ generic: the value tested against a bound is the value set to the bound (clamps)
_run_pre_clamp = run


def run(ck, prog):
    _run_pre_clamp(ck, prog)
    from sa import clamp
    clamp.run_rule(ck, prog, set(DIMENSION_FILES))


# ------------------------------------------------------------------ generic: an index variable of one range addresses one buffer with one stride
_run_pre_stride = run


def run(ck, prog):
    _run_pre_stride(ck, prog)
    from sa import stride
    stride.run_rule(ck, prog, set(DIMENSION_FILES))


# ------------------------------------------------------------------ QR::solve: a tall system returns the n solution rows, not the m-row work matrix
_run_pre_qrsolve = run


def qr_solve_rows(ck, prog):
    """'for tall A the QR and SVD solvers return the least-squares solution': X has n = cols(A) rows.  QR::solve works in
    place on b (m rows); handing b back is right only when m == n.  Rule: every `Ok(payload)` of QR::solve whose payload is
    the parameter b itself sits behind the equality edge of a test of rows(QR) against cols(QR); any other payload is built
    with cols(QR) rows (slice 0..n / zeros(n, _))."""
    from sa.match import dim_of
    from sa.guards import ATOMS, NEG
    rule, inst = "E2-dimension", "QR::solve: the matrix returned has cols(A) rows (b itself only when A is square)"
    bs = prog.find(r"^linalg::qr::QR::<T, M>::solve$")
    if len(bs) != 1:
        ck.violation(rule, inst, "QR::solve", "", expected="anchor exists", found=f"{len(bs)} bodies")
        return
    b = bs[0]
    cx = BodyCtx.of(b)
    res = cx.res

    def is_qr_dim(t, kind):
        d = dim_of(t)
        return bool(d) and d[0] == kind and d[1][0] == "field" and d[1][2] == "QR"
    square_edges = []
    for c in cx.cmps:
        if (is_qr_dim(c.lhs, "rows") and is_qr_dim(c.rhs, "cols")) or (is_qr_dim(c.lhs, "cols") and is_qr_dim(c.rhs, "rows")):
            for rel, dst, other in ((c.rel, c.true_bb, c.false_bb), (NEG[c.rel], c.false_bb, c.true_bb)):
                if ATOMS[rel] == frozenset("z"):
                    square_edges.append((dst, other))
    n = 0

    def sources(o, at, depth=0):
        """(value term, block of the assignment that selects it) for every alternative of an operand: a payload chosen by an
        `if` expression is a temporary with one assignment per arm"""
        if o["k"] not in ("move", "copy") or o["p"]["pr"] or depth > 6:
            return [(res.operand(o), at)]
        l = o["p"]["l"]
        if b.is_arg(l):
            return [(("arg", l, b.local_name(l)), at)]
        ds = [d for d in b.defs.get(l, []) if d.kind in ("assign", "call")]
        if len(ds) >= 2 or (len(ds) == 1 and ds[0].kind == "assign" and ds[0].data["r"]["k"] == "use"):
            out = []
            for d in ds:
                if d.kind == "assign" and d.data["r"]["k"] == "use":
                    out += sources(d.data["r"]["o"], d.bb, depth + 1)
                elif d.kind == "call":
                    out.append((res.call(d.data, 0, ()), d.bb))
                else:
                    out.append((res.rvalue(d.data["r"], 0, ()), d.bb))
            return out
        return [(res.operand(o), at)]
    for i, j, s in b.stmts():
        if not (s["k"] == "assign" and s["r"]["k"] == "agg" and s["r"].get("variant") == "Ok" and s["r"]["ops"]):
            continue
        for pay, at in sources(s["r"]["ops"][0], i):
            n += 1
            roots = [pay] + list(alts(pay))
            is_b = any(a[0] == "arg" and a[1] == 2 for a in roots)
            if is_b:
                if any(b.dominates(dst, at) and not b.dominates(other, at) for dst, other in square_edges):
                    ck.ok(rule, inst, b.path, b.where(at), "b handed back behind rows(QR) == cols(QR)")
                else:
                    ck.violation(rule, inst, b.path, b.where(i, j), ordinal=n, expected="Ok(b.slice(0..n, ..)) for m > n",
                                 found="the m-row work matrix b is returned as the solution for every shape: rows n..m of a tall system are Q^T b residue")
            else:
                rows = None
                for a in roots:
                    if a[0] == "call" and a[1].split("::")[-1] == "slice" and len(a[2]) >= 2:
                        r0 = a[2][1]
                        if r0[0] == "agg" and r0[1].endswith("Range::Range"):
                            rows = r0[2][1]
                    if a[0] == "call" and a[1].split("::")[-1] == "zeros" and a[2]:
                        rows = a[2][0]
                if rows is not None and is_qr_dim(rows, "cols"):
                    ck.ok(rule, inst, b.path, b.where(at), f"payload with {render(rows)} rows")
                elif rows is not None:
                    ck.violation(rule, inst, b.path, b.where(i, j), ordinal=n, expected="cols(QR) rows", found=f"payload with `{render(rows)[:50]}` rows")
                else:
                    ck.ok(rule, inst, b.path, b.where(at), f"payload `{render(pay)[:60]}` (row count not syntactic)")
    if n == 0:
        ck.note(f"{inst}: no Ok(..) in QR::solve: no instance")


def run(ck, prog):
    _run_pre_qrsolve(ck, prog)
    qr_solve_rows(ck, prog)


EXPLANATION += (" QR::solve hands back the in-place work matrix b only behind rows(QR) == cols(QR); otherwise the payload has cols(QR) rows "
                "(found and fixed: m-row result for every tall system).")
