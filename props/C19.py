"""C19 serialisation: type-level witnesses, writer/reader tables, field coverage (E5)."""
import re

from sa import serde_tables as st, guards
from sa.e1 import BodyCtx
from sa.match import dim_of
from sa.mir import AnchorError
from sa.prov import Resolver, render, subterms, alts

LEVEL = "other"
EXPLANATION = (
    "E5: (1) type-level witnesses: a generated crate that path-depends on the current tree with the serde feature "
    "requires `T: Serialize + DeserializeOwned` for every type of the frozen table witness/types.txt at f32 and f64 "
    "(every estimator, transformer, search structure, distance, kernel, metric, parameter struct and DenseMatrix); "
    "`cargo check` of that crate is the check - a removed derive, a narrowed bound or a non-serialisable field makes a "
    "named witness fail to compile. (2) completeness: every public ADT of the crate that implements Serialize is in the "
    "table (a new model cannot dodge the witness) and has a Deserialize impl. (3) field coverage: for every derived "
    "Serialize impl of a struct the ordered list of serialize_field names equals the ADT's field list and the declared "
    "length agrees (a #[serde(skip..)] shows up as a missing name). (4) the hand-written DenseMatrix pair: the i-th "
    "written value (rows, cols, values of self) reaches, through visit_seq's i-th next_element and through visit_map's "
    "key -> variant -> slot chain, the constructor parameter that initialises the field of the same meaning. "
    "Equality of restored predictions, JSON rounding and the meaning of each PartialEq are not decided."
)
TECHNIQUE = "type-level witness crate (rustc's trait solver decides Serialize/DeserializeOwned at concrete instantiations) + MIR writer/reader table agreement"

EXCLUDE_PRIVATE = True


def witnesses(ck, prog):
    rule = "E5-witness"
    entries, failures, other, ok, err = st.run_witness()
    ck.extra["witness_instantiations"] = len(entries)
    if other and not failures and not ok:
        ck.violation(rule, "witness crate builds", "witness", "", expected="cargo check of the witness crate succeeds",
                     found=("; ".join(other) or err)[-600:])
    for i, (line, ty) in enumerate(entries):
        if i in failures:
            ck.violation(rule, f"{line} is Serialize + DeserializeOwned", ty, "witness/types.txt", ordinal=ty.count("f64"),
                         expected="the type implements serde::Serialize and serde::de::DeserializeOwned at this instantiation",
                         found=failures[i])
        elif ok or failures:
            ck.ok(rule, f"{line} is Serialize + DeserializeOwned", ty, "witness/types.txt", "type checks")
    if not ok and not failures and not other:
        ck.violation(rule, "witness crate builds", "witness", "", expected="cargo check succeeds", found=err[-600:])
    ck.floor(rule, 120)
    return entries


def completeness(ck, prog, entries):
    rule = "E5-complete"
    listed = set()
    for line, _ in entries:
        m = re.match(r"smartcore::([A-Za-z0-9_:]+)", line)
        listed.add(m.group(1))
    ser, de = {}, set()
    for im in prog.impls:
        tr = im.get("trait", "")
        if im.get("self_adt"):
            if re.search(r"(^|::)Serialize$", tr):
                ser[im["self_adt"]] = im
            if re.search(r"(^|::)Deserialize$", tr):
                de.add(im["self_adt"])
    n = 0
    for adt, im in sorted(ser.items()):
        a = prog.adts.get(adt)
        if not a:
            continue
        n += 1
        public = a["vis"] == "Public"
        if adt not in de:
            ck.violation(rule, f"{adt} has both impls", adt, f"{a['loc'][0]}:{a['loc'][1]}", expected="Serialize and Deserialize", found="no Deserialize impl")
            continue
        if public and adt not in listed:
            ck.violation(rule, f"{adt} is in the witness table", adt, f"{a['loc'][0]}:{a['loc'][1]}",
                         expected="every public serialisable type is listed in witness/types.txt", found="not listed")
        else:
            ck.ok(rule, f"{adt} has both impls" + (" and is witnessed" if public else " (crate-private, reached through its owner)"), adt,
                  f"{a['loc'][0]}:{a['loc'][1]}", "")
    # a listed type must still be serialisable by an impl in the crate (catches a silently removed cfg_attr)
    for l in sorted(listed):
        if l not in ser:
            ck.violation(rule, f"{l} still has a Serialize impl", l, "", expected="impl present in the item table", found="no Serialize impl found")
    ck.floor(rule, 78)


def field_coverage(ck, prog):
    rule = "E5-fields"
    n = 0
    for b in prog.bodies.values():
        if not (b.name == "serialize" and b.impl_trait and re.search(r"(^|::)Serialize$", b.impl_trait)):
            continue
        adt_path = re.sub(r"<.*$", "", b.impl_self or "")
        a = prog.adts.get(adt_path)
        if not a or a["kind"] != "Struct":
            continue
        kind, decl, calls = st.writer_table(b)
        fields = [f["name"] for f in a["variants"][0]["fields"]]
        manual = not b.raw.get("span_x", False)
        names = [c[1] for c in calls if not c[3]]
        skipped = [c[1] for c in calls if c[3]]
        n += 1
        inst = f"{adt_path}: written fields == struct fields"
        site = f"{b.loc[0]}:{b.loc[1]}"
        if manual and adt_path.endswith("DenseMatrix"):
            continue  # judged by the dedicated table rule
        if not fields and not names:
            ck.ok(rule, inst, b.path, site, "unit struct")
            continue
        if names == fields and (decl is None or decl == len(fields)) and not skipped:
            ck.ok(rule, inst, b.path, site, f"{len(fields)} fields: {','.join(fields)[:80]}")
        else:
            ck.violation(rule, inst, b.path, site, expected=f"serialize_field for exactly {fields} in order, declared length {len(fields)}",
                         found=f"writes {names} (declared {decl}, skipped {skipped})")
    ck.floor(rule, 50)


def dense_matrix_tables(ck, prog):
    rule = "E5-table"
    inst = "DenseMatrix: written value i reaches the field of the same meaning (sequence and map form)"
    try:
        ser = prog.one(r"^<linalg::naive::dense_matrix::DenseMatrix<T> as .*Serialize>::serialize$")
        vseq = prog.one(r"DenseMatrixVisitor<T> as .*Visitor<'a>>::visit_seq$")
        vmap = prog.one(r"DenseMatrixVisitor<T> as .*Visitor<'a>>::visit_map$")
        new = prog.one(r"^linalg::naive::dense_matrix::DenseMatrix::<T>::new$")
    except AnchorError as e:
        ck.violation(rule, inst, "DenseMatrix serde", "", expected="anchors exist", found=f"anchor vanished: {e}")
        return
    site = f"{ser.loc[0]}:{ser.loc[1]}"
    kind, decl, calls = st.writer_table(ser)

    def meaning(t):
        d = dim_of(t)
        if d and d[1][0] == "arg" and d[1][1] == 1:
            return {"rows": "nrows", "cols": "ncols"}.get(d[0])
        if t[0] == "field" and t[1][0] == "arg" and t[1][1] == 1:
            return t[2]
        return None
    W = [(nm, meaning(v)) for (_, nm, v, _) in calls]
    problems = []
    if decl != len(W):
        problems.append(f"serialize_struct declares {decl} fields but {len(W)} are written")
    for nm, m in W:
        if nm != m:
            problems.append(f"field named `{nm}` is written from `{m}`")
    # constructor: param k -> field
    rn = Resolver(new)
    ctor = {}
    for i, j, s in new.stmts():
        r = s["r"] if s["k"] == "assign" else None
        if r and r["k"] == "agg" and r.get("name", "").endswith("DenseMatrix"):
            for fn, o in zip(r["fields"], r["ops"]):
                t = rn.operand(o)
                if t[0] == "arg":
                    ctor[t[1]] = fn
    if sorted(ctor.values()) != ["ncols", "nrows", "values"]:
        problems.append(f"DenseMatrix::new does not initialise the three fields from its parameters: {ctor}")
    # ---- sequence form
    rs = Resolver(vseq)
    ne = [bb for bb, t in vseq.calls() if t.get("f") and t["f"]["path"].endswith("SeqAccess::next_element")]
    ne.sort(key=lambda b_: len(vseq.dom.get(b_, ())))
    news = [(bb, t) for bb, t in vseq.calls() if t.get("f") and t["f"]["path"].endswith("DenseMatrix::<T>::new")]
    if len(news) != 1 or len(ne) != len(W):
        problems.append(f"visit_seq: {len(ne)} next_element calls / {len(news)} constructor calls for {len(W)} written fields")
    else:
        bb, t = news[0]
        for k, a in enumerate(t["args"]):
            term = rs.operand(a)
            # which next_element call feeds this argument: the call's destination local appears in the slice
            src = _feeding_call(vseq, a, ne)
            if src is None:
                problems.append(f"visit_seq: constructor argument {k} does not come from a next_element call")
                continue
            j = ne.index(src)
            fld = ctor.get(k + 1)
            if j >= len(W) or W[j][1] != fld:
                problems.append(f"sequence form: element #{j} (written from `{W[j][1] if j < len(W) else None}`) initialises field `{fld}`")
    # ---- map form: key string -> variant -> slot -> constructor parameter
    fv = [b for k, b in prog.bodies.items() if "dense_matrix" in k and k.endswith("visit_str") and "__FieldVisitor" in k]
    strmap = {}
    if len(fv) == 1:
        fb = fv[0]
        cx = BodyCtx.of(fb)
        for c in cx.cmps:
            for (L, R) in ((c.lhs, c.rhs), (c.rhs, c.lhs)):
                if R[0] == "const" and R[1].startswith('"') and c.rel == "==":
                    # the variant constructed on the true edge
                    reach = fb.reachable_from([c.true_bb], cut_blocks=frozenset([c.false_bb]))
                    for bb in sorted(reach):
                        for s in fb.blocks[bb]["stmts"]:
                            r = s.get("r")
                            if s["k"] == "assign" and r and r["k"] == "agg" and r["ak"] == "adt" and r["name"].endswith("::Field"):
                                strmap.setdefault(R[1].strip('"'), r["vi"])
    else:
        problems.append(f"identifier visitor (visit_str) of the Field enum not found ({len(fv)})")
    rm = Resolver(vmap)
    slots = {}   # variant index -> slot local
    for i, blk in enumerate(vmap.blocks):
        t = blk["term"]
        if blk["cleanup"] or i not in vmap.reach or t["k"] != "switch":
            continue
        term = rm.operand(t["o"]) if t["o"]["k"] in ("copy", "move") else None
        if not (term and term[0] == "discr" and any(s[0] == "call" and s[1].endswith("MapAccess::next_key") for s in subterms(term))):
            continue
        if len(t["targets"]) < 2 and not any(True for _ in t["targets"]):
            continue
        edges = [(int(v), d) for v, d in t["targets"]] + [(None, t["otherwise"])]
        known = {v for v, _ in edges if v is not None}
        for v, dst in edges:
            others = [d for vv, d in edges if d != dst]
            region = vmap.reachable_from([dst], cut_blocks=frozenset(others + [i]))
            for bb in region:
                for s in vmap.blocks[bb]["stmts"]:
                    r = s.get("r")
                    if s["k"] == "assign" and not s["p"]["pr"] and r and r["k"] == "agg" and r["ak"] == "adt" and r["variant"] == "Some" \
                            and any(x[0] == "call" and x[1].endswith("MapAccess::next_value") for x in subterms(rm.operand(r["ops"][0]))):
                        vi = v if v is not None else (set(range(3)) - known).pop() if len(set(range(3)) - known) == 1 else None
                        if vi is not None and vmap.dominates(dst, bb):
                            sl = tmp = s["p"]["l"]
                            # the freshly built Some(..) is usually moved (once) into the named slot
                            for bb2 in [x for x in region if vmap.dominates(dst, x)]:
                                for s2 in vmap.blocks[bb2]["stmts"]:
                                    r2 = s2.get("r")
                                    if s2["k"] == "assign" and not s2["p"]["pr"] and r2 and r2["k"] == "use" and r2["o"]["k"] == "move" \
                                            and r2["o"]["p"] == {"l": tmp, "pr": []}:
                                        sl = s2["p"]["l"]
                            slots[vi] = sl
    newm = [(bb, t) for bb, t in vmap.calls() if t.get("f") and t["f"]["path"].endswith("DenseMatrix::<T>::new")]
    if len(newm) != 1:
        problems.append(f"visit_map: {len(newm)} constructor calls")
    elif len(slots) != 3 or len(strmap) != 3:
        problems.append(f"visit_map: could not resolve the key -> slot chain (strings {strmap}, slots {slots})")
    else:
        bb, t = newm[0]
        argslot = {}
        for k, a in enumerate(t["args"]):
            term = rm.operand(a)
            for s in subterms(term):
                if s[0] == "phi" and s[1] in slots.values():
                    argslot[k + 1] = s[1]
        for nm, m in W:
            vi = strmap.get(nm)
            if vi is None:
                problems.append(f"map form: the reader does not accept the key `{nm}` the writer emits (accepted: {sorted(strmap)})")
                continue
            slot = slots.get(vi)
            ks = [k for k, sl in argslot.items() if sl == slot]
            if len(ks) != 1:
                problems.append(f"map form: the value of key `{nm}` does not reach exactly one constructor parameter (variant {vi}, slot _{slot}, slots {slots}, args {argslot})")
                continue
            fld = ctor.get(ks[0])
            if fld != m:
                problems.append(f"map form: key `{nm}` (written from `{m}`) initialises field `{fld}`")
    if problems:
        ck.violation(rule, inst, ser.path, site, expected="writer order/names, visit_seq order, visit_map keys and DenseMatrix::new agree field for field",
                     found="; ".join(problems))
    else:
        ck.ok(rule, inst, ser.path, site, f"writer {W}; seq order ok; map keys {strmap}; ctor {ctor}")
    ck.floor(rule, 1)


def _feeding_call(body, operand, call_blocks):
    """the unique call block among `call_blocks` whose result flows (by value) into the operand"""
    seen, work = set(), [operand]
    dests = {}
    for bb in call_blocks:
        d = body.blocks[bb]["term"]["d"]
        dests[d["l"]] = bb
    hits = set()
    while work:
        o = work.pop()
        if o["k"] not in ("copy", "move"):
            continue
        l = o["p"]["l"]
        if l in seen:
            continue
        seen.add(l)
        if l in dests:
            hits.add(dests[l])
            continue
        for d in body.defs.get(l, []):
            if d.kind == "assign":
                r = d.data["r"]
                if r["k"] in ("use", "cast"):
                    work.append(r["o"])
                elif r["k"] in ("ref", "copyderef", "discr"):
                    work.append({"k": "copy", "p": r["p"]})
                elif r["k"] == "agg":
                    work.extend(r["ops"])
            elif d.kind == "call":
                work.extend(d.data["args"])
    return hits.pop() if len(hits) == 1 else None


def run(ck, prog):
    entries = witnesses(ck, prog)
    completeness(ck, prog, entries)
    field_coverage(ck, prog)
    dense_matrix_tables(ck, prog)


# ---------------------------------------------------------------- model equality: pairwise traversals are length-guarded
EQ_EXCEPTIONS = {
    ("naive_bayes::bernoulli::BernoulliNBDistribution", "feature_log_prob"):
        "outer length = number of classes: class_labels (compared with == before) fixes it; inner rows are compared by approximate_eq, "
        "which returns false on a length mismatch (C03 rule)",
}


LEN_FIELDS = {("tree::decision_tree_classifier::DecisionTreeClassifier", "classes"): "num_classes"}


def _mirrors_len(prog, adt, lf, F):
    """every struct literal of `adt` in the crate initialises field lf with len(<the value given to F>)"""
    n = 0
    for b in prog.bodies.values():
        if b.raw.get("span_x") and b.name in ("deserialize", "visit_seq", "visit_map", "clone"):
            continue
        res = None
        for i, j, s in b.stmts():
            r = s["r"] if s["k"] == "assign" else None
            if r and r["k"] == "agg" and r["ak"] == "adt" and r.get("name") == adt and lf in r["fields"] and F in r["fields"] and not s.get("x"):
                res = res or Resolver(b)
                lv = res.operand(r["ops"][r["fields"].index(lf)])
                fv = res.operand(r["ops"][r["fields"].index(F)])
                d = dim_of(lv)
                n += 1
                if not (d and d[0] == "len" and d[1] == fv):
                    return False, f"{b.path}: {lf} = {render(lv)[:60]}"
    return n > 0, f"{n} sites"


def eq_lengths(ck, prog):
    """a hand-written `eq` that walks self.F and other.F element by element must first compare their lengths
    (mismatch -> false): otherwise a model equals another whose vector is a strict prefix/extension -
    'it does not equal a model fitted on different rows and targets'"""
    from sa import e1
    from sa.e1 import G, NE, EQ
    from sa.match import Dim, Base
    rule = "E5-eq-lengths"
    n = 0
    for b in sorted(prog.bodies.values(), key=lambda b: b.path):
        if not (b.impl_trait == "std::cmp::PartialEq" and b.name == "eq" and not b.raw.get("span_x")):
            continue
        res = Resolver(b)
        fields = set()
        cx = BodyCtx.of(b)

        def top_field(t, arg):
            return t[0] == "field" and t[1][0] == "arg" and t[1][1] == arg
        for c in cx.cmps:
            for side in (c.lhs, c.rhs):
                for s in subterms(side):
                    if s[0] == "idx" and (top_field(s[1], 1) or top_field(s[1], 2)):
                        # indexed by a loop counter (not a constant)
                        if s[2][0] != "int":
                            fields.add(s[1][2])
        for bb, t in b.calls():
            f = t.get("f")
            if f and f["path"].endswith("Iterator::zip") and len(t["args"]) == 2:
                a0, a1 = res.operand(t["args"][0]), res.operand(t["args"][1])
                strip = lambda x: x[2][0] if x[0] == "call" and x[1].endswith(("::iter", "::into_iter")) and len(x[2]) == 1 else x
                a0, a1 = strip(a0), strip(a1)
                if top_field(a0, 1) and top_field(a1, 2) and a0[2] == a1[2]:
                    fields.add(a0[2])
            if f and f["path"].endswith("::approximate_eq"):
                for a in t["args"][:2]:
                    x = res.operand(a)
                    if x[0] == "idx" and (top_field(x[1], 1) or top_field(x[1], 2)) and x[2][0] != "int":
                        fields.add(x[1][2])
        adt = re.sub(r"<.*$", "", b.impl_self or "")
        for F in sorted(fields):
            n += 1
            inst = f"{adt.split('::')[-1]}::eq compares len({F}) before walking it"
            if (adt, F) in EQ_EXCEPTIONS:
                ck.ok(rule, inst, b.path, f"{b.loc[0]}:{b.loc[1]}", "frozen exception: " + EQ_EXCEPTIONS[(adt, F)])
                continue
            g = G(inst, b, Dim("len", Base(1, F)), Dim("len", Base(2, F)), NE, EQ, "false", rule=rule, interproc=False)
            ok, detail, sites, path = e1.eval_guard(prog, g, b)
            if not ok and (adt, F) in LEN_FIELDS:
                # the length is mirrored in a scalar field that every constructor of the type sets to len(F)
                lf = LEN_FIELDS[(adt, F)]
                from sa.match import Field
                g2 = G(inst, b, Field(1, lf), Field(2, lf), NE, EQ, "false", rule=rule, interproc=False)
                ok2, d2, s2, _ = e1.eval_guard(prog, g2, b)
                mirr = _mirrors_len(prog, adt, lf, F)
                if ok2 and mirr[0]:
                    ok, detail, sites = True, f"{d2}; {lf} = len({F}) at every construction site ({mirr[1]})", s2
                else:
                    detail += f"; mirror field {lf}: guard {ok2}, constructors set it to len({F}): {mirr}"
            if ok:
                ck.ok(rule, inst, b.path, sites[0] if sites else "", detail)
            else:
                ck.violation(rule, inst, b.path, f"{b.loc[0]}:{b.loc[1]}",
                             expected=f"len(self.{F}) != len(other.{F}) -> false on every path before the element-wise comparison",
                             found=detail)
    ck.floor(rule, 14)


_run_c19 = run


def run(ck, prog):
    _run_c19(ck, prog)
    eq_lengths(ck, prog)


# ------------------------------------------------------------------ equality is reflexive: tolerances are strictly positive
_run_pre_reflexive = run
_POS_CONSTS = ("::epsilon", "::one", "::two", "::half", "::max_value", "::min_positive_value", "::infinity")


def _positivity(t, depth=0):
    """'P' strictly positive for every input, 'NN' non-negative, 'U' unknown; second item: does the term read model data?"""
    import re as _re
    if depth > 12:
        return "U", False
    k = t[0]
    if k == "call":
        p = t[1]
        if not t[2] and p.endswith(_POS_CONSTS):
            return "P", False
        subs = [_positivity(x, depth + 1) for x in t[2]]
        data = any(d for _, d in subs)
        kinds = [s for s, _ in subs]
        if p.endswith(("Mul::mul", "::mul")) and len(kinds) == 2:
            if kinds == ["P", "P"]:
                return "P", data
            if all(x in ("P", "NN") for x in kinds):
                return "NN", data
        if p.endswith(("Add::add", "::add")) and len(kinds) == 2:
            if "P" in kinds and all(x in ("P", "NN") for x in kinds):
                return "P", data
            if all(x in ("P", "NN") for x in kinds):
                return "NN", data
        if p.endswith("::max") and len(kinds) == 2:
            if "P" in kinds:
                return "P", data
            if "NN" in kinds:
                return "NN", data
        if p.endswith("::min") and len(kinds) == 2:
            if kinds == ["P", "P"]:
                return "P", data
            if all(x in ("P", "NN") for x in kinds):
                return "NN", data
        if p.endswith(("::abs", "::sqrt", "::square", "::exp")) and len(kinds) == 1:
            return ("P" if p.endswith("::exp") else "NN"), data
        if p.endswith(("::unwrap", "::from", "::from_f64", "::into", "::clone")) and len(kinds) >= 1:
            return kinds[0], data
        return "U", data or any(s[0] in ("arg", "field") for s in subterms(t))
    if k == "const":
        m = _re.search(r"(-?[0-9.]+(?:[eE]-?[0-9]+)?)", t[1].replace("const ", "").replace("_f64", "").replace("_f32", "").replace("f64", "").replace("f32", ""))
        if m:
            try:
                v = float(m.group(1))
                return ("P" if v > 0 else ("NN" if v == 0 else "U")), False
            except ValueError:
                pass
        return "U", False
    if k == "int":
        return ("P" if t[1] > 0 else ("NN" if t[1] == 0 else "U")), False
    if k in ("arg", "field", "idx", "variant", "upvar"):
        return "U", True
    if k == "bin" and len(t) == 4:
        a, b2 = _positivity(t[2], depth + 1), _positivity(t[3], depth + 1)
        data = a[1] or b2[1]
        if t[1] == "Mul":
            if a[0] == b2[0] == "P":
                return "P", data
            if {a[0], b2[0]} <= {"P", "NN"}:
                return "NN", data
        if t[1] == "Add":
            if "P" in (a[0], b2[0]) and {a[0], b2[0]} <= {"P", "NN"}:
                return "P", data
        return "U", data
    return "U", any(s[0] in ("arg", "field") for s in subterms(t))


def eq_reflexive(ck, prog, files=None, floor=5):
    """`restored == original` needs eq(m, m) to be true for every finite model. In the hand-written eq functions every test of
    the form |a - b| < bound (strict) is satisfied on the diagonal only if the bound is strictly positive for every input:
    a bound that reads the compared values and is merely non-negative (eps * max(|a|, |b|)) vanishes for a == b == 0."""
    rule = "E5-eq-reflexive"
    n = 0
    # the eq functions, their closures, and the local helpers they call (two levels)
    scope = {}
    for b in prog.bodies.values():
        if b.impl_trait == "std::cmp::PartialEq" and b.name == "eq" and b.loc and b.loc[0].startswith("src/") and not b.loc[0].startswith("src/error") \
                and (files is None or b.loc[0] in files):
            scope[b.path] = b
    frontier = list(scope.values())
    for _ in range(2):
        nxt = []
        for b in frontier:
            for cb in prog.closures_of.get(b.path, []):
                if cb.path not in scope:
                    scope[cb.path] = b
                    nxt.append(cb)
            for bb, t in b.calls():
                f = t.get("f")
                if not f:
                    continue
                for key in (f.get("resolved"), f.get("path")):
                    cal = prog.bodies.get(key) if key else None
                    if cal is not None and cal.path not in scope and cal.loc and cal.loc[0].startswith("src/") and cal.name != "eq":
                        scope[cal.path] = scope.get(b.path, b) if not isinstance(scope.get(b.path), type(b)) else scope[b.path]
                        nxt.append(cal)
                        break
        frontier = nxt
    for path in sorted(scope):
        b = prog.bodies.get(path)
        if b is None:
            continue
        parent = scope[path] if scope[path] is not b else None
        cx = BodyCtx.of(b)
        from collections import namedtuple as _nt
        _C = _nt("_C", "lhs rel rhs where")
        recs = [_C(c.lhs, c.rel, c.rhs, c.where) for c in cx.cmps]
        seen_r = {(render(r.lhs), r.rel, render(r.rhs)) for r in recs}
        # comparisons that are returned as values (no branch): `fn close(a, b) -> bool { (a - b).abs() < bound }`
        for s_ in subterms(cx.res.local(0)):
            cnd = guards._cond(cx.res, s_) if s_[0] in ("bin", "call", "un") else None
            if cnd and (render(cnd[0]), cnd[1], render(cnd[2])) not in seen_r:
                seen_r.add((render(cnd[0]), cnd[1], render(cnd[2])))
                recs.append(_C(cnd[0], cnd[1], cnd[2], f"{b.loc[0]}:{b.loc[1]}"))
        for c in recs:
            for (L, R, lhs_is_diff) in ((c.lhs, c.rhs, True), (c.rhs, c.lhs, False)):
                if not (L[0] == "call" and L[1].endswith("::abs") and L[2] and L[2][0][0] == "call" and L[2][0][1].endswith(("Sub::sub", "::sub"))):
                    continue
                rel = c.rel if lhs_is_diff else guards.FLIP[c.rel]
                n += 1
                adt = re.sub(r"<.*$", "", (b.impl_self or (parent.impl_self if parent is not None else "") or b.name) or "").split("::")[-1]
                inst = f"{adt}::eq: tolerance of `{render(L)[:50]}` admits identical values"
                kind, data = _positivity(R)
                # "model data" = the bound mentions a field / element, or one of the very values being compared; a separate scalar
                # parameter (the `error` argument of approximate_eq) is a tolerance, not data
                leavesL = {(x[0], x[1]) for x in subterms(L) if x[0] == "arg"}
                data = any(x[0] in ("field", "idx") for x in subterms(R)) or any((x[0], x[1]) in leavesL for x in subterms(R) if x[0] == "arg")
                strict = rel in ("<", ">=")            # partition {diff < bound} / {diff >= bound}: equality of diff and bound is 'different'
                if not strict and data and kind not in ("P", "NN"):
                    ck.violation(rule, inst, b.path, c.where, ordinal=n,
                                 expected="a bound that is never negative, so that |a - a| = 0 does not exceed it",
                                 found=f"`|a - b| {rel} {render(R)[:70]}`: the bound depends on model values and can be negative (no abs / max around "
                                       f"it), so a model containing a negative such value is not equal to itself or to its restored copy")
                    continue
                if strict and data and kind != "P":
                    ck.violation(rule, inst, b.path, c.where, ordinal=n,
                                 expected="a strictly positive bound (or a non-strict comparison) so that |a - a| = 0 passes",
                                 found=f"`|a - b| {rel} {render(R)[:70]}`: the bound depends on the compared values and is not strictly positive "
                                       f"(it is 0 when they are 0), so a model containing such a value is not equal to itself or to its restored copy")
                else:
                    ck.ok(rule, inst, b.path, c.where, f"`|a - b| {rel} {render(R)[:50]}`: bound {kind}{', data-dependent' if data else ''}")
    if floor:
        ck.floor(rule, floor)


def run(ck, prog):
    _run_pre_reflexive(ck, prog)
    eq_reflexive(ck, prog)


EXPLANATION += (" Reflexivity (E5-eq-reflexive): in the hand-written eq functions, their closures and the local helpers they call, "
                "every strict tolerance test |a - b| < bound has a bound that is strictly positive for every input (epsilon(), positive "
                "constants, sums/products/max of those); a bound that reads the compared values and is only non-negative vanishes for "
                "a == b == 0 and makes a model unequal to its own restored copy.")


# ------------------------------------------------------------------ equality walks whole vectors
_run_pre_whole = run


def eq_walks_whole(ck, prog):
    """'it does not equal a model fitted on different rows and targets': an index loop of a hand-written eq that compares
    self.F[i] with other.F[i] ranges over 0..len(F); a loop bounded by another quantity (a hyper-parameter such as k) compares
    a prefix only. Positive identification: the loop variable indexing F is the variable of 0..H with H a field of self /
    other that is not a length of F."""
    from sa.match import dim_of
    rule = "E5-eq-lengths"
    for b in sorted(prog.bodies.values(), key=lambda b: b.path):
        if not (b.impl_trait == "std::cmp::PartialEq" and b.name == "eq" and b.loc and b.loc[0].startswith("src/")):
            continue
        cx = BodyCtx.of(b)
        seen = set()
        for c in cx.cmps:
            for side in (c.lhs, c.rhs):
                for s in subterms(side):
                    if not (s[0] == "idx" and s[1][0] == "field" and s[1][1][0] == "arg"):
                        continue
                    F = s[1][2]
                    ix = s[2]
                    if not (ix[0] == "field" and ix[2] == "0" and ix[1][0] == "variant"):
                        continue
                    nx = ix[1][1]
                    if not (nx[0] == "call" and nx[1].endswith("Iterator::next") and nx[2]):
                        continue
                    for a in alts(nx[2][0]):
                        if a[0] == "agg" and a[1].endswith("Range::Range"):
                            H = a[2][1]
                            key = (F, render(H))
                            if key in seen:
                                continue
                            seen.add(key)
                            d = dim_of(H)
                            adt = re.sub(r"<.*$", "", b.impl_self or "").split("::")[-1]
                            inst = f"{adt}::eq walks all of `{F}`"
                            whole = bool(d) and d[0] == "len"
                            other_field = H[0] == "field" and H[1][0] == "arg" and H[2] != F
                            if other_field and not whole:
                                ck.violation(rule, inst, b.path, c.where, expected=f"0..len({F})",
                                             found=f"the loop comparing `{F}` element by element runs over 0..{render(H)}: only a prefix takes part in equality")
                            elif whole:
                                ck.ok(rule, inst, b.path, c.where, f"0..{render(H)[:40]}")


def run(ck, prog):
    _run_pre_whole(ck, prog)
    eq_walks_whole(ck, prog)


EXPLANATION += (' Equality is also required to walk whole vectors (an index loop over F runs to len(F), not to another field) and, for non-strict tolerance tests, to use a bound that is never negative.')


# ------------------------------------------------------------------ 'a second fit on the same data is equal' for the deterministic tree estimators
_run_pre_refit = run


def run(ck, prog):
    _run_pre_refit(ck, prog)
    # stand-alone trees are deterministic estimators: fit passes mtry = number of attributes and the only draw (the feature
    # shuffle) sits under mtry < n_attr; nothing else reachable from fit is nondeterministic (C05's rule, evaluated here too)
    from props import C05
    C05.determinism(ck, prog)


EXPLANATION += (" Refit equality of the stand-alone trees: the feature shuffle in find_best_cutoff is the only draw reachable from "
                "DecisionTree{Classifier,Regressor}::fit and it is dominated by mtry < number of attributes, which fit makes false "
                "(E2b-guarded, C05's rule).")
TECHNIQUE += "; RNG-draw reachability and dominance for the deterministic tree estimators"


# ------------------------------------------------------------------ map visitors: the duplicate test of a field guards the assignment of that same field
_run_pre_visitmap = run


def visit_map_pairing(ck, prog):
    """A serde map visitor keeps one Option per field; `X = Some(map.next_value()?)` sits behind `X.is_some()` /
    `X.is_none()` of the SAME X.  With the test on a sibling (copy-paste of the arm above) a document whose keys arrive in
    another order - a key-sorted serde_json::Value, a hand-written file - is rejected with a bogus duplicate-field error, or
    a real duplicate is accepted.  Checked for every visit_map body of the crate, derived and hand-written."""
    rule, inst = "E5-visitor", "visit_map: the duplicate test that guards `X = Some(next_value)` tests X"
    n_bodies = n = 0
    for b in prog.bodies.values():
        if not b.path.endswith("::visit_map") or not b.loc[0].startswith("src/"):
            continue
        n_bodies += 1
        res = Resolver(b)
        tests = []
        for (bb, term, tb, fb) in guards.bool_switches(b, res):
            if term[0] == "call" and term[1].split("::")[-1] in ("is_some", "is_none") and term[2] and term[2][0][0] in ("phi", "local"):
                tests.append((bb, term[2][0][1], term[1].split("::")[-1], tb, fb))
        if not tests:
            continue
        # the per-field Option trackers: locals some test looks at, or that start out as None (`let mut nrows = None;`)
        tracked = {t[1] for t in tests}
        for l, ds in b.defs.items():
            for d in ds:
                if d.kind == "assign" and d.data["r"]["k"] == "agg" and d.data["r"].get("variant") == "None":
                    tracked.add(l)
        for l, ds in b.defs.items():
            if l not in tracked:
                continue
            for d in ds:
                if d.kind != "assign":
                    continue
                v = res.rvalue(d.data["r"], 0, ())
                if not any(s[0] == "call" and s[1].split("::")[-1] == "next_value" for s in subterms(v)):
                    continue
                dom = [t for t in tests if b.dominates(t[0], d.bb) and (b.dominates(t[3], d.bb) != b.dominates(t[4], d.bb))]
                if not dom:
                    continue
                inner = [t for t in dom if not any(o is not t and b.dominates(t[0], o[0]) for o in dom)]
                n += 1
                t = inner[0]
                nm = b.local_name(l) or f"_{l}"
                if t[1] == l:
                    ck.ok(rule, inst, b.path, b.where(d.bb, d.idx), f"`{nm}` assigned behind {t[2]}() of `{nm}`")
                else:
                    ck.violation(rule, inst, b.path, b.where(d.bb, d.idx), ordinal=nm, expected=f"`{nm} = Some(..)` guarded by `{nm}.{t[2]}()`",
                                 found=f"`{nm}` is assigned behind `{b.local_name(t[1]) or t[1]}.{t[2]}()`: the duplicate test looks at a different field")
    ck.extra["visit_map_bodies"] = n_bodies
    if n == 0:
        ck.note(f"{inst}: no guarded field assignment recognised in {n_bodies} visit_map bodies (feature serde off?): no instance")


def run(ck, prog):
    _run_pre_visitmap(ck, prog)
    visit_map_pairing(ck, prog)


EXPLANATION += (" Map visitors (derived and hand-written): the is_some()/is_none() test that guards `X = Some(next_value)` is a test of "
                "X itself.")


# ------------------------------------------------------------------ unsupervised models: eq looks at every learned field the model's map reads
_run_pre_eqcover = run

UNSUPERVISED = {
    "PCA": ("decomposition::pca::PCA::<T, M>::", ("transform",), "<decomposition::pca::PCA<T, M> as std::cmp::PartialEq>::eq"),
    "SVD": ("decomposition::svd::SVD::<T, M>::", ("transform",), "<decomposition::svd::SVD<T, M> as std::cmp::PartialEq>::eq"),
    "KMeans": ("cluster::kmeans::KMeans::<T>::", ("predict",), "<cluster::kmeans::KMeans<T> as std::cmp::PartialEq>::eq"),
    "DBSCAN": ("cluster::dbscan::DBSCAN::<T, D>::", ("predict",), "<cluster::dbscan::DBSCAN<T, D> as std::cmp::PartialEq>::eq"),
}


def eq_covers_learned_state(ck, prog):
    """'[a model] does not equal a model fitted on different rows': for the estimators fitted on rows alone (no targets
    whose difference eq could fall back on) every field of self that transform / predict reads is a field eq reads.  A field
    the model's map depends on but equality ignores lets two models that map the same query differently compare equal
    (PCA: the centre mu / pmu and the truncated projection; DBSCAN: the stored points)."""
    from sa import config
    rule = "E5-eq-covers"
    for nm, (pre, uses, eqp) in UNSUPERVISED.items():
        eqb = prog.bodies.get(eqp)
        if eqb is None:
            ck.violation(rule, f"{nm}::eq exists", eqp, "", expected="anchor exists", found="anchor vanished")
            continue

        def reads(b):
            # direct field reads of self in the body itself (fields read only inside closures are not seen: fewer
            # obligations, never an alarm)
            fr, whole = config.field_reads(b, 1)
            return set(fr), whole
        fe, we = reads(eqb)
        for u in uses:
            ub = prog.bodies.get(pre + u)
            if ub is None:
                ck.violation(rule, f"{nm}::{u} exists", pre + u, "", expected="anchor exists", found="anchor vanished")
                continue
            fu, _ = reads(ub)
            for f in sorted(fu):
                inst = f"{nm}::eq reads `{f}`, which {u} depends on"
                if f in fe or we:
                    ck.ok(rule, inst, eqb.path, f"{eqb.loc[0]}:{eqb.loc[1]}", f"read by both {u} and eq")
                else:
                    ck.violation(rule, inst, eqb.path, f"{eqb.loc[0]}:{eqb.loc[1]}", ordinal=f,
                                 expected=f"eq compares every field {u} reads",
                                 found=f"{u} reads self.{f}; eq reads only {sorted(fe)}: two models that differ in `{f}` (and map the same input differently) compare equal")


def run(ck, prog):
    _run_pre_eqcover(ck, prog)
    eq_covers_learned_state(ck, prog)


EXPLANATION += (" For the models fitted on rows alone (PCA, truncated SVD, k-means, DBSCAN) every field of self that transform / predict "
                "reads is read by eq (found and fixed: PCA::eq ignored projection, mu and pmu; recorded: DBSCAN::eq ignores the stored points).")
TECHNIQUE += "; field-read coverage of PartialEq against the prediction routine"
