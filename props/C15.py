"""C15 metrics: length rejection (E1) + degenerate-entropy contradiction (E7)."""
from sa import e1, contradiction
from sa.e1 import G, NE, EQ
from sa.match import Dim
from sa.mir import AnchorError

LEVEL = "other"
EXPLANATION = (
    "(a) E1: the seven pairwise metrics (accuracy, precision, recall, F-beta, MSE, MAE, R^2) compare len(y_true) "
    "with len(y_pred), the mismatch edge is post-dominated by a panic and the comparison lies on every successful "
    "path (F-beta through precision/recall) - 'reject vectors of different length'. (b) E7: the entropy helper "
    "must be able to return the degenerate (None) variant that HCVScore::get_score maps to a score of 1 - "
    "'equal 1 when either labelling has a single class'; a helper that can only return Some contradicts its caller."
)
TECHNIQUE = "static analysis of rustc MIR: guard/post-dominance rule (E1) + dead-variant belief contradiction (E7)"

SPECS = [
    G("len(y_true)!=len(y_pred)->panic", rf"^metrics::{m}::get_score$", Dim("len", 2), Dim("len", 3), NE, EQ, "panic")
    for m in ("accuracy::Accuracy", "precision::Precision", "recall::Recall", r"f1::F1::<T>",
              "mean_squared_error::MeanSquareError", "mean_absolute_error::MeanAbsoluteError", "r2::R2")
]

ENTROPY = "metrics::cluster_helpers::entropy"


def run(ck, prog):
    e1.run(ck, prog, SPECS)
    ck.floor("E1-guard", 7)
    # ---- E7
    rule, inst = "E7-dead-variant", "entropy() can return the degenerate variant its caller defaults to 1"
    try:
        callee = prog.one("^" + ENTROPY + "$")
        caller = prog.one(r"^metrics::cluster_hcv::HCVScore::get_score$")
    except AnchorError as e:
        ck.violation(rule, inst, ENTROPY, "", expected="anchors exist", found=f"anchor vanished: {e}")
        return
    variants = contradiction.returned_variants(callee)
    sites = contradiction.default_sites(caller, ENTROPY)
    if len(sites) < 2:
        # fail closed: the belief sites (homogeneity, completeness) must be found
        ck.violation(rule, inst, caller.path, f"{caller.loc[0]}:{caller.loc[1]}",
                     expected="two default-supplying sites on entropy() results (homogeneity and completeness)",
                     found=f"found {len(sites)}: {sites}")
        return
    for i, (where, fn, recv) in enumerate(sites):
        if "None" in variants:
            ck.ok(rule, inst, caller.path, where, f"callee returns variants {sorted(variants)}; default at {fn}")
        else:
            ck.violation(rule, inst, caller.path, where,
                         expected="the callee can return None (degenerate entropy) since the caller maps None to a score of 1",
                         found=f"{ENTROPY} only ever returns {sorted(variants)}; the default supplied by {fn} on `{recv}` is dead, "
                               f"so a single-class labelling divides by a zero entropy instead of scoring 1",
                         path=[caller.path, callee.path], ordinal=i)
    ck.floor(rule, 2)
