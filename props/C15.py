"""C15 metrics: length rejection (E1) + degenerate-entropy contradiction (E7)."""
from sa import e1, contradiction, guards
from sa.e1 import G, NE, EQ
from sa.match import Dim
from sa.mir import AnchorError

LEVEL = "other"
EXPLANATION = (
    "(a) E1: the seven pairwise metrics (accuracy, precision, recall, F-beta, MSE, MAE, R^2) compare len(y_true) "
    "with len(y_pred), the mismatch edge is post-dominated by a panic and the comparison lies on every successful "
    "path (F-beta through precision/recall) - 'reject vectors of different length'. (b) E7: the entropy helper "
    "must be able to return the degenerate (None) variant that HCVScore::get_score maps to a score of 1 - "
    "'equal 1 when either labelling has a single class'; a helper that can only return Some contradicts its caller."
)
TECHNIQUE = "static analysis of rustc MIR: guard/post-dominance rule (E1) + dead-variant belief contradiction (E7)"

SPECS = [
    G("len(y_true)!=len(y_pred)->panic", rf"^metrics::{m}::get_score$", Dim("len", 2), Dim("len", 3), NE, EQ, "panic")
    for m in ("accuracy::Accuracy", "precision::Precision", "recall::Recall", r"f1::F1::<T>",
              "mean_squared_error::MeanSquareError", "mean_absolute_error::MeanAbsoluteError", "r2::R2")
]

ENTROPY = "metrics::cluster_helpers::entropy"


def run(ck, prog):
    e1.run(ck, prog, SPECS)
    ck.floor("E1-guard", 7)
    # ---- E7
    rule, inst = "E7-dead-variant", "entropy() can return the degenerate variant its caller defaults to 1"
    try:
        callee = prog.one("^" + ENTROPY + "$")
        caller = prog.one(r"^metrics::cluster_hcv::HCVScore::get_score$")
    except AnchorError as e:
        ck.violation(rule, inst, ENTROPY, "", expected="anchors exist", found=f"anchor vanished: {e}")
        return
    variants = contradiction.returned_variants(callee)
    sites = contradiction.default_sites(caller, ENTROPY)
    if len(sites) < 2:
        # fail closed: the belief sites (homogeneity, completeness) must be found
        ck.violation(rule, inst, caller.path, f"{caller.loc[0]}:{caller.loc[1]}",
                     expected="two default-supplying sites on entropy() results (homogeneity and completeness)",
                     found=f"found {len(sites)}: {sites}")
        return
    for i, (where, fn, recv) in enumerate(sites):
        if "None" in variants:
            ck.ok(rule, inst, caller.path, where, f"callee returns variants {sorted(variants)}; default at {fn}")
        else:
            ck.violation(rule, inst, caller.path, where,
                         expected="the callee can return None (degenerate entropy) since the caller maps None to a score of 1",
                         found=f"{ENTROPY} only ever returns {sorted(variants)}; the default supplied by {fn} on `{recv}` is dead, "
                               f"so a single-class labelling divides by a zero entropy instead of scoring 1",
                         path=[caller.path, callee.path], ordinal=i)
    ck.floor(rule, 2)


def centred_sums(ck, prog):
    """R^2: both sums of squares accumulate squared *differences* (y - mean, y - prediction), never raw squares:
    'real targets of any scale' - the one-pass sum(y^2) - n*mean^2 form cancels catastrophically for a large offset"""
    from sa.prov import Resolver, render, subterms
    rule, inst = "E2f-centred", "R2::get_score accumulates squared differences"
    try:
        b = prog.one(r"^metrics::r2::R2::get_score$")
    except AnchorError as e:
        ck.violation(rule, inst, "R2::get_score", "", expected="anchor exists", found=f"anchor vanished: {e}")
        return
    res = Resolver(b)
    is_elem = lambda s: (s[0] == "call" and s[1].endswith("BaseVector::get")) or s[0] == "idx"
    n = 0
    bodies = [b] + prog.closures_of.get(b.path, [])
    for bd in bodies:
        rs = Resolver(bd)
        for bb, t in bd.calls():
            f = t.get("f")
            if not (f and f["path"] == "std::ops::AddAssign::add_assign"):
                continue
            v = rs.operand(t["args"][1])
            factors = None
            if v[0] == "call" and v[1] == "std::ops::Mul::mul":
                factors = list(v[2])
            elif v[0] == "call" and v[1].endswith(("::powi", "::powf", "::square")):
                factors = [v[2][0]]
            if factors is None:
                continue
            n += 1
            bad = [render(F)[:60] for F in factors if not (F[0] == "call" and F[1] == "std::ops::Sub::sub" and any(is_elem(s) for s in subterms(F)))]
            if bad:
                ck.violation(rule, inst, bd.path, bd.where(bb), ordinal=n, expected="each accumulated square is the square of a difference",
                             found=f"accumulates a raw product: {bad}")
            else:
                ck.ok(rule, inst, bd.path, bd.where(bb), render(v)[:100])
    if n < 2:
        # fold / iterator forms: look at closures' return values
        for bd in bodies[1:]:
            r = Resolver(bd).local(0)
            for s in subterms(r):
                if s[0] == "call" and (s[1] == "std::ops::Mul::mul" or s[1].endswith(("::powi", "::square"))):
                    fs = list(s[2]) if s[1] == "std::ops::Mul::mul" else [s[2][0]]
                    if all(F[0] == "call" and F[1] == "std::ops::Sub::sub" for F in fs):
                        n += 1
                        ck.ok(rule, inst, bd.path, f"{bd.loc[0]}:{bd.loc[1]}", render(s)[:100])
                    elif any(F[0] == "arg" or F[0] == "field" for F in fs):
                        n += 1
                        ck.violation(rule, inst, bd.path, f"{bd.loc[0]}:{bd.loc[1]}", ordinal=n, expected="each accumulated square is the square of a difference",
                                     found=f"accumulates a raw product: {render(s)[:80]}")
    if n < 2:
        ck.violation(rule, inst, b.path, f"{b.loc[0]}:{b.loc[1]}", expected="two sums of squared differences (total, residual)", found=f"{n} recognised")


_run_c15 = run


def run(ck, prog):
    _run_c15(ck, prog)
    centred_sums(ck, prog)
    ck.floor("E2f-centred", 2)


# ------------------------------------------------------------------ AUC: labels are looked up through the argsort permutation
_run_pre_perm = run


def auc_permutation(ck, prog):
    """After `label_idx = y_pred.quick_argsort_mut()` positions in the sorted score vector are not row numbers: a read of
    y_true at a position of the sorted order (an index that also addresses the sorted scores) must go through label_idx."""
    from sa.prov import Resolver, render
    rule, inst = "E2-indirection", "AUC::get_score reads y_true at label_idx[position], never at a sorted position"
    try:
        b = prog.one(r"^metrics::auc::AUC::get_score$")
    except AnchorError as e:
        ck.violation(rule, inst, "AUC::get_score", "", expected="anchor exists", found=f"anchor vanished: {e}")
        return
    res = Resolver(b)
    sorted_local = None
    for bb, t in b.calls():
        f = t.get("f")
        if f and f["path"].endswith(("quick_argsort_mut", "quick_argsort")):
            a = t["args"][0]
            if a["k"] in ("move", "copy") and not a["p"]["pr"]:
                sorted_local = b.mutref_of.get(a["p"]["l"])
    if sorted_local is None:
        ck.note(f"{inst}: no argsort of a local score copy in AUC::get_score (different ranking scheme): rule has no instance")
        return
    is_perm = lambda t: t[0] == "call" and t[1].endswith(("quick_argsort_mut", "quick_argsort"))

    def locals_in(t, skip_perm):
        out, seen, work = set(), set(), [t]
        while work:
            s = work.pop()
            if not isinstance(s, tuple) or id(s) in seen:
                continue
            seen.add(id(s))
            if s and isinstance(s[0], str):
                if skip_perm and s[0] == "idx" and is_perm(s[1]):
                    continue
                if skip_perm and s[0] == "call" and s[1].endswith("Index::index") and s[2] and is_perm(s[2][0]):
                    continue
                if s[0] in ("phi", "local"):
                    out.add(s[1])
            work.extend(x for x in s[1:] if isinstance(x, tuple))
        return out
    pos = set()
    for bb, t in b.calls():
        f = t.get("f")
        if f and f["path"].endswith(("Index::index", "IndexMut::index_mut")) and len(t["args"]) == 2:
            base = res.operand(t["args"][0])
            if base[0] == "phi" and base[1] == sorted_local:
                pos |= locals_in(res.operand(t["args"][1]), False)
    pos.discard(sorted_local)
    n = 0
    for bb, t in b.calls():
        f = t.get("f")
        if not (f and f["path"].endswith("BaseVector::get")) or len(t["args"]) != 2:
            continue
        base = res.operand(t["args"][0])
        if not (base[0] == "arg" and base[1] == 2):
            continue
        n += 1
        ix = res.operand(t["args"][1])
        hit = locals_in(ix, True) & pos
        if hit:
            ck.violation(rule, inst, b.path, b.where(bb), ordinal=n,
                         expected="y_true[label_idx[k]] for a position k of the sorted scores",
                         found=f"y_true is read at `{render(ix)[:80]}`, a position of the sorted score vector (shares {sorted('_%d' % h for h in hit)} "
                               f"with the indices of the sorted scores), without the label_idx look-up")
        else:
            ck.ok(rule, inst, b.path, b.where(bb), f"index {render(ix)[:80]}")
    # reads inside closures: `positions.filter(|&k| y_true.get(k) == 1)` - the index is the closure's parameter, the
    # positions are the receiver of the adaptor the closure is handed to
    for cb in prog.closures_of.get(b.path, []):
        cres = Resolver(cb)
        reads = []
        for bb, t in cb.calls():
            f = t.get("f")
            if f and f["path"].endswith("BaseVector::get") and len(t["args"]) == 2:
                base, ix = cres.operand(t["args"][0]), cres.operand(t["args"][1])
                if base == ("upvar", "y_true") or (base[0] == "upvar" and b.arg_count >= 2 and base[1] == b.local_name(2)):
                    reads.append((bb, ix))
        if not reads:
            continue
        tag = "closure:" + cb.path
        for bb2, t2 in b.calls():
            if not any(a["k"] in ("move", "copy") and res.operand(a)[:2] == ("agg", tag) for a in t2["args"]):
                continue
            recv = res.operand(t2["args"][0])
            for (bb, ix) in reads:
                n += 1
                param = ix[0] == "arg" and ix[1] >= 2      # the parameter itself, not label_idx[parameter]
                hit = locals_in(recv, True) & pos
                if param and hit:
                    ck.violation(rule, inst, cb.path, cb.where(bb), ordinal=n,
                                 expected="y_true[label_idx[k]] for a position k of the sorted scores",
                                 found=f"y_true is read at the closure parameter, which ranges over `{render(recv)[:80]}`: positions of the sorted "
                                       f"score vector (shares {sorted('_%d' % h for h in hit)} with the indices of the sorted scores), without "
                                       f"the label_idx look-up")
                else:
                    ck.ok(rule, inst, cb.path, cb.where(bb), f"closure read; adaptor receiver {render(recv)[:80]}")
    if n == 0:
        ck.note(f"{inst}: y_true is not read through BaseVector::get: no instance")


def run(ck, prog):
    _run_pre_perm(ck, prog)
    auc_permutation(ck, prog)


EXPLANATION += (" Permutation look-up (E2-indirection): in AUC::get_score every read of y_true whose index is a position of the "
                "sorted score vector (shares a variable with the indices used on the argsorted copy) goes through label_idx; the first "
                "counting pass over 0..n is order-independent and exempt.")
TECHNIQUE += "; permutation-indirection provenance rule"


# ------------------------------------------------------------------ generic: rows/cols (outer/inner) mix-up of locally allocated buffers
_run_pre_dimension = run
DIMENSION_FILES = ['src/algorithm/sort/quick_sort.rs', 'src/metrics/accuracy.rs', 'src/metrics/auc.rs', 'src/metrics/cluster_hcv.rs', 'src/metrics/cluster_helpers.rs', 'src/metrics/f1.rs', 'src/metrics/mean_absolute_error.rs', 'src/metrics/mean_squared_error.rs', 'src/metrics/precision.rs', 'src/metrics/r2.rs', 'src/metrics/recall.rs']


def run(ck, prog):
    _run_pre_dimension(ck, prog)
    from sa import dimension
    dimension.run_rule(ck, prog, set(DIMENSION_FILES))


# ------------------------------------------------------------------ generic: signed counters are not cast to unsigned on their negative side
_run_pre_negcast = run


def run(ck, prog):
    _run_pre_negcast(ck, prog)
    from sa import negcast
    negcast.run_rule(ck, prog, set(DIMENSION_FILES))


# ------------------------------------------------------------------ F-beta: the harmonic-mean denominator is tested before the division
_run_pre_fbeta = run


def fbeta_zero_denominator(ck, prog):
    """'F-beta follow[s] from the binary confusion counts': with tp = 0 and fp, fn > 0 the counts give F = 0, precision and
    recall are both 0, and the harmonic-mean form (1+b^2) p r / (b^2 p + r) divides 0 by 0. A division whose denominator is
    built from both the precision and the recall result therefore has to sit behind a zero test of that denominator (or of
    its two summands), or F has to be computed from the counts. Guarded-division rule on F1::get_score."""
    from sa.match import Zero
    from sa.e1 import BodyCtx
    from sa import guards
    from sa.prov import subterms, render
    rule, inst = "E2-guarded-division", "F1::get_score: b^2*p + r is tested against zero before dividing by it"
    try:
        b = prog.one(r"^metrics::f1::F1::<T>::get_score$")
    except AnchorError as e:
        ck.violation(rule, inst, "F1::get_score", "", expected="anchor exists", found=f"anchor vanished: {e}")
        return
    cx = BodyCtx.of(b)
    res = cx.res
    zero = Zero()
    n = 0
    for bb, t in b.calls():
        f = t.get("f")
        if not (f and f["path"].endswith("Div::div") and len(t["args"]) == 2):
            continue
        den = res.operand(t["args"][1])
        scores = [s for s in subterms(den) if s[0] == "call" and s[1].endswith("get_score")]
        if len(scores) < 2:
            continue                      # not built from both precision and recall
        n += 1
        guarded = False
        for c in cx.cmps:
            for (L, R, rel) in ((c.lhs, c.rhs, c.rel), (c.rhs, c.lhs, guards.FLIP[c.rel])):
                if not zero(R):
                    continue
                if L == den or (L[0] == "call" and L[1].endswith("get_score")) or any(s == den for s in subterms(L)):
                    for er, dst, other in ((rel, c.true_bb, c.false_bb), (guards.NEG[rel], c.false_bb, c.true_bb)):
                        if "z" not in guards.ATOMS[er] and b.dominates(dst, bb) and not b.dominates(other, bb):
                            guarded = True
        if guarded:
            ck.ok(rule, inst, b.path, b.where(bb), f"division by `{render(den)[:60]}` is dominated by a non-zero edge")
        else:
            ck.violation(rule, inst, b.path, b.where(bb), ordinal=n,
                         expected="a zero test of the denominator (or of precision and recall) on every path to the division",
                         found=f"divides by `{render(den)[:80]}` unconditionally: for tp = 0 with fp, fn > 0 both scores are 0 and the result "
                               f"is NaN where the confusion counts give F = 0")
    if n == 0:
        ck.note(f"{inst}: no division by a combination of two sub-scores (F computed from counts): no instance")


def run(ck, prog):
    _run_pre_fbeta(ck, prog)
    fbeta_zero_denominator(ck, prog)


EXPLANATION += (' F-beta: a division by a combination of the precision and recall results sits behind a zero test (found and fixed: NaN for tp = 0).')


# ------------------------------------------------------------------ generic: `while counter < bound` loops advance their counter
_run_pre_progress = run


def run(ck, prog):
    _run_pre_progress(ck, prog)
    from sa import progress
    progress.run_rule(ck, prog, set(DIMENSION_FILES))


# ------------------------------------------------------------------ F-beta weights, AUC tie scan
_run_pre_fb2 = run


def fbeta_weights(ck, prog):
    """F-beta = (1 + b^2) p r / (b^2 p + r): in the denominator it is the PRECISION that is weighted by b^2 (definition).
    Provenance of the two get_score calls: the factor multiplied with beta^2 is Precision::get_score, the bare summand
    Recall::get_score. (With beta = 1, the only value the unit test uses, the swapped form is indistinguishable.)"""
    from sa.prov import Resolver, render, subterms
    rule, inst = "E2-provenance", "F1::get_score: beta^2 multiplies the precision in the denominator"
    try:
        b = prog.one(r"^metrics::f1::F1::<T>::get_score$")
    except AnchorError as e:
        ck.violation(rule, inst, "F1::get_score", "", expected="anchor exists", found=f"anchor vanished: {e}")
        return
    res = Resolver(b)
    callee = {}
    for bb, t in b.calls():
        f = t.get("f")
        if f and f["path"].endswith("::get_score") and not t["d"]["pr"]:
            callee[t["d"]["l"]] = f["path"]
    # find Add(Mul(beta2, X), Y) terms by walking the MIR calls (terms lose the callee's Self type)
    n = 0
    for bb, t in b.calls():
        f = t.get("f")
        if not (f and f["path"].endswith("Add::add") and len(t["args"]) == 2):
            continue
        def src(o):
            """(is product with beta-derived factor, score local)"""
            if o["k"] not in ("copy", "move") or o["p"]["pr"]:
                return None, None
            l = o["p"]["l"]
            for d in b.defs.get(l, []):
                if d.kind == "call" and d.data.get("f") and d.data["f"]["path"].endswith("Mul::mul"):
                    sc = [a["p"]["l"] for a in d.data["args"] if a["k"] in ("copy", "move") and not a["p"]["pr"] and _score_of(b, a["p"]["l"], callee)]
                    other = [res.operand(a) for a in d.data["args"]]
                    if sc and any(any(s[0] == "field" and s[2] == "beta" for s in subterms(x)) for x in other):
                        return True, _score_of(b, sc[0], callee)
            sc = _score_of(b, l, callee)
            return (False, sc) if sc else (None, None)
        a0, a1 = src(t["args"][0]), src(t["args"][1])
        pair = [x for x in (a0, a1) if x[1]]
        if len(pair) != 2 or not any(x[0] for x in pair):
            continue
        n += 1
        weighted = [x[1] for x in pair if x[0]][0]
        bare = [x[1] for x in pair if not x[0]]
        if "precision" in weighted.lower() and bare and "recall" in bare[0].lower():
            ck.ok(rule, inst, b.path, b.where(bb), f"beta^2 * {weighted.split('::')[-2]} + {bare[0].split('::')[-2]}")
        else:
            ck.violation(rule, inst, b.path, b.where(bb), ordinal=n, expected="beta^2 * precision + recall",
                         found=f"beta^2 multiplies `{weighted}`; the bare summand is `{bare[0] if bare else '?'}`")
    if n == 0:
        ck.note(f"{inst}: no sum beta^2 * score + score in F1::get_score (F computed from counts): no instance")


def _score_of(b, l, callee, depth=0):
    if l in callee:
        return callee[l]
    if depth > 4:
        return None
    ds = b.defs.get(l, [])
    if len(ds) == 1 and ds[0].kind == "assign" and ds[0].data["r"]["k"] == "use" and ds[0].data["r"]["o"]["k"] in ("copy", "move") \
            and not ds[0].data["r"]["o"]["p"]["pr"]:
        return _score_of(b, ds[0].data["r"]["o"]["p"]["l"], callee, depth + 1)
    return None


def run(ck, prog):
    _run_pre_fb2(ck, prog)
    fbeta_weights(ck, prog)


_run_pre_tiescan = run


def auc_tie_scan(ck, prog):
    """Rank averaging over ties: the scan that finds the end of a run of equal scores must be able to include the LAST
    element (a tie that reaches the highest score, e.g. constant or saturated scores). A scan index that is compared
    strictly below len - 1 and used to read the score at that same index stops one element short."""
    from sa.prov import Resolver, render, subterms
    from sa.match import dim_of
    from sa.e1 import BodyCtx
    rule, inst = "E1-gate", "AUC::get_score: the tie scan can reach the last element"
    try:
        b = prog.one(r"^metrics::auc::AUC::get_score$")
    except AnchorError as e:
        ck.violation(rule, inst, "AUC::get_score", "", expected="anchor exists", found=f"anchor vanished: {e}")
        return
    cx = BodyCtx.of(b)
    res = cx.res

    def is_len_minus_1(t):
        if t[0] == "field" and t[2] == "0":
            t = t[1]
        return t[0] == "bin" and t[1] in ("Sub", "SubWithOverflow") and t[3] == ("int", 1) and bool(dim_of(t[2]))
    # index variables used to read the sorted scores directly
    direct = set()
    for bb, t in b.calls():
        f = t.get("f")
        if f and f["path"].endswith(("Index::index",)) and len(t["args"]) == 2:
            ix = res.operand(t["args"][1])
            if ix[0] in ("phi", "local"):
                direct.add(ix[1])
    n = 0
    bad = []
    for c in cx.cmps:
        for (L, R, rel) in ((c.lhs, c.rhs, c.rel), (c.rhs, c.lhs, guards.FLIP[c.rel])):
            if L[0] in ("phi", "local") and L[1] in direct and (is_len_minus_1(R) or any(is_len_minus_1(a) for a in (R[2] if R[0] == "phi" else ()))):
                n += 1
                if rel == "<":
                    bad.append((c.where, render(L)[:30], render(R)[:40]))
    if bad:
        ck.violation(rule, inst, b.path, bad[0][0], expected="scan bounds that admit index len - 1 (j < len, or j <= len - 1)",
                     found=f"`{bad[0][1]} < {bad[0][2]}` bounds an index that reads the score at that same index: the last element never joins a tie group")
    else:
        ck.ok(rule, inst, b.path, f"{b.loc[0]}:{b.loc[1]}", f"{n} comparison(s) of a direct score index with len - 1, none strict-less")


def run(ck, prog):
    _run_pre_tiescan(ck, prog)
    auc_tie_scan(ck, prog)


EXPLANATION += (' F-beta: beta^2 multiplies the precision in the denominator (provenance of the two sub-scores). AUC: the tie scan can reach the last element (no strict `< len - 1` bound on an index that reads the score at that index).')


# ------------------------------------------------------------------ AUC: the buffer scanned for runs of equal scores is the sorted one
_run_pre_sortedscan = run


def auc_scans_sorted(ck, prog):
    """Ties are found by comparing entries of one buffer at two positions (run detection).  Runs are contiguous only in
    sorted order: a buffer that is a plain copy of the input scores (to_vec / clone / to_owned of a parameter) has to be
    sorted in place by some call before the scan reads it.  A non-mutating argsort leaves the copy in input order: the
    permutation is right, the tie groups are not."""
    from sa.prov import Resolver, render, subterms, alts
    from sa.e1 import BodyCtx
    rule, inst = "E2-provenance", "AUC::get_score: the buffer scanned for equal neighbours has been sorted in place"
    try:
        b = prog.one(r"^metrics::auc::AUC::get_score$")
    except AnchorError as e:
        ck.violation(rule, inst, "AUC::get_score", "", expected="anchor exists", found=f"anchor vanished: {e}")
        return
    cx = BodyCtx.of(b)
    n = 0
    for c in cx.cmps:
        if c.rel not in ("==", "!=") or c.lhs[0] != "idx" or c.rhs[0] != "idx" or c.lhs[1] != c.rhs[1]:
            continue
        base = c.lhs[1]
        al = list(alts(base))
        copies = [a for a in al if a[0] == "call" and a[1].split("::")[-1] in ("to_vec", "clone", "to_owned") and a[2] and a[2][0][0] == "arg"]
        if not copies or len(copies) + sum(1 for a in al if a[0] == "call" and a[1].startswith("mut:")) != len(al):
            continue                                                  # not a plain copy of an input: some other construction
        n += 1
        sorts = [a for a in al if a[0] == "call" and a[1].startswith("mut:") and "sort" in a[1].split("::")[-1]]
        if sorts:
            ck.ok(rule, inst, b.path, c.where, f"copy of `{copies[0][2][0][2]}` sorted in place by {sorts[0][1].split('::')[-1]}")
        else:
            ck.violation(rule, inst, b.path, c.where, expected="the copy of the scores is sorted in place before runs of equal neighbours are looked for",
                         found=f"`{render(base)[:60]}` is a copy of the input that no sorting call writes to; equal scores are adjacent only in sorted order")
    if n == 0:
        ck.note(f"{inst}: no equality scan over a plain copy of an input: no instance")


def run(ck, prog):
    _run_pre_sortedscan(ck, prog)
    auc_scans_sorted(ck, prog)


EXPLANATION += " AUC: the copy of the scores that is scanned for runs of equal neighbours is sorted in place by the call that yields the permutation."


# ------------------------------------------------------------------ generic: no magnitude is compared with a signed raw element
_run_pre_magnitude = run


def run(ck, prog):
    _run_pre_magnitude(ck, prog)
    from sa import magnitude
    magnitude.run_rule(ck, prog, set(DIMENSION_FILES))


# ------------------------------------------------------------------ generic: backward strided scans (`j -= step`) continue exactly while j >= step
_run_pre_subguard = run


def run(ck, prog):
    _run_pre_subguard(ck, prog)
    from sa import subguard
    subguard.run_rule(ck, prog, set(DIMENSION_FILES))


# ------------------------------------------------------------------ generic: a configuration field read on one successful path is read on every successful path
_run_pre_config = run


def run(ck, prog):
    _run_pre_config(ck, prog)
    from sa import config
    config.run_rule(ck, prog, set(DIMENSION_FILES))


# ------------------------------------------------------------------ generic: the value tested against a bound is the value set to the bound (clamps)
_run_pre_clamp = run


def run(ck, prog):
    _run_pre_clamp(ck, prog)
    from sa import clamp
    clamp.run_rule(ck, prog, set(DIMENSION_FILES))


# ------------------------------------------------------------------ generic: an index variable of one range addresses one buffer with one stride
_run_pre_stride = run


def run(ck, prog):
    _run_pre_stride(ck, prog)
    from sa import stride
    stride.run_rule(ck, prog, set(DIMENSION_FILES))


# ------------------------------------------------------------------ F-beta: an undefined precision / recall (0/0) is tested before it enters the quotient
_run_pre_fbeta_nan = run


def fbeta_undefined_inputs(ck, prog):
    """Precision is tp / (tp + fp) and recall tp / (tp + fn): with no predicted positive (or no actual positive) one of
    them is 0/0 = NaN although the confusion counts give a defined F-beta of 0 (tp = 0, the other count > 0).  NaN passes
    every `== 0` test, so each of the two results is looked at with is_nan() (or the score is computed from the counts
    directly, without calling Precision / Recall) before it takes part in arithmetic."""
    rule, inst = "E2-guarded-division", "F1::get_score: precision and recall are tested for NaN (0/0) before they enter the quotient"
    try:
        b = prog.one(r"^metrics::f1::F1::<T>::get_score$")
    except AnchorError as e:
        ck.violation(rule, inst, "F1::get_score", "", expected="anchor exists", found=f"anchor vanished: {e}")
        return
    from sa.prov import Resolver, subterms, render
    res = Resolver(b)
    srcs = {}
    for bb, t in b.calls():
        f = t.get("f")
        if f and f["path"].endswith(("Precision::get_score", "Recall::get_score")):
            srcs[f["path"].split("::")[-2]] = bb
    if not srcs:
        ck.note(f"{inst}: F-beta does not call Precision / Recall (computed from the counts): no instance")
        return
    tested = set()
    for bb, t in b.calls():
        f = t.get("f")
        if f and f["path"].split("::")[-1] == "is_nan" and t["args"]:
            a = res.operand(t["args"][0])
            for s in subterms(a):
                if s[0] == "call" and s[1].endswith(("Precision::get_score", "Recall::get_score")):
                    tested.add(s[1].split("::")[-2])
    missing = sorted(set(srcs) - tested)
    if missing:
        ck.violation(rule, inst, b.path, b.where(srcs[missing[0]]), expected="is_nan() of each of the two results before the harmonic mean",
                     found=f"{' and '.join(missing)} can be 0/0 = NaN (no predicted / no actual positive) and flow(s) into the quotient untested: F-beta is NaN where the counts give 0")
    else:
        ck.ok(rule, inst, b.path, b.where(srcs[sorted(srcs)[0]]), f"is_nan() applied to {sorted(tested)}")


def run(ck, prog):
    _run_pre_fbeta_nan(ck, prog)
    fbeta_undefined_inputs(ck, prog)


EXPLANATION += " F-beta: both the precision and the recall result are tested with is_nan() (found and fixed: NaN when nothing is predicted positive)."
