"""C05 decision trees: size-limit boundaries, routing agreement, determinism, label decoding."""
from sa import flow, guards
from sa.e1 import BodyCtx
from sa.match import dim_of
from sa.mir import AnchorError
from sa.prov import Resolver, render, subterms
from props.C09 import decode_rule

LEVEL = "other"
EXPLANATION = (
    "(a) E1 leaf-size boundary: each of the 8 comparisons of a child count with parameters.min_samples_leaf (the sweep in "
    "find_best_split and the realised partition in split, both trees) puts equality on the accepted side: only the "
    "count >= min_samples_leaf edge reaches the candidate-recording store (sweep) / a true return (split). "
    "(b) E1: the early `return false` on the node size may only be taken when n <= min_samples_split, the size compared "
    "is the plain sum of the node's sample weights. (c) routing agreement: the comparison that partitions rows in split "
    "and the one that routes a row in predict_for_row have the same operands (x[row, split_feature] vs split_value), "
    "the same boundary class, and in predict the <= side goes to true_child. (d) E2b determinism: every RNG draw in "
    "find_best_cutoff is dominated by the edge asserting mtry < n_attr, both fit pass mtry = shape(x).1 and hand the same x "
    "down, so fitting on all features draws nothing from the ambient thread RNG; no hash-order iteration or clock is "
    "reachable from fit. (e) E2a: DecisionTreeClassifier::predict stores elements of self.classes. Greedy optimality, leaf "
    "statistics, depth accounting and scale invariance are not decided."
)
TECHNIQUE = "static analysis of rustc MIR: boundary-class / gate rules on the size limits, sibling agreement of routing comparisons, dominance of RNG draws, label provenance"

TREES = {"regressor": "tree::decision_tree_regressor::DecisionTreeRegressor::<T>::",
         "classifier": "tree::decision_tree_classifier::DecisionTreeClassifier::<T>::"}
IS_MSL = lambda t: t[0] == "field" and t[2] == "min_samples_leaf"
IS_MSS = lambda t: t[0] == "field" and t[2] == "min_samples_split"


def _one(ck, prog, rule, inst, path):
    b = prog.bodies.get(path)
    if b is None:
        ck.violation(rule, inst, path, "", expected="anchor exists", found="anchor vanished")
    return b


def leaf_boundary(ck, prog):
    rule = "E1-boundary"
    for nm, P in TREES.items():
        # sweep: the candidate-recording store must be reachable only from count >= msl
        b = _one(ck, prog, rule, f"{nm}: find_best_split", P + "find_best_split")
        if b:
            cx = BodyCtx.of(b)
            sinks = set()
            for i, j, s in b.stmts():
                if s["k"] == "assign" and any(isinstance(e, dict) and e.get("n") in ("split_score", "split_value", "split_feature") for e in s["p"]["pr"]):
                    sinks.add(i)
            n = 0
            for c in cx.cmps:
                for (L, R, lhs_subj) in ((c.lhs, c.rhs, True), (c.rhs, c.lhs, False)):
                    if IS_MSL(R) and not IS_MSL(L):
                        n += 1
                        inst = f"{nm}: find_best_split candidate needs count >= min_samples_leaf"
                        acc = guards.gate_atoms(b, c, sinks, lhs_subj)
                        if acc == frozenset("zp") and sinks:
                            ck.ok(rule, inst, b.path, c.where, f"`{render(L)[:50]} ? min_samples_leaf`: candidate recorded iff count >= limit")
                        else:
                            ck.violation(rule, inst, b.path, c.where, ordinal=n,
                                         expected="a candidate threshold is recorded exactly when the child count is > or == min_samples_leaf",
                                         found=f"recorded under atoms {sorted(acc)} of sign(count - min_samples_leaf); sinks={len(sinks)}")
            if n != 2:
                ck.violation(rule, f"{nm}: find_best_split compares both child counts", b.path, f"{b.loc[0]}:{b.loc[1]}",
                             expected="2 comparisons with min_samples_leaf", found=f"{n}")
        # realised partition: a child smaller than the limit -> the split is abandoned (returns false)
        b = _one(ck, prog, rule, f"{nm}: split", P + "split")
        if b:
            cx = BodyCtx.of(b)
            n = 0
            for c in cx.cmps:
                for (L, R, rel) in ((c.lhs, c.rhs, c.rel), (c.rhs, c.lhs, guards.FLIP[c.rel])):
                    if IS_MSL(R) and not IS_MSL(L):
                        n += 1
                        inst = f"{nm}: split keeps children with count >= min_samples_leaf"
                        refused = set()
                        for er, dst in ((rel, c.true_bb), (guards.NEG[rel], c.false_bb)):
                            outs = cx.edges.get((c.bb, dst), set())
                            if outs <= {"false"}:
                                refused |= guards.ATOMS[er]
                        if refused == frozenset("n"):
                            ck.ok(rule, inst, b.path, c.where, f"`{render(L)[:50]} < min_samples_leaf` -> return false")
                        else:
                            ck.violation(rule, inst, b.path, c.where, ordinal=n,
                                         expected="the split is abandoned (return false) exactly when a child count is < min_samples_leaf",
                                         found=f"abandoned under atoms {sorted(refused)}")
            if n != 2:
                ck.violation(rule, f"{nm}: split compares both child counts", b.path, f"{b.loc[0]}:{b.loc[1]}",
                             expected="2 comparisons with min_samples_leaf", found=f"{n}")


def split_limit(ck, prog):
    rule = "E1-guard"
    for nm, P in TREES.items():
        inst = f"{nm}: find_best_cutoff gives up only when n <= min_samples_split"
        b = _one(ck, prog, rule, inst, P + "find_best_cutoff")
        if not b:
            continue
        cx = BodyCtx.of(b)
        n = 0
        for c in cx.cmps:
            for (L, R, rel) in ((c.lhs, c.rhs, c.rel), (c.rhs, c.lhs, guards.FLIP[c.rel])):
                if IS_MSS(R):
                    n += 1
                    refused = set()
                    for er, dst in ((rel, c.true_bb), (guards.NEG[rel], c.false_bb)):
                        if cx.edges.get((c.bb, dst), set()) <= {"false"}:
                            refused |= guards.ATOMS[er]
                    direct = L[0] == "call" and L[1].endswith("Iterator::sum") and any(s[0] == "field" and s[2] == "samples" for s in subterms(L)) \
                        and not any(s[0] == "bin" for s in subterms(L))
                    if "p" not in refused and direct:
                        ck.ok(rule, inst, b.path, c.where, f"`{render(L)[:40]} ? min_samples_split`: gives up on {sorted(refused)}")
                    else:
                        ck.violation(rule, inst, b.path, c.where, expected="return false only for n < or == min_samples_split, n = sum of the node's sample weights",
                                     found=f"gives up on atoms {sorted(refused)}; size term `{render(L)[:80]}`")
        if n != 1:
            ck.violation(rule, inst, b.path, f"{b.loc[0]}:{b.loc[1]}", expected="one comparison with min_samples_split", found=f"{n}")


def routing(ck, prog):
    rule = "E1-sibling"
    for nm, P in TREES.items():
        inst = f"{nm}: split and predict_for_row route rows by the same comparison"
        bs = _one(ck, prog, rule, inst, P + "split")
        bp = _one(ck, prog, rule, inst, P + "predict_for_row")
        if not bs or not bp:
            continue

        def route_cmp(b):
            cx = BodyCtx.of(b)
            out = []
            for c in cx.cmps:
                for (L, R, rel) in ((c.lhs, c.rhs, c.rel), (c.rhs, c.lhs, guards.FLIP[c.rel])):
                    lg = L[0] == "call" and L[1].endswith("BaseMatrix::get") and any(s[0] == "field" and s[2] == "split_feature" for s in subterms(L[2][2]))
                    rv = any(s[0] == "field" and s[2] == "split_value" for s in subterms(R))
                    if lg and rv:
                        out.append((c, rel, L, R))
            return out
        cs, cp = route_cmp(bs), route_cmp(bp)
        if len(cs) != 1 or len(cp) != 1:
            ck.violation(rule, inst, bs.path, "", expected="one routing comparison x[row, split_feature] ? split_value in each", found=f"split: {len(cs)}, predict_for_row: {len(cp)}")
            continue
        (c1, r1, _, R1), (c2, r2, _, R2) = cs[0], cp[0]
        # default for a missing threshold must agree as well (both unwrap_or_else(nan))
        def shape(R):
            # shallow shape of the threshold term: unwrap_or_else(<node>.split_value, <default fn>)
            if R[0] == "call" and len(R[2]) >= 1:
                return (R[1],) + tuple((a[0], a[2]) if a[0] == "field" else (a[0], a[1]) if a[0] == "fnref" else (a[0],) for a in R[2])
            if R[0] == "field":
                return ("field", R[2])
            return (R[0],)
        problems = []
        if r1 != r2:
            problems.append(f"split uses `{r1}`, predict_for_row uses `{r2}`")
        if shape(R1) != shape(R2):
            problems.append(f"threshold terms differ: {shape(R1)} vs {shape(R2)}")
        # predict: the side asserting x <= v must reach the push of true_child, the other side false_child
        rp = Resolver(bp)

        def child_of(o):
            v = rp.operand(o)
            while v[0] == "call" and v[1] in ("unwrap", "std::option::Option::<T>::unwrap", "std::option::Option::<T>::expect") and v[2]:
                v = v[2][0]
            return v[2] if v[0] == "field" else None
        def reads_field(name):
            """blocks that read <node>.<name> (the child chosen for the next step)"""
            out = set()
            for i, j, s in bp.stmts():
                if s["k"] != "assign":
                    continue
                r = s["r"]
                pl = r.get("p") if r["k"] in ("ref", "copyderef", "discr") else (r["o"].get("p") if r["k"] == "use" and r["o"]["k"] in ("copy", "move") else None)
                if pl and pl["pr"]:
                    last = [e for e in pl["pr"] if isinstance(e, dict) and "f" in e]
                    if last and last[-1]["n"] == name:
                        out.add(i)
            for bb, t in bp.calls():
                for a in t["args"]:
                    if a["k"] in ("copy", "move") and a["p"]["pr"]:
                        last = [e for e in a["p"]["pr"] if isinstance(e, dict) and "f" in e]
                        if last and last[-1]["n"] == name:
                            out.add(bb)
            return sorted(out)
        tc, fc = reads_field("true_child"), reads_field("false_child")
        # the children copied out before the comparison (`match (node.true_child, node.false_child) { (t, f) => .. t.unwrap() .. }`):
        # the site that chooses a child is then the unwrap / expect / push of the local that holds the field's value
        for bb_, t_ in bp.calls():
            f_ = t_.get("f")
            if f_ and f_["path"].split("::")[-1] in ("unwrap", "expect", "push_back", "unwrap_or") and t_["args"]:
                try:
                    nm_ = child_of(t_["args"][-1] if f_["path"].endswith("push_back") else t_["args"][0])
                except Exception:
                    nm_ = None
                if nm_ == "true_child" and bb_ not in tc:
                    tc = sorted(set(tc) | {bb_})
                if nm_ == "false_child" and bb_ not in fc:
                    fc = sorted(set(fc) | {bb_})
        lhs_subj = True
        c = c2
        rel = r2
        cc = guards.Cmp(c.bb, c.lhs, c.rhs, c.rel, c.true_bb, c.false_bb, c.where)
        subj_is_lhs = (cp[0][2] is c.lhs) or (cp[0][2] == c.lhs)
        at = guards.gate_atoms(bp, cc, tc, subj_is_lhs)
        af = guards.gate_atoms(bp, cc, fc, subj_is_lhs)
        want_t = guards.ATOMS[r1] if True else None
        if not (at == guards.ATOMS[r2] and af == guards.ATOMS[guards.NEG[r2]] and tc and fc):
            problems.append(f"in predict_for_row true_child is taken on {sorted(at)} and false_child on {sorted(af)}")
        if guards.ATOMS[r1] != frozenset("nz"):
            problems.append(f"rows with x == threshold are not sent to the `<=` side in split (`{r1}`)")
        if problems:
            ck.violation(rule, inst, bp.path, c2.where, expected="identical comparison (operands, boundary class) in split and predict_for_row; `<=` side -> true_child",
                         found="; ".join(problems))
        else:
            ck.ok(rule, inst, bp.path, c2.where, f"both `x[row, split_feature] {r1} split_value`; <= side -> true_child")


def determinism(ck, prog):
    rule = "E2b-guarded"
    cg = flow.CallGraph(prog)
    rf = flow.RngFlow(prog, cg)
    for nm, P in TREES.items():
        inst = f"{nm}: RNG draws only under mtry < n_attr"
        b = _one(ck, prog, rule, inst, P + "find_best_cutoff")
        if not b:
            continue
        cx = BodyCtx.of(b)
        draws = rf.draws.get(b.path, [])
        gate = []
        for c in cx.cmps:
            for (L, R, rel) in ((c.lhs, c.rhs, c.rel), (c.rhs, c.lhs, guards.FLIP[c.rel])):
                dr = dim_of(R)
                if L[0] == "arg" and L[1] == 3 and dr and dr[0] == "cols":
                    for er, dst, other in ((rel, c.true_bb, c.false_bb), (guards.NEG[rel], c.false_bb, c.true_bb)):
                        if guards.ATOMS[er] == frozenset("n"):
                            gate.append((dst, other, c.where))
        if not draws:
            ck.violation(rule, inst, b.path, "", expected="the feature shuffle (a draw) exists in find_best_cutoff", found="no draw site found (anchor moved?)")
            continue
        for bb, p, term in draws:
            if any(b.dominates(g, bb) and not b.dominates(o, bb) for (g, o, _) in gate):
                ck.ok(rule, inst, b.path, b.where(bb), f"{p.split('::')[-1]} under mtry < n_attr")
            else:
                ck.violation(rule, inst, b.path, b.where(bb), expected="the draw is dominated by the edge asserting mtry < number of attributes (strictly)",
                             found=f"{p} is reachable when mtry == n_attr (gates found: {[g[2] for g in gate]})")
        # fit passes mtry = shape(x).1 and the same x
        inst2 = f"{nm}: fit passes mtry = number of attributes of the same x"
        f = _one(ck, prog, rule, inst2, P + "fit")
        if f:
            res = Resolver(f)
            calls = [(bb, t) for bb, t in f.calls() if t.get("f") and t["f"]["path"].endswith("::fit_weak_learner")]
            if len(calls) != 1:
                ck.violation(rule, inst2, f.path, "", expected="one call of fit_weak_learner", found=f"{len(calls)}")
            else:
                bb, t = calls[0]
                xa = res.operand(t["args"][0])
                m = res.operand(t["args"][3])
                dm = dim_of(m)
                if xa[0] == "arg" and xa[1] == 1 and dm and dm[0] == "cols" and dm[1] == xa:
                    ck.ok(rule, inst2, f.path, f.where(bb), f"mtry = {render(m)}")
                else:
                    ck.violation(rule, inst2, f.path, f.where(bb), expected="fit_weak_learner(x, .., mtry = shape(x).1, ..)", found=f"x=`{render(xa)[:40]}`, mtry=`{render(m)[:60]}`")
            # nothing else nondeterministic reachable from fit
            inst3 = f"{nm}: no other ambient nondeterminism reachable from fit"
            reach = cg.reachable([f.path])
            amb = [(g, prog.bodies[g].where(bb), p) for g in sorted(reach) for (bb, p) in rf.ambient_sites.get(g, [])
                   if not (g == f.path and p.endswith("rand::thread_rng"))]
            amb += flow.hash_order_iterations(prog, sorted(reach))
            other_draws = [(g, prog.bodies[g].where(bb), p) for g in sorted(reach) for (bb, p, _) in rf.draws.get(g, []) if g != b.path]
            if amb or other_draws:
                for (g, w, p) in amb + other_draws:
                    ck.violation(rule, inst3, g, w, ordinal=p.split("::")[-1], expected="only the guarded feature shuffle consumes randomness", found=f"{p} reachable", path=cg.path_to(f.path, g))
            else:
                ck.ok(rule, inst3, f.path, f"{f.loc[0]}:{f.loc[1]}", f"{len(reach)} functions reachable")


def run(ck, prog):
    leaf_boundary(ck, prog)
    split_limit(ck, prog)
    routing(ck, prog)
    determinism(ck, prog)
    decode_rule(ck, prog, r"^tree::decision_tree_classifier::DecisionTreeClassifier::<T>::predict$", "DecisionTreeClassifier::predict stores classes[..]", 1)
    ck.floor("E1-boundary", 8)
    ck.floor("E1-guard", 2)
    ck.floor("E1-sibling", 2)
    ck.floor("E2b-guarded", 6)
    ck.floor("E2a-label-decode", 1)


def scale_free(ck, prog):
    """'fitting ... is unchanged when features are multiplied by a positive power of two': no feature/target-derived
    quantity is compared with a non-zero absolute constant anywhere in growing or routing (E4)"""
    from props.C01 import run_e4
    scope = r"^tree::decision_tree_(regressor|classifier)::DecisionTree(Regressor|Classifier)::<T>::(find_best_split|find_best_cutoff|split|predict_for_row|fit_weak_learner)$"
    n, _ = run_e4(ck, prog, scope, ["find_best_split", "split", "predict_for_row"], floor=6)
    ck.extra["t_comparisons_classified"] = n


_run_c05 = run


def run(ck, prog):
    _run_c05(ck, prog)
    scale_free(ck, prog)


_run_pre_builders = run


def run(ck, prog):
    _run_pre_builders(ck, prog)
    # every setting of the quantifier is reachable through the public builder chain: setters must not clobber other fields
    from sa.builders import check_builders
    check_builders(ck, prog, r"^tree::decision_tree_(classifier|regressor)::DecisionTree(Classifier|Regressor)Parameters$")
    ck.floor("E2-builder", 7)


# ------------------------------------------------------------------ per-row outputs: no state carried between row iterations
_run_pre_isolation = run
ISOLATION_FNS = [('DecisionTreeClassifier::predict', '^tree::decision_tree_classifier::DecisionTreeClassifier::<T>::predict$'), ('DecisionTreeRegressor::predict', '^tree::decision_tree_regressor::DecisionTreeRegressor::<T>::predict$')]


def run(ck, prog):
    _run_pre_isolation(ck, prog)
    from sa import isolation
    isolation.run_rule(ck, prog, ISOLATION_FNS, xarg=2)


EXPLANATION += (" Row-loop isolation (E2-isolation): in the `for i in 0..rows(x)` loop of the tree predict functions every piece of state an "
                "iteration reads is completely re-defined earlier in the same iteration (fresh allocation, whole assignment, fill/clear/"
                "copy_row_as_vec, or a reset loop over the full length), except the loop iterator and the result container written "
                "at row i only: a buffer hoisted out of the loop and only partly reset makes the output for a row depend on the rows "
                "processed before it.")
TECHNIQUE += "; loop-carried-state (iteration isolation) rule on the row loops"


# ------------------------------------------------------------------ generic: rows/cols (outer/inner) mix-up of locally allocated buffers
_run_pre_dimension = run
DIMENSION_FILES = ['src/algorithm/sort/quick_sort.rs', 'src/tree/decision_tree_classifier.rs', 'src/tree/decision_tree_regressor.rs']


def run(ck, prog):
    _run_pre_dimension(ck, prog)
    from sa import dimension
    dimension.run_rule(ck, prog, set(DIMENSION_FILES))


# ------------------------------------------------------------------ the best candidate is compared with candidates only
_run_pre_candidate = run


def candidate_floor(ck, prog):
    """Completeness ('a node that may be split and has an admissible threshold is split'): the first admissible candidate is
    recorded whatever its gain, and 'a split was found' means 'a candidate was recorded'. Structural necessary condition:
    the stored best score (`split_score`) is compared with other candidates' scores only - never defaulted to, or tested
    against, a constant (a floor of zero drops every zero-gain threshold, e.g. on XOR-like targets)."""
    from sa.match import Zero
    from sa.prov import Resolver, render, subterms
    rule = "E1-candidate"
    zero = Zero()

    def is_const(t):
        return zero(t) or t[0] == "const" and t[1][:1].isdigit() or (t[0] == "fnref" and t[1].endswith(("Zero::zero", "::zero", "::epsilon", "::one"))) \
            or (t[0] == "call" and not t[2] and t[1].endswith(("::epsilon", "::one", "::min_positive_value")))
    n = 0
    for tree in ("decision_tree_regressor::DecisionTreeRegressor", "decision_tree_classifier::DecisionTreeClassifier"):
        for fn in ("find_best_split", "find_best_cutoff"):
            inst = f"{tree.split('::')[-1]}::{fn}: split_score is compared with candidates only"
            b = prog.bodies.get(f"tree::{tree}::<T>::{fn}")
            if b is None:
                ck.violation(rule, inst, f"tree::{tree}::<T>::{fn}", "", expected="anchor exists", found="anchor vanished")
                continue
            res = Resolver(b)
            cx = BodyCtx.of(b)
            problems = []
            touches = lambda t: any(s[0] == "field" and s[2] == "split_score" for s in subterms(t))
            for c in cx.cmps:
                for side in (c.lhs, c.rhs):
                    if touches(side) and any(is_const(s) for s in subterms(side)) and side[0] != "field":
                        problems.append((c.where, f"`{render(side)[:80]}` supplies a constant in place of a missing best score"))
            # Option adaptors on split_score that take a closure: the closure must not test its parameter against a constant
            for bb, t in b.calls():
                f = t.get("f")
                if not (f and f["path"].startswith("std::option::Option") and t["args"]):
                    continue
                recv = res.operand(t["args"][0])
                if not touches(recv):
                    continue
                for a in t["args"][1:]:
                    at = res.operand(a)
                    if at[0] == "agg" and at[1].startswith("closure:"):
                        cb = prog.get(at[1][len("closure:"):])
                        if cb is None:
                            continue
                        cr = Resolver(cb)
                        for c2 in guards.comparisons(cb, cr):
                            sides = (c2.lhs, c2.rhs)
                            if any(s[0] == "arg" for s in sides) and any(is_const(s) for s in sides):
                                problems.append((cb.where(c2.bb), f"the closure handed to `{f['name']}` on split_score tests the score against a constant"))
                        rt = cr.local(0)
                        for s in subterms(rt):
                            cnd = guards._cond(cr, s) if s[0] in ("bin", "call") else None
                            if cnd and any(x[0] == "arg" for x in (cnd[0], cnd[2])) and any(is_const(x) for x in (cnd[0], cnd[2])):
                                problems.append((f"{cb.loc[0]}:{cb.loc[1]}", f"the closure handed to `{f['name']}` on split_score tests the score against a constant"))
                    elif is_const(at) and f["name"] in ("unwrap_or", "unwrap_or_else", "map_or", "unwrap_or_default"):
                        pass   # reported through the comparison it feeds (above) when it reaches one
            n += 1
            if problems:
                w, m = problems[0]
                ck.violation(rule, inst, b.path, w, expected="the best score is only ever compared with another candidate's score or tested for presence",
                             found="; ".join(sorted({m for _, m in problems})))
            else:
                ck.ok(rule, inst, b.path, f"{b.loc[0]}:{b.loc[1]}", "no constant floor on split_score")


def run(ck, prog):
    _run_pre_candidate(ck, prog)
    candidate_floor(ck, prog)
    ck.floor("E1-candidate", 4)


# ------------------------------------------------------------------ both children are one level below their parent
_run_pre_levels = run


def child_levels(ck, prog):
    """Depth limit: 'no root-to-leaf path has more than max_depth splits'. In `split` the two child visitors are built by the
    same constructor; both must receive the same level term, and that term is the parent's level + 1 (sibling agreement)."""
    from sa.prov import Resolver, render
    rule = "E1-sibling"
    for nm, P in TREES.items():
        inst = f"{nm}: both child visitors of split() are one level below the parent"
        b = _one(ck, prog, rule, inst, P + "split")
        if not b:
            continue
        res = Resolver(b)
        news = [(bb, t) for bb, t in b.calls() if t.get("f") and t["f"]["path"].endswith("NodeVisitor::<'a, T, M>::new") or
                (t.get("f") and t["f"]["path"].endswith("::new") and "NodeVisitor" in t["f"]["path"])]
        if len(news) != 2:
            ck.note(f"{inst}: {len(news)} NodeVisitor::new calls in split (expected 2): child visitors built differently, no instance")
            continue
        lv = [res.operand(t["args"][-1]) for _, t in news]
        is_parent_plus_1 = lambda t: t[0] == "bin" and t[1] in ("Add", "AddWithOverflow") and ("int", 1) in (t[2], t[3]) and \
            any(x[0] == "field" and x[2] == "level" for x in (t[2], t[3]))
        strip = lambda t: t[1] if t[0] == "field" and t[2] == "0" and t[1][0] == "bin" else t
        lv = [strip(x) for x in lv]
        if lv[0] != lv[1]:
            ck.violation(rule, inst, b.path, b.where(news[1][0]), expected="the same level for both children",
                         found=f"true child gets `{render(lv[0])}`, false child gets `{render(lv[1])}`")
        elif not is_parent_plus_1(lv[0]):
            ck.violation(rule, inst, b.path, b.where(news[0][0]), expected="level = visitor.level + 1", found=f"both children get `{render(lv[0])}`")
        else:
            ck.ok(rule, inst, b.path, b.where(news[0][0]), f"both children get `{render(lv[0])}`")


def run(ck, prog):
    _run_pre_levels(ck, prog)
    child_levels(ck, prog)


EXPLANATION += (' Completeness/depth: the stored best score (split_score) is compared with other candidates only - never defaulted to or tested against a constant (E1-candidate); both child visitors built in split() receive the same level, visitor.level + 1 (E1-sibling).')


# ------------------------------------------------------------------ generic: signed counters are not cast to unsigned on their negative side
_run_pre_negcast = run


def run(ck, prog):
    _run_pre_negcast(ck, prog)
    from sa import negcast
    negcast.run_rule(ck, prog, set(DIMENSION_FILES))


# ------------------------------------------------------------------ the stored threshold lies strictly below the upper value
_run_pre_midpoint = run


def threshold_below_upper(ck, prog):
    """'the value it predicts is [that] of exactly those training rows that are routed to the same leaf': the sweep counts the
    rows with x <= prevx on the true side and x >= upper on the false side, and stores a threshold between them that
    predict/split compare with `<=`. The arithmetic midpoint (upper + prevx) / 2 of two adjacent floating-point values can
    round up to `upper` (0.3 and 0.1 + 0.2), which routes the `upper` rows to the true child although they were counted on the
    false side. Necessary condition: the stored threshold is not the bare midpoint - it is selected under a comparison of
    the midpoint with the upper value (falling back to the lower value)."""
    from sa.prov import Resolver, render, subterms, alts
    rule = "E1-guard"
    for nm, P in TREES.items():
        inst = f"{nm}: the stored threshold is the midpoint only if that is below the upper value"
        b = _one(ck, prog, rule, inst, P + "find_best_split")
        if not b:
            continue
        cx = BodyCtx.of(b)
        res = cx.res
        stores = []
        for l, ds in b.partial_defs.items():
            for d in ds:
                if d.kind == "assign" and any(isinstance(e, dict) and e.get("n") == "split_value" for e in d.data["p"]["pr"]):
                    stores.append((d, res.rvalue(d.data["r"], 0, ())))
        for l, ds in b.defs.items():
            for d in ds:
                if d.kind == "store" and any(isinstance(e, dict) and e.get("n") == "split_value" for e in d.data["p"]["pr"]):
                    stores.append((d, res.rvalue(d.data["r"], 0, ())))
        mids = []
        for d, tm in stores:
            for s in subterms(tm):
                if s[0] == "call" and s[1].endswith("Div::div") and len(s[2]) == 2 and s[2][0][0] == "call" and s[2][0][1].endswith("Add::add"):
                    mids.append((d, tm, s))
                    break
        if not mids:
            ck.note(f"{inst}: no midpoint stored into split_value (threshold chosen differently): no instance")
            continue
        d, tm, mid = mids[0]
        where = b.where(d.bb, d.idx if d.idx != "term" else "term")
        # the stored value must be a selection (phi) between the midpoint and another value, decided by a comparison of the midpoint
        selected = any(a != mid and not any(x == mid for x in subterms(a)) for a in alts(_payload(tm))) and \
            any((c.lhs == mid or c.rhs == mid) for c in cx.cmps)
        if selected:
            ck.ok(rule, inst, b.path, where, f"threshold = `{render(mid)[:60]}` only under a comparison with the upper value")
        else:
            ck.violation(rule, inst, b.path, where,
                         expected="the midpoint is stored only if it compares below the upper value, otherwise the lower value is stored",
                         found=f"split_value = `{render(mid)[:80]}` unconditionally: for adjacent floating-point values the midpoint rounds up to "
                               f"the upper one and the rows counted on the false side are routed to the true child")


def _payload(t):
    """strip Some(..) / Option aggregates"""
    while t[0] in ("agg", "variant") and len(t) > 2 and isinstance(t[2], tuple) and len(t[2]) == 1:
        t = t[2][0]
    return t


def run(ck, prog):
    _run_pre_midpoint(ck, prog)
    threshold_below_upper(ck, prog)


EXPLANATION += (' Threshold: the midpoint is stored in split_value only under a comparison with the upper value (found and fixed: for adjacent floats the midpoint rounds up to the upper value and rows change sides).')


# ------------------------------------------------------------------ generic: `while counter < bound` loops advance their counter
_run_pre_progress = run


def run(ck, prog):
    _run_pre_progress(ck, prog)
    from sa import progress
    progress.run_rule(ck, prog, set(DIMENSION_FILES))


# ------------------------------------------------------------------ the sweep keeps `previous value` in step with its counters; which_max is a running arg-max
_run_pre_prevx = run


def prevx_in_step(ck, prog):
    """The sweep of find_best_split places a threshold between the previous and the current feature value. Every branch
    that advances the running counters past a row (also the branches that skip the row as a candidate) must record that
    row's value as the new `previous value`; otherwise the next threshold is computed from an older value and the rows
    in between are counted on one side and routed to the other. Sibling agreement inside one function: every update site of
    the row counter lies on a straight-line path with an assignment of the previous-value local."""
    from sa.prov import Resolver, render
    from sa.isolation import natural_loops
    rule = "E1-sibling"
    for nm, P in TREES.items():
        inst = f"{nm}: every branch of the sweep that counts a row also records its value as the previous value"
        b = _one(ck, prog, rule, inst, P + "find_best_split")
        if not b:
            continue
        cx = BodyCtx.of(b)
        res = cx.res
        # the previous-value local: a float local compared for equality with a data element and assigned data elements in the loop
        prev = None
        is_elem = lambda t: t[0] == "call" and t[1].endswith("BaseMatrix::get")
        for c in cx.cmps:
            for (L, R) in ((c.lhs, c.rhs), (c.rhs, c.lhs)):
                if c.rel in ("==", "!=") and is_elem(L) and R[0] == "phi" and any(is_elem(a) for a in R[2]):
                    prev = R[1]
        if prev is None:
            ck.note(f"{inst}: no `x == previous value` tie test in find_best_split: no instance")
            continue
        loops = natural_loops(b)
        pdefs = [d.bb for d in b.defs.get(prev, []) if d.kind == "assign" and d.bb != 0]
        # counter update sites: integer locals updated by `l = l + w` inside a loop, and element stores `c[k] += w`
        sites = []
        for l, ds in b.defs.items():
            if b.is_arg(l) or not b.local_name(l):
                continue
            for d in ds:
                if d.kind == "assign" and d.data["r"]["k"] in ("bin", "use") and b.local_ty(l) in ("usize", "u64", "u32"):
                    tm = res.from_def(d, 1, ())
                    if tm[0] == "field" and tm[2] == "0":
                        tm = tm[1]
                    if tm[0] == "bin" and tm[1] in ("Add", "AddWithOverflow") and tm[2][0] in ("phi", "local") and tm[2][1] == l \
                            and any(d.bb in nodes for nodes in loops.values()):
                        sites.append((l, d.bb, b.where(d.bb, d.idx)))
                elif d.kind == "store" and "usize" in b.local_ty(l):
                    tm = res.rvalue(d.data["r"], 0, ())
                    if tm[0] == "field" and tm[2] == "0":
                        tm = tm[1]
                    if tm[0] == "bin" and tm[1] in ("Add", "AddWithOverflow") and any(d.bb in nodes for nodes in loops.values()):
                        sites.append((l, d.bb, b.where(d.bb, d.idx)))
        if not sites or not pdefs:
            ck.note(f"{inst}: no counter update sites / previous-value assignments recognised: no instance")
            continue
        bad = [(l, w) for (l, bb, w) in sites if not any(b.dominates(p, bb) and _same_region(b, p, bb) or b.dominates(bb, p) and _same_region(b, bb, p)
                                                           for p in pdefs)]
        if bad:
            l, w = bad[0]
            ck.violation(rule, inst, b.path, w, expected="the previous value is assigned on the same straight-line path as every counter update",
                         found=f"`{b.local_name(l)}` is advanced at {w} on a branch that does not assign `{b.local_name(prev)}`: the next "
                               f"threshold is the midpoint with an older value")
        else:
            ck.ok(rule, inst, b.path, sites[0][2], f"{len(sites)} counter update sites, each with `{b.local_name(prev)}` assigned on its path")


def _same_region(b, a, c):
    """a dominates c and no two-way branch that is not post-dominated... approximated: c post-dominates a or every path from a reaches c
    before the loop latch - checked as: a dominates c and c post-dominates a"""
    return c in b.pdom.get(a, set()) or a == c


def which_max_running(ck, prog):
    """which_max (majority class of a count table) compares each element with the RUNNING maximum: a comparison between two
    elements of the table at different positions (x[i] > x[i - 1]) finds a local rise, not the maximum."""
    from sa.prov import Resolver, render, subterms
    rule, inst = "E2d-sign", "which_max compares each count with the running maximum"
    b = prog.bodies.get("tree::decision_tree_classifier::which_max")
    if b is None:
        ck.note(f"{inst}: which_max not found: no instance")
        return
    cx = BodyCtx.of(b)
    is_el = lambda t: (t[0] == "idx" and any(s[0] == "arg" and s[1] == 1 for s in subterms(t[1]))) or \
        (t[0] == "field" and any(s[0] == "call" and s[1].endswith("Iterator::next") for s in subterms(t)))
    bad = [c for c in cx.cmps if is_el(c.lhs) and is_el(c.rhs) and c.lhs != c.rhs and c.lhs[0] == "idx" and c.rhs[0] == "idx"]
    if bad:
        ck.violation(rule, inst, b.path, bad[0].where, expected="element ? running maximum (a loop-carried local)",
                     found=f"`{render(bad[0].lhs)[:40]} {bad[0].rel} {render(bad[0].rhs)[:40]}` compares two table entries with each other")
    else:
        ck.ok(rule, inst, b.path, f"{b.loc[0]}:{b.loc[1]}", f"{len(cx.cmps)} comparison(s), none between two table entries")


def run(ck, prog):
    _run_pre_prevx(ck, prog)
    prevx_in_step(ck, prog)
    which_max_running(ck, prog)


EXPLANATION += (' Sweep consistency: every branch that advances the row counters also assigns the previous-value local (E1-sibling); which_max compares each count with the running maximum, never two table entries with each other.')


# ------------------------------------------------------------------ generic: no magnitude is compared with a signed raw element
_run_pre_magnitude = run


def run(ck, prog):
    _run_pre_magnitude(ck, prog)
    from sa import magnitude
    magnitude.run_rule(ck, prog, set(DIMENSION_FILES))


# ------------------------------------------------------------------ generic: backward strided scans (`j -= step`) continue exactly while j >= step
_run_pre_subguard = run


def run(ck, prog):
    _run_pre_subguard(ck, prog)
    from sa import subguard
    subguard.run_rule(ck, prog, set(DIMENSION_FILES))


# ------------------------------------------------------------------ generic: a configuration field read on one successful path is read on every successful path
_run_pre_config = run


def run(ck, prog):
    _run_pre_config(ck, prog)
    from sa import config
    config.run_rule(ck, prog, set(DIMENSION_FILES))


# ------------------------------------------------------------------ generic: the value tested against a bound is the value set to the bound (clamps)
_run_pre_clamp = run


def run(ck, prog):
    _run_pre_clamp(ck, prog)
    from sa import clamp
    clamp.run_rule(ck, prog, set(DIMENSION_FILES))


# ------------------------------------------------------------------ generic: an index variable of one range addresses one buffer with one stride
_run_pre_stride = run


def run(ck, prog):
    _run_pre_stride(ck, prog)
    from sa import stride
    stride.run_rule(ck, prog, set(DIMENSION_FILES))
