"""C02 eigen-decomposition: scale-homogeneous thresholds (E4)."""
from sa.mir import AnchorError
from sa.prov import render
from props.C01 import run_e4

LEVEL = "other"
EXPLANATION = (
    "E4 scale homogeneity over evd_mut, tred2, tql2, balance, elmhes, eltran, hqr2, balbak, sort: every comparison "
    "between element-typed values is a zero test, a comparison of two data-derived quantities, or relative "
    "(eps * data-derived scale); none compares an element-derived quantity with a non-zero machine constant. The two "
    "overflow guards of hqr2's back-substitution (`eps*t*t > 1`, t = magnitude of an eigenvector component just "
    "computed as a ratio of same-degree quantities, hence scale-free by construction) are the only frozen exceptions "
    "(at most 2, only in hqr2, only of that shape). Necessary for 'uniformly rescaled by 1e-12..1e12' and 'badly "
    "balanced'. A*V = V*diag(d), orthonormality, ordering and the trace identities are not decided."
)
TECHNIQUE = "static analysis of rustc MIR: scale-homogeneity classification of float comparisons (degenerate units analysis)"
SCOPE = r"^linalg::evd::(tred2|tql2|balance|elmhes|eltran|hqr2|balbak|sort)$|^linalg::evd::EVDDecomposableMatrix::evd_mut$"
MUST = ["tred2", "tql2", "balance", "elmhes", "hqr2", "sort", "evd_mut"]


def hqr2_exception(b, r):
    """`epsilon * t * t > 1` in hqr2: data side is a product containing epsilon() twice-multiplied by the same t"""
    if not b.path.endswith("linalg::evd::hqr2"):
        return False
    c, d = r["const_term"], r["data_term"]
    if not (c[0] == "call" and c[1].endswith("::one") and not c[2]):
        return False
    # d = mul(mul(epsilon(), t), t)
    if not (d[0] == "call" and d[1] == "std::ops::Mul::mul" and len(d[2]) == 2):
        return False
    inner, t2 = d[2]
    if not (inner[0] == "call" and inner[1] == "std::ops::Mul::mul" and len(inner[2]) == 2):
        return False
    e, t1 = inner[2]
    if not (e[0] == "call" and e[1].endswith("::epsilon") and not e[2]):
        return False
    return t1 == t2 and r["rel"] in (">", ">=")


def run(ck, prog):
    n, used = run_e4(ck, prog, SCOPE, MUST, exceptions=hqr2_exception, floor=30)
    ck.extra["t_comparisons_classified"] = n
    ck.extra["frozen_exceptions_used"] = used
    if used > 2:
        ck.violation("E4-scale", "frozen exceptions", "linalg::evd::hqr2", "", expected="at most the 2 counted overflow guards", found=f"{used} sites match the exception shape")


# ------------------------------------------------------------------ generic: rows/cols (outer/inner) mix-up of locally allocated buffers
_run_pre_dimension = run
DIMENSION_FILES = ['src/linalg/evd.rs']


def run(ck, prog):
    _run_pre_dimension(ck, prog)
    from sa import dimension
    dimension.run_rule(ck, prog, set(DIMENSION_FILES))


# ------------------------------------------------------------------ generic: signed counters are not cast to unsigned on their negative side
_run_pre_negcast = run


def run(ck, prog):
    _run_pre_negcast(ck, prog)
    from sa import negcast
    negcast.run_rule(ck, prog, set(DIMENSION_FILES))


# ------------------------------------------------------------------ generic: `while counter < bound` loops advance their counter
_run_pre_progress = run


def run(ck, prog):
    _run_pre_progress(ck, prog)
    from sa import progress
    progress.run_rule(ck, prog, set(DIMENSION_FILES))
