"""C02 eigen-decomposition: scale-homogeneous thresholds (E4)."""
from sa.mir import AnchorError
from sa.prov import render, subterms
from props.C01 import run_e4

LEVEL = "other"
EXPLANATION = (
    "E4 scale homogeneity over evd_mut, tred2, tql2, balance, elmhes, eltran, hqr2, balbak, sort: every comparison "
    "between element-typed values is a zero test, a comparison of two data-derived quantities, or relative "
    "(eps * data-derived scale); none compares an element-derived quantity with a non-zero machine constant. The two "
    "overflow guards of hqr2's back-substitution (`eps*t*t > 1`, t = magnitude of an eigenvector component just "
    "computed as a ratio of same-degree quantities, hence scale-free by construction) are the only frozen exceptions "
    "(at most 2, only in hqr2, only of that shape). Necessary for 'uniformly rescaled by 1e-12..1e12' and 'badly "
    "balanced'. A*V = V*diag(d), orthonormality, ordering and the trace identities are not decided."
)
TECHNIQUE = "static analysis of rustc MIR: scale-homogeneity classification of float comparisons (degenerate units analysis)"
SCOPE = r"^linalg::evd::(tred2|tql2|balance|elmhes|eltran|hqr2|balbak|sort)$|^linalg::evd::EVDDecomposableMatrix::evd_mut$"
MUST = ["tred2", "tql2", "balance", "elmhes", "hqr2", "sort", "evd_mut"]


def hqr2_exception(b, r):
    """`epsilon * t * t > 1` in hqr2: data side is a product containing epsilon() twice-multiplied by the same t"""
    if not b.path.endswith("linalg::evd::hqr2"):
        return False
    c, d = r["const_term"], r["data_term"]
    if not (c[0] == "call" and c[1].endswith("::one") and not c[2]):
        return False
    # d = mul(mul(epsilon(), t), t)
    if not (d[0] == "call" and d[1] == "std::ops::Mul::mul" and len(d[2]) == 2):
        return False
    inner, t2 = d[2]
    if not (inner[0] == "call" and inner[1] == "std::ops::Mul::mul" and len(inner[2]) == 2):
        return False
    e, t1 = inner[2]
    if not (e[0] == "call" and e[1].endswith("::epsilon") and not e[2]):
        return False
    return t1 == t2 and r["rel"] in (">", ">=")


def run(ck, prog):
    n, used = run_e4(ck, prog, SCOPE, MUST, exceptions=hqr2_exception, floor=30)
    ck.extra["t_comparisons_classified"] = n
    ck.extra["frozen_exceptions_used"] = used
    if used > 2:
        ck.violation("E4-scale", "frozen exceptions", "linalg::evd::hqr2", "", expected="at most the 2 counted overflow guards", found=f"{used} sites match the exception shape")


# ------------------------------------------------------------------ generic: rows/cols (outer/inner) mix-up of locally allocated buffers
_run_pre_dimension = run
DIMENSION_FILES = ['src/linalg/evd.rs']


def run(ck, prog):
    _run_pre_dimension(ck, prog)
    from sa import dimension
    dimension.run_rule(ck, prog, set(DIMENSION_FILES))


# ------------------------------------------------------------------ generic: signed counters are not cast to unsigned on their negative side
_run_pre_negcast = run


def run(ck, prog):
    _run_pre_negcast(ck, prog)
    from sa import negcast
    negcast.run_rule(ck, prog, set(DIMENSION_FILES))


# ------------------------------------------------------------------ generic: `while counter < bound` loops advance their counter
_run_pre_progress = run


def run(ck, prog):
    _run_pre_progress(ck, prog)
    from sa import progress
    progress.run_rule(ck, prog, set(DIMENSION_FILES))


# ------------------------------------------------------------------ balancing factors accumulate; the exceptional shift covers the active block
_run_pre_evdshape = run


def balance_accumulates(ck, prog):
    """balance() may rescale the same row in several sweeps; balbak() multiplies the eigenvector rows by scale[i], so scale[i]
    has to be the PRODUCT of all factors applied to row i: every update of a scale entry inside the sweep is a multiplicative
    update (`*= f`), never a plain overwrite with the latest factor."""
    from sa.prov import Resolver, render
    rule, inst = "E2-provenance", "balance: scale[i] accumulates the factors applied to row i"
    b = prog.bodies.get("linalg::evd::balance")
    if b is None:
        ck.violation(rule, inst, "linalg::evd::balance", "", expected="anchor exists", found="anchor vanished")
        return
    res = Resolver(b)
    # the scale vector: the Vec<T> returned
    ret = None
    for d in b.defs.get(0, []):
        if d.kind == "assign" and d.data["r"]["k"] == "use" and d.data["r"]["o"]["k"] in ("move", "copy"):
            ret = d.data["r"]["o"]["p"]["l"]
    muls, stores = [], []
    for bb, t in b.calls():
        f = t.get("f")
        if f and f["path"].endswith("MulAssign::mul_assign") and t["args"][0]["k"] in ("move", "copy"):
            tgt = res.operand(t["args"][0])
            if _is_scale_elem(tgt, ret):
                muls.append(b.where(bb))
    for l, ds in b.partial_defs.items():
        for d in ds:
            if d.kind == "assign" and d.data["p"]["pr"] == ["*"]:
                tgt = res.local(l)
                if _is_scale_elem(tgt, ret):
                    v = res.rvalue(d.data["r"], 0, ())
                    if not (v[0] == "call" and v[1].endswith("Mul::mul")):
                        stores.append((b.where(d.bb, d.idx), render(v)[:50]))
    for d in b.defs.get(ret, []) if ret is not None else []:
        if d.kind == "store":
            v = res.rvalue(d.data["r"], 0, ())
            if not (v[0] == "call" and v[1].endswith("Mul::mul")) and v[0] != "call":
                stores.append((b.where(d.bb, d.idx), render(v)[:50]))
    site = f"{b.loc[0]}:{b.loc[1]}"
    if stores:
        ck.violation(rule, inst, b.path, stores[0][0], expected="scale[i] *= f (the factors of all sweeps multiply)",
                     found=f"a scale entry is overwritten with `{stores[0][1]}`: balbak undoes only the last rescaling of that row")
    elif muls:
        ck.ok(rule, inst, b.path, muls[0], f"{len(muls)} multiplicative update(s) of scale entries, no overwrite")
    else:
        ck.note(f"{inst}: no update of the returned scale vector recognised: no instance")


def _is_scale_elem(t, ret_local):
    """a reference to an element of the returned vector (iterator item of iter_mut over it, or index_mut into it)"""
    from sa.prov import subterms
    for s in subterms(t):
        if s[0] in ("phi", "local") and s[1] == ret_local:
            return True
    return False


def hqr2_shift_block(ck, prog):
    """The exceptional shift (iterations 10 and 20) subtracts x from the diagonal of the ACTIVE block 0..=nn and adds it to
    the accumulated shift t that is later added back to every eigenvalue found in that block: the loop over the diagonal runs
    to nn + 1 exactly - not to nn (last entry unshifted) and not to n (already deflated entries shifted)."""
    from sa.prov import Resolver, render, alts
    rule, inst = "E2-provenance", "hqr2: the exceptional shift is applied to the diagonal entries 0..=nn"
    b = prog.bodies.get("linalg::evd::hqr2")
    if b is None:
        ck.violation(rule, inst, "linalg::evd::hqr2", "", expected="anchor exists", found="anchor vanished")
        return
    res = Resolver(b)
    n = 0
    for bb, t in b.calls():
        f = t.get("f")
        if not (f and f["path"].endswith("::sub_element_mut") and len(t["args"]) == 4):
            continue
        r, c = res.operand(t["args"][1]), res.operand(t["args"][2])
        if r != c or not (r[0] == "field" and r[2] == "0" and r[1][0] == "variant"):
            continue
        nx = r[1][1]
        if not (nx[0] == "call" and nx[1].endswith("Iterator::next") and nx[2]):
            continue
        for a in alts(nx[2][0]):
            if a[0] == "agg" and a[1].endswith("Range::Range"):
                n += 1
                lo, hi = a[2]
                h = hi[1] if hi[0] == "field" and hi[2] == "0" else hi
                ok = lo == ("int", 0) and h[0] == "bin" and h[1] in ("Add", "AddWithOverflow") and h[3] == ("int", 1) and h[2][0] in ("phi", "local")
                incl = a[1].endswith("RangeInclusive")
                if ok:
                    ck.ok(rule, inst, b.path, b.where(bb), f"diagonal loop over 0..{render(hi)[:40]}")
                else:
                    ck.violation(rule, inst, b.path, b.where(bb), ordinal=n, expected="for i in 0..nn + 1 (the active block, its last entry included)",
                                 found=f"the diagonal loop runs over {render(lo)}..{render(hi)[:50]}")
            if a[0] == "call" and a[1].endswith("RangeInclusive::<Idx>::new") and len(a[2]) == 2:
                n += 1
                lo, hi = a[2]
                if lo == ("int", 0) and hi[0] in ("phi", "local"):
                    ck.ok(rule, inst, b.path, b.where(bb), f"diagonal loop over 0..={render(hi)[:40]}")
                else:
                    ck.violation(rule, inst, b.path, b.where(bb), ordinal=n, expected="for i in 0..=nn", found=f"{render(lo)}..={render(hi)[:50]}")
    if n == 0:
        ck.note(f"{inst}: no loop subtracting from the diagonal (A[i][i] -= x) in hqr2: no instance")


def run(ck, prog):
    _run_pre_evdshape(ck, prog)
    balance_accumulates(ck, prog)
    hqr2_shift_block(ck, prog)


EXPLANATION += (' balance(): every update of a scale entry is multiplicative (scale[i] accumulates the factors of all sweeps); hqr2: the exceptional shift is subtracted from the diagonal entries 0..=nn of the active block (E2-provenance; three independent seeds each).')



# ------------------------------------------------------------------ generic: no magnitude is compared with a signed raw element
_run_pre_magnitude = run


def run(ck, prog):
    _run_pre_magnitude(ck, prog)
    from sa import magnitude
    magnitude.run_rule(ck, prog, set(DIMENSION_FILES))


# ------------------------------------------------------------------ generic: backward strided scans (`j -= step`) continue exactly while j >= step
_run_pre_subguard = run


def run(ck, prog):
    _run_pre_subguard(ck, prog)
    from sa import subguard
    subguard.run_rule(ck, prog, set(DIMENSION_FILES))


# ------------------------------------------------------------------ tred2: the skip branch loads the NEXT row, not the row it clears
_run_pre_tred2skip = run


def tred2_skip_branch(ck, prog):
    """When the sub-row of row i is exactly zero (scale == 0) the Householder step is skipped: the work vector is reloaded
    from the next row to be processed (i - 1) while row / column i of V are cleared.  Reading the very cell that the same
    branch sets to zero reloads the all-zero row that was just skipped, so the remaining couplings are lost.  Rule: in the
    region selected by the zero edge of the `scale == 0` test, no cell (r, c) of V is both read and set to zero."""
    from sa.e1 import BodyCtx
    from sa.guards import ATOMS, NEG
    rule, inst = "E2-provenance", "tred2: the skip branch (scale == 0) reloads from a row it does not clear"
    b = prog.bodies.get("linalg::evd::tred2")
    if b is None:
        ck.violation(rule, inst, "linalg::evd::tred2", "", expected="anchor exists", found="anchor vanished")
        return
    cx = BodyCtx.of(b)
    res = cx.res
    is_zero = lambda t: t[0] == "call" and t[1].endswith("::zero") and not t[2]
    n = 0
    for c in cx.cmps:
        if c.rel not in ("==", "!=") or not (is_zero(c.rhs) or is_zero(c.lhs)):
            continue
        subj = c.lhs if is_zero(c.rhs) else c.rhs
        if not any(s[0] == "call" and s[1].endswith("::abs") for s in subterms(subj)):
            continue                                             # the scale: a sum of magnitudes
        zdst, other = (c.true_bb, c.false_bb) if "z" in ATOMS[c.rel] else (c.false_bb, c.true_bb)
        region = {x for x in b.reach if b.dominates(zdst, x) and not b.dominates(other, x)}
        reads, clears = [], []
        for bb, t in b.calls():
            if bb not in region:
                continue
            f = t.get("f")
            if not f:
                continue
            nm = f["path"].split("::")[-1]
            if nm == "get" and len(t["args"]) == 3:
                reads.append((bb, res.operand(t["args"][1]), res.operand(t["args"][2])))
            elif nm == "set" and len(t["args"]) == 4 and is_zero(res.operand(t["args"][3])):
                clears.append((bb, res.operand(t["args"][1]), res.operand(t["args"][2])))
        if not reads or not clears:
            continue
        n += 1
        both = [(rb, r, cc) for rb, r, cc in reads for _, r2, c2 in clears if r == r2 and cc == c2]
        if both:
            ck.violation(rule, inst, b.path, b.where(both[0][0]), expected="the work vector is reloaded from row i - 1; row i is the one being cleared",
                         found=f"the cell ({render(both[0][1])[:40]}, {render(both[0][2])[:40]}) is read and set to zero in the same branch")
        else:
            ck.ok(rule, inst, b.path, c.where, f"{len(reads)} read(s), {len(clears)} clear(s) in the skip branch, no cell is both")
    if n == 0:
        ck.note(f"{inst}: no zero-scale branch that both reads and clears cells of V recognised: no instance")


def run(ck, prog):
    _run_pre_tred2skip(ck, prog)
    tred2_skip_branch(ck, prog)


EXPLANATION += (" tred2: in the branch taken when the sub-row is exactly zero, no cell of V is both read and cleared (the work vector "
                "comes from row i - 1, row i is the one cleared).")


# ------------------------------------------------------------------ tql2: the shift is subtracted from ALL remaining diagonal entries
_run_pre_tql2shift = run


def tql2_shift_range(ck, prog):
    """Each implicit QL step shifts the origin by h: h is subtracted from every diagonal entry still to be processed
    (l + 2 .. n) and accumulated in f, which is added back to every eigenvalue found later (d[l] += f).  The subtraction loop
    is bounded by the dimension itself - not by the end m of the active unreduced block, or the eigenvalues of later blocks
    come out shifted by f.  Rule: the loop that performs `d[i] -= h` runs up to n (= shape(V).0 / len(d))."""
    from sa.prov import Resolver, alts
    from sa.match import dim_of
    rule, inst = "E2-provenance", "tql2: the shift h is subtracted from every remaining diagonal entry (up to n)"
    b = prog.bodies.get("linalg::evd::tql2")
    if b is None:
        ck.violation(rule, inst, "linalg::evd::tql2", "", expected="anchor exists", found="anchor vanished")
        return
    res = Resolver(b)

    def is_dim(t):
        if t[0] == "field" and t[2] == "0" and t[1][0] == "bin":        # (x WithOverflow).0
            return False
        return bool(dim_of(t))
    n = 0
    for bb, t in b.calls():
        f = t.get("f")
        if not (f and f["path"].endswith("SubAssign::sub_assign") and len(t["args"]) == 2):
            continue
        tgt = res.operand(t["args"][0])
        # only updates of entries of the slice d (parameter 2)
        if not any(s[0] == "arg" and s[1] == 2 for s in subterms(tgt)):
            continue
        bounds = []
        for s in subterms(tgt):
            if s[0] == "call" and s[1].endswith("Iterator::take") and len(s[2]) == 2:
                bounds.append(s[2][1])
            if s[0] == "agg" and s[1].endswith("Range::Range") and len(s[2]) == 2:
                bounds.append(s[2][1])
        if not bounds and not any(s[0] == "call" and s[1].endswith(("iter_mut", "Iterator::next")) for s in subterms(tgt)):
            continue                                               # a single entry (d[l + 1] -= ..), not a loop over d
        n += 1
        bad = [x for x in bounds if not all(is_dim(a) for a in alts(x))]
        if bad:
            ck.violation(rule, inst, b.path, b.where(bb), ordinal=n, expected="for i in l + 2..n { d[i] -= h } with n the dimension",
                         found=f"the loop is bounded by `{render(bad[0])[:60]}`")
        else:
            ck.ok(rule, inst, b.path, b.where(bb), f"bounded by {[render(x)[:30] for x in bounds] or 'the end of d'}")
    if n == 0:
        ck.note(f"{inst}: no loop of the form d[i] -= h over the diagonal in tql2: no instance")


def run(ck, prog):
    _run_pre_tql2shift(ck, prog)
    tql2_shift_range(ck, prog)


EXPLANATION += " tql2: the loop subtracting the shift h from the diagonal runs up to the dimension n (not to the end m of the active block)."


# ------------------------------------------------------------------ generic: a configuration field read on one successful path is read on every successful path
_run_pre_config = run


def run(ck, prog):
    _run_pre_config(ck, prog)
    from sa import config
    config.run_rule(ck, prog, set(DIMENSION_FILES))


# ------------------------------------------------------------------ generic: the value tested against a bound is the value set to the bound (clamps)
_run_pre_clamp = run


def run(ck, prog):
    _run_pre_clamp(ck, prog)
    from sa import clamp
    clamp.run_rule(ck, prog, set(DIMENSION_FILES))


# ------------------------------------------------------------------ generic: an index variable of one range addresses one buffer with one stride
_run_pre_stride = run


def run(ck, prog):
    _run_pre_stride(ck, prog)
    from sa import stride
    stride.run_rule(ck, prog, set(DIMENSION_FILES))
