"""C04 neighbour search: argument contracts, radius boundary, pruning dependency."""
import re
from sa import e1, guards
from sa.e1 import G, NE, EQ, BodyCtx
from sa.match import Dim, Base, Arg, Field, Int, Zero, contains
from sa.mir import AnchorError
from sa.prov import render, subterms, Resolver

LEVEL = "other"
EXPLANATION = (
    "(a) E1 argument contracts: both search structures refuse k = 0 and k > n and r <= 0 with an Err and let every "
    "1 <= k <= n and r > 0 through; the k-NN classifier refuses k = 0 and accepts k >= 2, the regressor refuses k = 0 "
    "and accepts k >= 1. (b) radius boundary: in both find_radius the comparison of the distance with the radius "
    "admits a point exactly when d <= r (the equality case is on the admitted side, the d > r edge reaches no push). "
    "(c) E2g: the cover tree's pruning comparison depends on the child's covering radius and on the current bound "
    "and never prunes when d is below bound + covering radius."
)
TECHNIQUE = "static analysis of rustc MIR: guard/post-dominance rules, gate reachability, dependence of the pruning bound"

LS = r"^algorithm::neighbour::linear_search::LinearKNNSearch::<T, F, D>::"
CT = r"^algorithm::neighbour::cover_tree::CoverTree::<T, F, D>::"
SPECS = [
    G("LinearKNNSearch::find: k=0->Err, k>=1 accepted", LS + "find$", Arg(3), Int(), [0], [("ge", 1)], "Err", int_domain=guards.USIZE),
    G("LinearKNNSearch::find: k>n->Err", LS + "find$", Arg(3), Dim("len", Base(1, "data")), "p", "nz", "Err"),
    G("CoverTree::find: k=0->Err, k>=1 accepted", CT + "find$", Arg(3), Int(), [0], [("ge", 1)], "Err", int_domain=guards.USIZE),
    G("CoverTree::find: k>n->Err", CT + "find$", Arg(3), Dim("len", Base(1, "data")), "p", "nz", "Err"),
    G("LinearKNNSearch::find_radius: r<=0->Err", LS + "find_radius$", Arg(3), Zero(), "nz", "p", "Err"),
    G("CoverTree::find_radius: r<=0->Err", CT + "find_radius$", Arg(3), Zero(), "nz", "p", "Err"),
    G("KNNClassifier::fit: k=0->Err, k>=2 accepted", r"^neighbors::knn_classifier::KNNClassifier::<T, D>::fit$",
      Field(3, "k"), Int(), [0], [("ge", 2)], "Err", int_domain=guards.USIZE),
    G("KNNRegressor::fit: k=0->Err, k>=1 accepted", r"^neighbors::knn_regressor::KNNRegressor::<T, D>::fit$",
      Field(3, "k"), Int(), [0], [("ge", 1)], "Err", int_domain=guards.USIZE),
]

IS_DIST = lambda t: t[0] == "call" and t[1].endswith("Distance::distance")
IS_PUSH = lambda f: f["path"].endswith("Vec::<T, A>::push")


def radius_gate(ck, prog, fn, label):
    """every comparison `distance ? radius` (bound exactly the radius argument) admits a
    point (reaches a push within the iteration) exactly on d <= r"""
    rule = "E1-gate"
    try:
        b = prog.one(fn)
    except AnchorError as e:
        ck.violation(rule, label, fn, "", expected="anchor exists", found=f"anchor vanished: {e}")
        return
    cx = BodyCtx.of(b)
    pushes = guards.call_blocks(b, IS_PUSH)
    n = 0
    for c in cx.cmps:
        for (L, R, lhs_subj) in ((c.lhs, c.rhs, True), (c.rhs, c.lhs, False)):
            if contains(L, IS_DIST) and R[0] == "arg" and R[1] == 3:
                n += 1
                acc = guards.gate_atoms(b, c, pushes, lhs_subj)
                if acc == frozenset("nz"):
                    ck.ok(rule, label, b.path, c.where, f"`{render(L)[:60]} ? radius`: a point is admitted iff d <= r")
                else:
                    ck.violation(rule, label, b.path, c.where,
                                 expected="a point is admitted (push reachable in the iteration) exactly when d < r or d == r",
                                 found=f"admitted under atoms {sorted(acc)} of sign(d - r) (n: d<r, z: d==r, p: d>r)")
    if n == 0:
        # iterator form: .map(|..| (.., distance(from, p), ..)).filter(|(_, d, _)| d <= radius).collect()
        from sa.prov import subst_upvars
        for bb, t in b.calls():
            f = t.get("f")
            if f and f["path"].endswith("Iterator::filter_map") and len(t["args"]) == 2:
                # .filter_map(|(i, p)| { let d = distance(from, p); if d <= radius { Some(..) } else { None } })
                clo = cx.res.operand(t["args"][1])
                cb = prog.get(clo[1][len("closure:"):]) if clo[0] == "agg" and clo[1].startswith("closure:") else None
                if cb is None:
                    continue
                ccx = BodyCtx.of(cb)
                for c in ccx.cmps:
                    for (L, R, rel) in ((c.lhs, c.rhs, c.rel), (c.rhs, c.lhs, guards.FLIP[c.rel])):
                        Rs = subst_upvars(prog, cb, R)
                        if contains(L, IS_DIST) and Rs[0] == "arg" and Rs[1] == 3:
                            n += 1
                            acc = set()
                            for er, dst in ((rel, c.true_bb), (guards.NEG[rel], c.false_bb)):
                                outs = guards.edge_outcomes(cb, c.bb, dst, ccx.res)
                                if outs - {"None", "panic"}:
                                    acc |= guards.ATOMS[er]
                            if frozenset(acc) == frozenset("nz"):
                                ck.ok(rule, label, b.path, c.where, "filter_map yields Some iff d <= radius")
                            else:
                                ck.violation(rule, label, b.path, c.where, expected="Some(..) exactly when d < r or d == r",
                                             found=f"the closure yields an item under atoms {sorted(acc)} of sign(d - r)")
                continue
            if not (f and f["path"].endswith("Iterator::filter") and len(t["args"]) == 2):
                continue
            recv, clo = cx.res.operand(t["args"][0]), cx.res.operand(t["args"][1])
            if not (clo[0] == "agg" and clo[1].startswith("closure:")):
                continue
            cb = prog.get(clo[1][len("closure:"):])
            if cb is None:
                continue
            cond = guards._cond(None, Resolver(cb).local(0))
            if not cond:
                continue
            L, rel, R = (subst_upvars(prog, cb, cond[0]), cond[1], subst_upvars(prog, cb, cond[2]))
            is_radius = lambda x: x[0] == "arg" and x[1] == 3 and x[2:] and x[2] == b.local_name(3) or (x[0] == "arg" and x[1] == 3 and b.local_name(3) in ("radius", "r", "eps"))
            if is_radius(R):
                drel = rel
            elif is_radius(L):
                drel = guards.FLIP[rel]
            else:
                continue
            # the compared component comes from a distance computed upstream (a map closure calling Distance::distance)
            up = [s for s in subterms(recv) if s[0] == "agg" and s[1].startswith("closure:")]
            dist_up = any(any(ct.get("f") and ct["f"]["path"].endswith("Distance::distance") for _, ct in prog.get(u[1][len("closure:"):]).calls())
                          for u in up if prog.get(u[1][len("closure:"):]) is not None)
            if not dist_up:
                continue
            n += 1
            if guards.ATOMS[drel] == frozenset("nz"):
                ck.ok(rule, label, b.path, b.where(bb), "filter keeps an item iff d <= radius (iterator form)")
            else:
                ck.violation(rule, label, b.path, b.where(bb), expected="the filter keeps a point exactly when d < r or d == r",
                             found=f"the filter keeps items with d {drel} radius")
    if n == 0:
        ck.violation(rule, label, b.path, f"{b.loc[0]}:{b.loc[1]}", expected="a comparison of the distance with the radius argument",
                     found="none found")


def pruning(ck, prog, fn, label, bound_pred, need):
    """E2g: the comparison that gates descending has a bound that depends on the child's
    covering radius (field max_dist) and on the current bound; it never prunes below it"""
    rule = "E2g-pruning"
    try:
        b = prog.one(fn)
    except AnchorError as e:
        ck.violation(rule, label, fn, "", expected="anchor exists", found=f"anchor vanished: {e}")
        return
    cx = BodyCtx.of(b)
    pushes = guards.call_blocks(b, IS_PUSH)
    is_md = lambda t: t[0] == "field" and t[2] == "max_dist"
    found = 0
    for c in cx.cmps:
        for (L, R, lhs_subj) in ((c.lhs, c.rhs, True), (c.rhs, c.lhs, False)):
            if contains(L, IS_DIST) and contains(R, is_md):
                found += 1
                acc = guards.gate_atoms(b, c, pushes, lhs_subj)
                dep_ok = contains(R, bound_pred)
                # the covering radius must be *added* to the bound
                add_ok = R[0] == "call" and R[1] == "std::ops::Add::add"
                if need <= acc and "p" not in acc and dep_ok and add_ok:
                    ck.ok(rule, label, b.path, c.where, f"descends iff d {'<=' if 'z' in acc else '<'} {render(R)[:80]}")
                else:
                    ck.violation(rule, label, b.path, c.where,
                                 expected=f"descend/keep under atoms >= {sorted(need)} and not when d > bound; bound = current bound + child.max_dist",
                                 found=f"atoms {sorted(acc)}, depends_on_current_bound={dep_ok}, is_sum={add_ok}, bound=`{render(R)[:100]}`")
    if not found:
        ck.violation(rule, label, b.path, f"{b.loc[0]}:{b.loc[1]}",
                     expected="a pruning comparison whose bound depends on the child's covering radius (max_dist)",
                     found="no comparison of the distance against a bound involving max_dist: subtrees are pruned without regard to their radius")


def run(ck, prog):
    e1.run(ck, prog, SPECS)
    ck.floor("E1-guard", 8)
    radius_gate(ck, prog, LS + "find_radius$", "LinearKNNSearch::find_radius admits d<=r")
    radius_gate(ck, prog, CT + "find_radius$", "CoverTree::find_radius admits d<=r")
    ck.floor("E1-gate", 2)
    pruning(ck, prog, CT + "find_radius$", "CoverTree::find_radius prunes by radius + max_dist",
            lambda t: t[0] == "arg" and t[1] == 3, frozenset("nz"))
    pruning(ck, prog, CT + "find$", "CoverTree::find prunes by kth-distance + max_dist",
            lambda t: t[0] == "call" and t[1].endswith("HeapSelection::<T>::peek"), frozenset("nz"))
    # d == bound + max_dist must descend too: the bound is the k-th best distance seen so far, which a self-child of a
    # duplicate group (max_dist == 0) equals exactly - with a strict test the group that set the bound is pruned and fewer
    # than k neighbours come back (seeded change C04-r7-1)
    ck.floor("E2g-pruning", 2)


def sentinel_rule(ck, prog):
    from sa import sentinel
    rule = "E2i-sentinel"
    sent, may, inst = sentinel.analyse(prog, r"^algorithm::neighbour::cover_tree::CoverTree::<T, F, D>::")
    ck.extra["sentinel"] = dict(functions=sent, parameters={f"{k[0]}#{k[1]}": v for k, v in may.items()})
    if not sent:
        # no sentinel-returning function any more: nothing to protect
        ck.ok(rule, "no integer sentinel is returned in cover_tree", "algorithm::neighbour::cover_tree", "", "no extreme constant returned")
        return
    for s in inst:
        i = f"checked arithmetic on a possibly-sentinel parameter is guarded ({s['name']})"
        if s["protected"]:
            ck.ok(rule, i, s["fn"], s["where"], f"{s['op']} on `{s['name']}` dominated by a test against the sentinel")
        else:
            ck.violation(rule, i, s["fn"], s["where"],
                         expected="overflow-checked arithmetic on a value that may be the sentinel is dominated by an equality test against the sentinel",
                         found=f"{s['op']} on parameter `{s['name']}`, which may be the sentinel ({s['sentinel']}): {s['origin']}; "
                               f"with all points identical construction panics on overflow (debug) - 'all points identical' is in the quantifier")
    if not inst:
        ck.ok(rule, "sentinel parameters are not used in checked arithmetic", "algorithm::neighbour::cover_tree", "",
              f"{len(may)} parameters may carry the sentinel; none feeds overflow-checked arithmetic")


_run1 = run


def run(ck, prog):
    _run1(ck, prog)
    sentinel_rule(ck, prog)
    ck.floor("E2i-sentinel", 1)
    from props.C09 import decode_rule, classes_from_unique
    decode_rule(ck, prog, r"^neighbors::knn_classifier::KNNClassifier::<T, D>::predict$", "KNNClassifier::predict stores classes[..]", 1)
    ck.floor("E2a-label-decode", 1)


def radius_provenance(ck, prog):
    """E2g: the covering radius stored in a node is zero (leaf) or derived from the actual distances of the points
    below it - pruning by `bound + max_dist` is only sound if max_dist bounds those distances"""
    rule, inst = "E2g-radius", "Node.max_dist is derived from the distances of the covered points"
    bodies = prog.find(r"^algorithm::neighbour::cover_tree::CoverTree::<T, F, D>::(batch_insert|new_leaf|build_cover_tree|new)$")
    n = 0
    for b in sorted(bodies, key=lambda b: b.path):
        res = Resolver(b)
        for i, j, s in b.stmts():
            r = s["r"] if s["k"] == "assign" else None
            if r and r["k"] == "agg" and r["ak"] == "adt" and r["name"].endswith("cover_tree::Node") and "max_dist" in r["fields"] and not s.get("x"):
                n += 1
                v = res.operand(r["ops"][r["fields"].index("max_dist")])
                from sa.match import Zero
                dist_dep = any((s2[0] == "call" and s2[1].endswith(("CoverTree::<T, F, D>::max", "Distance::distance")))
                               or (s2[0] == "field" and s2[2] in ("dist",)) for s2 in subterms(v))
                if Zero()(v) or dist_dep:
                    ck.ok(rule, inst, b.path, b.where(i, j), f"max_dist = {render(v)[:60]}")
                else:
                    ck.violation(rule, inst, b.path, b.where(i, j), ordinal=n,
                                 expected="max_dist = 0 for a leaf, otherwise computed from the distances of the points in the subtree",
                                 found=f"max_dist = `{render(v)[:100]}` does not depend on any measured distance")
    if n < 3:
        ck.violation(rule, inst, "cover_tree", "", expected=">= 3 Node constructions", found=f"{n}")


_run2 = run


def run(ck, prog):
    _run2(ck, prog)
    radius_provenance(ck, prog)
    ck.floor("E2g-radius", 3)


def inverse_weights_guarded(ck, prog):
    """inverse-distance weights 1/d are only formed when NO neighbour has distance zero, and that test ranges over
    the whole neighbour list (the cover tree returns neighbours unsorted: testing only the first is not enough)"""
    rule, inst = "E2-guarded-division", "calc_weights: 1/d only under `no distance is zero` tested over all neighbours"
    b = prog.bodies.get("neighbors::KNNWeightFunction::calc_weights")
    if not b:
        ck.violation(rule, inst, "calc_weights", "", expected="anchor exists", found="anchor vanished")
        return
    res = Resolver(b)
    from sa.match import Zero
    zero = Zero()

    def clo_ret(o):
        t = res.operand(o)
        if t[0] == "agg" and t[1].startswith("closure:"):
            cb = prog.get(t[1][len("closure:"):])
            return Resolver(cb).local(0) if cb else None
        return None
    # division sites: closures mapping an element d to 1/d (or x/d)
    divs = []
    for bb, t in b.calls():
        f = t.get("f")
        if f and f["path"].endswith(("Iterator::map", "Iterator::for_each")) and len(t["args"]) == 2:
            r = clo_ret(t["args"][1])
            if r is not None and any(s[0] == "call" and s[1] == "std::ops::Div::div" and any(x[0] == "arg" for x in subterms(s[2][1])) for s in subterms(r)):
                if not any(s[0] == "phi" for s in [r]):  # the element-wise `if d == 0 {1} else {0}` map has no division
                    divs.append(bb)
    gates = []
    for (sb, term, tb, fb) in guards.bool_switches(b, res):
        if term[0] == "call" and term[1].endswith(("Iterator::any", "Iterator::all")) and len(term[2]) == 2:
            src = term[2][0]
            if src[0] == "phi":
                base = [a for a in src[2] if not (a[0] == "call" and a[1].startswith("mut:"))]
                src = base[0] if len(base) == 1 else src
            whole = src[0] == "call" and src[1].endswith(("::iter", "::into_iter")) and len(src[2]) == 1 and \
                (src[2][0][0] == "arg" or (src[2][0][0] == "phi" and any(a[0] == "arg" for a in src[2][0][2])))
            clo = term[2][1]
            cb = prog.get(clo[1][len("closure:"):]) if clo[0] == "agg" and clo[1].startswith("closure:") else None
            c = guards._cond(None, Resolver(cb).local(0)) if cb else None
            if c:
                from sa.prov import subst_upvars
                c = (subst_upvars(prog, cb, c[0]), c[1], subst_upvars(prog, cb, c[2]))
            if c and whole and ((zero(c[0]) or zero(c[2])) and c[1] in ("==", "!=")):
                # edge on which "no element is zero" holds
                is_any = term[1].endswith("Iterator::any")
                safe = fb if (is_any and c[1] == "==") or (not is_any and c[1] == "!=") is False else tb
                if is_any and c[1] == "==":
                    safe = fb
                elif (not is_any) and c[1] == "!=":
                    safe = tb
                else:
                    continue
                gates.append((safe, tb if safe == fb else fb, b.where(sb)))
    if not divs:
        # the inverse-distance weights computed in a loop (or some other form) instead of a `map(|d| 1 / d)`: the rule identifies
        # the map form positively; a division by an element in the body itself is examined by the guarded-division primitive
        from sa import divguard
        sites = divguard.check(b, lambda t_: t_[0] == "idx" or (t_[0] == "variant" and t_[2] == "Some") or (t_[0] == "field" and t_[1][0] == "variant"))
        if not sites:
            ck.note(f"{inst}: no inverse-distance map and no division by an element in calc_weights: not decided for this form")
        elif all(g for _, _, g in sites):
            ck.ok(rule, inst, b.path, sites[0][0], "loop form: every division by an element sits behind a non-zero test of it")
        else:
            ck.note(f"{inst}: inverse distances are formed in a loop whose zero test is not of the recognised per-element form: not decided for this form")
        return
    for db in divs:
        if any(b.dominates(s, db) and not b.dominates(o, db) for (s, o, _) in gates):
            ck.ok(rule, inst, b.path, b.where(db), f"gated by {[g[2] for g in gates]}")
        else:
            ck.violation(rule, inst, b.path, b.where(db), expected="dominated by the `no element of the whole distance list is zero` edge",
                         found=f"the division is not protected by a zero test over all distances (gates found: {[g[2] for g in gates]})")


_run3 = run


def run(ck, prog):
    _run3(ck, prog)
    inverse_weights_guarded(ck, prog)
    # no floor: the inverse-distance map is identified positively (other forms leave a note)


def cover_radius_boundary(ck, prog):
    """split / dist_split keep a point whose distance EQUALS the cover radius in the near set (a `<` would send it to
    the far set, which build_cover_tree drops at the top level: the point would be lost to every query)"""
    rule = "E1-gate"
    for fn in ("split", "dist_split", "batch_insert"):
        inst = f"CoverTree::{fn} keeps points with d == cover radius in the near set"
        b = prog.bodies.get(f"algorithm::neighbour::cover_tree::CoverTree::<T, F, D>::{fn}")
        if not b:
            ck.violation(rule, inst, fn, "", expected="anchor exists", found="anchor vanished")
            continue
        cx = BodyCtx.of(b)
        is_radius = lambda t: t[0] == "call" and t[1].endswith("::get_cover_radius")
        pushes = [(bb, cx.res.operand(t["args"][0])) for bb, t in b.calls() if t.get("f") and IS_PUSH(t["f"])]
        found = 0
        for c in cx.cmps:
            for (L, R, lhs_subj) in ((c.lhs, c.rhs, True), (c.rhs, c.lhs, False)):
                if is_radius(R) and not is_radius(L):
                    found += 1
                    rel = c.rel if lhs_subj else guards.FLIP[c.rel]
                    # which pushes are reached on the d <= r side: exactly one destination vector per side
                    near_edge = [(dst) for er, dst in ((rel, c.true_bb), (guards.NEG[rel], c.false_bb)) if "z" in guards.ATOMS[er]]
                    far_edge = [(dst) for er, dst in ((rel, c.true_bb), (guards.NEG[rel], c.false_bb)) if "z" not in guards.ATOMS[er]]
                    cls = {frozenset(guards.ATOMS[er]) for er in (rel, guards.NEG[rel])}
                    if frozenset("nz") in cls and frozenset("p") in cls:
                        ck.ok(rule, inst, b.path, c.where, f"`d {rel} cover radius`: near set iff d <= radius")
                    else:
                        ck.violation(rule, inst, b.path, c.where, expected="near set iff d < radius or d == radius",
                                     found=f"partition classes {sorted(sorted(x) for x in cls)} of sign(d - radius)")
        if found == 0:
            # `drain(..).partition(|n| d(n) <= fmax)`: the comparison is the closure's return value; true = first (near) part
            from sa.prov import subst_upvars
            for bb, t in b.calls():
                f = t.get("f")
                if not (f and f["path"].endswith(("Iterator::partition", "Iterator::filter")) and len(t["args"]) == 2):
                    continue
                ct = cx.res.operand(t["args"][1])
                if not (ct[0] == "agg" and ct[1].startswith("closure:")):
                    continue
                cb = prog.get(ct[1][len("closure:"):])
                if cb is None:
                    continue
                cr = Resolver(cb)
                cnd = guards._cond(cr, cr.local(0))
                if not cnd:
                    continue
                L, rel, R = subst_upvars(prog, cb, cnd[0]), cnd[1], subst_upvars(prog, cb, cnd[2])
                if is_radius(L) and not is_radius(R):
                    L, R, rel = R, L, guards.FLIP[rel]
                if is_radius(R) and not is_radius(L):
                    found += 1
                    if guards.ATOMS[rel] == frozenset("nz"):
                        ck.ok(rule, inst, cb.path, b.where(bb), f"partition predicate `d {rel} cover radius`: near part iff d <= radius")
                    else:
                        ck.violation(rule, inst, cb.path, b.where(bb), expected="near set iff d < radius or d == radius",
                                     found=f"partition predicate asserts sign(d - radius) in {sorted(guards.ATOMS[rel])} for the near part")
        if fn == "batch_insert":
            if found == 0:
                ck.note(f"{inst}: no comparison of a distance with the cover radius in batch_insert (points taken back differently): no instance")
            continue
        if found != 1:
            ck.violation(rule, inst, b.path, f"{b.loc[0]}:{b.loc[1]}", expected="one comparison of a distance with the cover radius", found=f"{found}")


def leaf_index_provenance(ck, prog):
    """a leaf created for a point taken out of the point set carries THAT point's index ('each entry carrying the
    true index'): new_leaf(x) inside a loop that removes `set` from point_set has x = set.idx"""
    rule, inst = "E2-provenance", "batch_insert: leaves for duplicated points carry their own index"
    b = prog.bodies.get("algorithm::neighbour::cover_tree::CoverTree::<T, F, D>::batch_insert")
    if not b:
        ck.violation(rule, inst, "batch_insert", "", expected="anchor exists", found="anchor vanished")
        return
    res = Resolver(b)
    be = guards.back_edges(b)
    removes = [bb for bb, t in b.calls() if t.get("f") and t["f"]["path"].endswith(("Vec::<T, A>::remove", "Vec::<T, A>::pop", "Vec::<T, A>::swap_remove"))]
    n = 0
    for bb, t in b.calls():
        f = t.get("f")
        if not (f and f["path"].endswith("::new_leaf")):
            continue
        arg = res.operand(t["args"][-1])
        # is this call inside a loop iteration that removes an element (dominated by the removal within the iteration)?
        doms = [rb for rb in removes if b.dominates(rb, bb) and any(b.dominates(h, rb) for (u, h) in be)]
        if not doms:
            continue
        n += 1
        own = arg[0] == "field" and arg[2] == "idx" and any(s[0] == "call" and s[1].endswith(("::remove", "::pop", "::swap_remove")) for s in subterms(arg))
        if own:
            ck.ok(rule, inst, b.path, b.where(bb), f"new_leaf({render(arg)[:60]})")
        else:
            ck.violation(rule, inst, b.path, b.where(bb), ordinal=n, expected="new_leaf(<removed element>.idx)",
                         found=f"new_leaf(`{render(arg)[:80]}`): the duplicate is registered under another point's index")
    if n < 1:
        ck.violation(rule, inst, b.path, f"{b.loc[0]}:{b.loc[1]}", expected="a leaf per drained duplicate", found="no such site recognised")


def sort_before_truncation(ck, prog):
    """find: candidates are ordered before they are cut down to k (cutting first lets a tied far point displace a nearer one)"""
    rule, inst = "E2-order", "CoverTree::find sorts the candidates before truncating to k"
    b = prog.bodies.get("algorithm::neighbour::cover_tree::CoverTree::<T, F, D>::find")
    if not b:
        ck.violation(rule, inst, "find", "", expected="anchor exists", found="anchor vanished")
        return
    res = Resolver(b)
    be = guards.back_edges(b)
    sorts = [bb for bb, t in b.calls() if t.get("f") and re.search(r"::sort(_unstable)?(_by(_key)?)?$", t["f"]["path"])]
    cuts = [bb for bb, t in b.calls() if t.get("f") and t["f"]["path"].endswith(("Iterator::take", "Vec::<T, A>::truncate"))
            and any(a[0] == "arg" and a[1] == 3 for a in [res.operand(x) for x in t["args"][1:]])]
    if not cuts:
        ck.violation(rule, inst, b.path, f"{b.loc[0]}:{b.loc[1]}", expected="a truncation to k", found="none recognised")
        return
    bad = [cb for cb in cuts for sb_ in sorts if sb_ in b.reachable_from([cb], cut_edges=be) and sb_ != cb]
    # the key of the ordering is the distance (the floating-point component), not the index
    for c in prog.closures_of.get(b.path, []):
        for cbb, ct in c.calls():
            cf = ct.get("f")
            if cf and cf["path"].split("::")[-1] in ("partial_cmp", "cmp", "total_cmp") and (cf.get("self_ty") or "") in ("usize", "u32", "u64", "i64", "i32"):
                passed = any(a[0] == "agg" and a[1] == "closure:" + c.path for bb2, t2 in b.calls() if bb2 in sorts for a in [res.operand(x) for x in t2["args"]])
                if passed:
                    ck.violation(rule, inst, c.path, c.where(cbb), ordinal="key", expected="candidates ordered by distance before the cut to k",
                                 found=f"the sort compares a `{cf.get('self_ty')}` component (the point index): with a tie at the k-th distance a strictly nearer point with a higher index is cut off")
    if bad:
        ck.violation(rule, inst, b.path, b.where(bad[0]), expected="no sort after the truncation", found="the candidate list is cut to k before it is sorted")
    else:
        ck.ok(rule, inst, b.path, b.where(cuts[0]), f"{len(sorts)} sort site(s), none after the truncation")


_run4 = run


def run(ck, prog):
    _run4(ck, prog)
    cover_radius_boundary(ck, prog)
    leaf_index_provenance(ck, prog)
    sort_before_truncation(ck, prog)
    ck.floor("E1-gate", 4)
    ck.floor("E2-provenance", 1)
    ck.floor("E2-order", 1)


_run_pre_builders = run


def run(ck, prog):
    _run_pre_builders(ck, prog)
    # every setting of the quantifier is reachable through the public builder chain: setters must not clobber other fields
    from sa.builders import check_builders
    check_builders(ck, prog, r"^neighbors::knn_(classifier|regressor)::KNN(Classifier|Regressor)Parameters$")
    ck.floor("E2-builder", 8)


# ------------------------------------------------------------------ generic: rows/cols (outer/inner) mix-up of locally allocated buffers
_run_pre_dimension = run
DIMENSION_FILES = ['src/algorithm/neighbour/cover_tree.rs', 'src/algorithm/neighbour/linear_search.rs', 'src/algorithm/neighbour/mod.rs', 'src/algorithm/sort/heap_select.rs', 'src/neighbors/knn_classifier.rs', 'src/neighbors/knn_regressor.rs', 'src/neighbors/mod.rs']


def run(ck, prog):
    _run_pre_dimension(ck, prog)
    from sa import dimension
    dimension.run_rule(ck, prog, set(DIMENSION_FILES))


# ------------------------------------------------------------------ a one-point tree still has something to find
_run_pre_root = run


def root_is_examined(ck, prog):
    """'Construction and queries succeed for every such input, including ... a single point.' Both queries enumerate candidates
    only through `children` of the nodes on the cover set (a node's own point is its first child); batch_insert returns a bare
    leaf - no children - when the point set it is given is empty. So build_cover_tree must not hand an empty point set to
    batch_insert without a case distinction on it (data.len() / point_set.is_empty()), or a one-point tree has a root that no
    query ever looks at. Contradiction rule: the leaf/inner distinction made by batch_insert vs the unconditional call."""
    from sa.match import dim_of
    rule, inst = "E2-provenance", "build_cover_tree: the root of a one-point tree has itself as a child"
    CTP = "algorithm::neighbour::cover_tree::CoverTree::<T, F, D>::"
    bi, bc = prog.bodies.get(CTP + "batch_insert"), prog.bodies.get(CTP + "build_cover_tree")
    if bi is None or bc is None:
        ck.violation(rule, inst, CTP + "build_cover_tree", "", expected="anchors exist", found="anchor vanished")
        return
    from sa.prov import alts
    ri = Resolver(bi)
    bare = [a for a in [ri.local(0)] + list(alts(ri.local(0))) if a[0] == "call" and a[1].endswith("::new_leaf")]
    rc = Resolver(bc)
    call = [(bb, t) for bb, t in bc.calls() if t.get("f") and t["f"]["name"] == "batch_insert"]
    if not bare or not call:
        ck.ok(rule, inst, bc.path, f"{bc.loc[0]}:{bc.loc[1]}", "batch_insert never returns a bare leaf / is not called here: nothing to distinguish")
        return
    bb0 = call[0][0]
    gated = False
    for c in BodyCtx.of(bc).cmps:
        for (L, R) in ((c.lhs, c.rhs), (c.rhs, c.lhs)):
            d = dim_of(L)
            if d and d[0] == "len" and R[0] == "int":
                gated = True
    for (sw, term, tb, fb) in guards.bool_switches(bc, rc):
        if term[0] == "call" and term[1].endswith("::is_empty"):
            gated = True
    # queries: do they look at a node other than through children? (a direct zero-set push of the root)
    if gated:
        ck.ok(rule, inst, bc.path, bc.where(bb0), "build_cover_tree distinguishes the empty point set (one data point) before calling batch_insert")
    else:
        ck.violation(rule, inst, bc.path, bc.where(bb0),
                     expected="a case distinction on data.len() / point_set.is_empty() so that a one-point tree gets a root with a self child",
                     found="batch_insert returns a bare leaf (no children) for an empty point set and is called unconditionally: with one data "
                           "point the root has no children, and find / find_radius only ever examine children - the single point is never returned")


def run(ck, prog):
    _run_pre_root(ck, prog)
    root_is_examined(ck, prog)


# ------------------------------------------------------------------ generic: signed counters are not cast to unsigned on their negative side
_run_pre_negcast = run


def run(ck, prog):
    _run_pre_negcast(ck, prog)
    from sa import negcast
    negcast.run_rule(ck, prog, set(DIMENSION_FILES))


# ------------------------------------------------------------------ generic: `while counter < bound` loops advance their counter
_run_pre_progress = run


def run(ck, prog):
    _run_pre_progress(ck, prog)
    from sa import progress
    progress.run_rule(ck, prog, set(DIMENSION_FILES))


EXPLANATION += (' The cover-radius boundary (d == radius stays near) is also checked where batch_insert takes back unconsumed points.')


# ------------------------------------------------------------------ generic: no magnitude is compared with a signed raw element
_run_pre_magnitude = run


def run(ck, prog):
    _run_pre_magnitude(ck, prog)
    from sa import magnitude
    magnitude.run_rule(ck, prog, set(DIMENSION_FILES))


# ------------------------------------------------------------------ generic: backward strided scans (`j -= step`) continue exactly while j >= step
_run_pre_subguard = run


def run(ck, prog):
    _run_pre_subguard(ck, prog)
    from sa import subguard
    subguard.run_rule(ck, prog, set(DIMENSION_FILES))


# ------------------------------------------------------------------ generic: a configuration field read on one successful path is read on every successful path
_run_pre_config = run


def run(ck, prog):
    _run_pre_config(ck, prog)
    from sa import config
    config.run_rule(ck, prog, set(DIMENSION_FILES))


# ------------------------------------------------------------------ batch_insert: sets coming back from a child lose the child's distance level
_run_pre_poplevel = run


def batch_insert_pops_level(ck, prog):
    """dist_split pushes, for every point it hands to a new child, the distance to that child on the point's distance stack;
    the parent's bookkeeping (max_dist = max over consumed_set of the TOP of each stack, the cover-radius test for point_set /
    far) reads the top as the distance to the PARENT.  So every DistanceSet that returns from the child-level sets (the local
    vectors passed to the recursive call) into point_set / far / consumed_set has that level removed first: no bulk
    append / extend from such a local set, and every push of an element taken from one is dominated by a remove / pop on that
    element's stack."""
    from sa.prov import Resolver
    rule, inst = "E2-pairing", "batch_insert: a set returned from the child level is popped before it joins the parent's sets"
    try:
        b = prog.one(CT + "batch_insert$")
    except AnchorError as e:
        ck.violation(rule, inst, "batch_insert", "", expected="anchor exists", found=f"anchor vanished: {e}")
        return
    res = Resolver(b)

    def base_local(o):
        """the Vec local behind a `&mut v` / reborrow operand"""
        if o["k"] not in ("move", "copy"):
            return None
        l, seen = o["p"]["l"], set()
        while l not in seen:
            seen.add(l)
            ds = [d for d in b.defs.get(l, []) if d.kind == "assign"]
            if len(ds) == 1 and ds[0].data["r"]["k"] in ("ref", "rawptr"):
                p = ds[0].data["r"]["p"]
                if any(e != "*" for e in p["pr"]):
                    return None
                l = p["l"]
                if not p["pr"]:
                    return l
            elif len(ds) == 1 and ds[0].data["r"]["k"] == "use" and ds[0].data["r"]["o"]["k"] in ("move", "copy") and not ds[0].data["r"]["o"]["p"]["pr"]:
                l = ds[0].data["r"]["o"]["p"]["l"]
            else:
                break
        return l
    # child-level sets: non-parameter locals handed to the recursive call
    inner = set()
    for bb, t in b.calls():
        f = t.get("f")
        if f and f["path"].endswith("::batch_insert"):
            for a in t["args"]:
                l = base_local(a)
                if l is not None and not b.is_arg(l) and "Vec<" in b.local_ty(l) and "DistanceSet" in b.local_ty(l):
                    inner.add(l)
    if not inner:
        ck.note(f"{inst}: no local set is handed to a recursive call: no instance")
        return
    names = sorted(b.local_name(l) or f"_{l}" for l in inner)
    n = 0
    for bb, t in b.calls():
        f = t.get("f")
        if not f:
            continue
        nm = f["path"].split("::")[-1]
        if nm in ("append", "extend", "extend_from_slice") and len(t["args"]) == 2:
            src = base_local(t["args"][1])
            if src in inner:
                n += 1
                ck.violation(rule, inst, b.path, b.where(bb), ordinal=n, expected="element-wise transfer with `set.dist.remove(last)` first",
                             found=f"bulk {nm} from `{b.local_name(src)}`: the child-relative distance stays on top of every stack (max_dist is then computed from distances to the wrong node)")
        elif nm == "push" and len(t["args"]) == 2 and t["args"][1]["k"] in ("move", "copy") and not t["args"][1]["p"]["pr"]:
            e = t["args"][1]["p"]["l"]
            if "DistanceSet" not in b.local_ty(e) or "Vec<" in b.local_ty(e):
                continue
            seen = set()
            while e not in seen:                                   # `push(move _tmp)` with `_tmp = move set`
                seen.add(e)
                ds = b.defs.get(e, [])
                if len(ds) == 1 and ds[0].kind == "assign" and ds[0].data["r"]["k"] == "use" and ds[0].data["r"]["o"]["k"] in ("move", "copy") \
                        and not ds[0].data["r"]["o"]["p"]["pr"]:
                    e = ds[0].data["r"]["o"]["p"]["l"]
            term = res.local(e)
            from_inner = any(s[0] in ("local", "phi") and s[1] in inner for s in subterms(term))
            if not from_inner:
                continue
            n += 1
            popped = False
            for bb2, t2 in b.calls():
                f2 = t2.get("f")
                if not (f2 and f2["path"].split("::")[-1] in ("remove", "pop", "truncate") and b.dominates(bb2, bb) and t2["args"]):
                    continue
                a0 = t2["args"][0]
                if a0["k"] in ("move", "copy"):
                    for d in b.defs.get(a0["p"]["l"], []):
                        if d.kind == "assign" and d.data["r"]["k"] == "ref" and d.data["r"]["p"]["l"] == e and d.data["r"]["p"]["pr"]:
                            popped = True
            if popped:
                ck.ok(rule, inst, b.path, b.where(bb), f"`{b.local_name(e)}` from {names}: stack popped before the push")
            else:
                ck.violation(rule, inst, b.path, b.where(bb), ordinal=n, expected="`set.dist.remove(set.dist.len() - 1)` before the push",
                             found=f"`{b.local_name(e)}` comes from a child-level set and is pushed with the child's distance still on top of its stack")
    if n == 0:
        ck.note(f"{inst}: nothing is transferred out of {names}: no instance")


def run(ck, prog):
    _run_pre_poplevel(ck, prog)
    batch_insert_pops_level(ck, prog)


EXPLANATION += (" batch_insert: every DistanceSet coming back from the child-level sets is popped (its child-relative distance removed) "
                "before it joins point_set / far / consumed_set; no bulk append from those sets (two identical independent seeds).")


# ------------------------------------------------------------------ the default metric is evaluated in difference form (C17's rule)
_run_pre_metric = run


def run(ck, prog):
    _run_pre_metric(ck, prog)
    # 'the k nearest under the metric': k-NN defaults to Euclidian; the expanded form |x|^2 + |y|^2 - 2 x.y cancels for data
    # with a common offset and the neighbour order becomes garbage in both search structures
    from sa import difference
    from props import C17
    difference.run_rule(ck, prog, [e for e in C17.DIFF_FNS if e[0].startswith("Euclidian")])


EXPLANATION += " Default metric: Euclidian distance / squared_distance depend on their arguments only through x - y (C17's difference-form rule)."


# ------------------------------------------------------------------ generic: the value tested against a bound is the value set to the bound (clamps)
_run_pre_clamp = run


def run(ck, prog):
    _run_pre_clamp(ck, prog)
    from sa import clamp
    clamp.run_rule(ck, prog, set(DIMENSION_FILES))


# ------------------------------------------------------------------ generic: an index variable of one range addresses one buffer with one stride
_run_pre_stride = run


def run(ck, prog):
    _run_pre_stride(ck, prog)
    from sa import stride
    stride.run_rule(ck, prog, set(DIMENSION_FILES))
