"""C11 naive Bayes: label decoding (E2a), label/index pairing, label/index separation in fit."""
from sa.mir import AnchorError
from sa.prov import Resolver, render, subterms, alts

LEVEL = "other"
EXPLANATION = (
    "(a) E2a: BaseNaiveBayes::predict returns, for every row, component 0 of the max_by winner over "
    "enumerate(iter(distribution.classes())) mapped to (label element, score): the predicted value is an element of the "
    "distribution's label table, never an index or a converted number; the score of a candidate is computed with the "
    "class index of the SAME enumerate item as its label (log_likelihood(idx, row) and prior(idx)); each of the four "
    "distributions' classes() returns its class_labels field. (b) label/index separation: in the Gaussian, multinomial "
    "and Bernoulli fit the stored label table is unique_with_indices(y).0, and no value derived from an element of y "
    "(outside unique_with_indices) reaches a float->integer conversion or an index position - 'labels need not be "
    "contiguous or start at zero'; the categorical variant is the documented exception (enumerates 0..max label) and is "
    "excluded by name. The statistics and the MAP arg-max value are not decided."
)
TECHNIQUE = "static analysis of rustc MIR: value-provenance slices through closures (label decoding, index/label pairing) and taint of label values into conversions/index positions"

NB = r"^naive_bayes::BaseNaiveBayes::<T, M, D>::predict"
CONV = ("::to_usize", "::to_i64", "::to_u64", "::to_isize", "::to_i32", "::to_u32", "::to_u8", "::to_u16", "::to_i16", "::to_i8")


def clo(prog, t):
    if t[0] == "agg" and t[1].startswith("closure:"):
        return prog.get(t[1][len("closure:"):])
    return None


def _capture_chain(prog, body, name):
    """value (term in the defining body) of a captured variable, followed through nested closures"""
    seen = 0
    while body is not None and seen < 6:
        seen += 1
        parent = prog.get(body.parent) if body.parent else None
        # closures nest: the direct parent is the body whose path is the prefix
        par_path = body.path.rsplit("::{closure", 1)[0]
        parent = prog.get(par_path)
        if parent is None:
            return None
        pres = Resolver(parent)
        for i, j, s in parent.stmts():
            r = s["r"] if s["k"] == "assign" else None
            if r and r["k"] == "agg" and r["ak"] == "closure" and r["name"] == body.path:
                names = [body.upvars.get(k) for k in range(len(r["ops"]))]
                if name in names:
                    v = pres.operand(r["ops"][names.index(name)])
                    if v[0] == "upvar":
                        body, name = parent, v[1]
                        break
                    return v
        else:
            return None
    return None


def predict_rule(ck, prog):
    rule, inst = "E2a-label-decode", "BaseNaiveBayes::predict returns an element of distribution.classes()"
    try:
        b = prog.one(NB + "$")
    except AnchorError as e:
        ck.violation(rule, inst, "BaseNaiveBayes::predict", "", expected="anchor exists", found=f"anchor vanished: {e}")
        return
    site = f"{b.loc[0]}:{b.loc[1]}"
    bodies, stack = [b], list(prog.closures_of.get(b.path, []))
    while stack:
        c = stack.pop()
        bodies.append(c)
        stack.extend(prog.closures_of.get(c.path, []))
    # private per-row helpers of the same type (`fn predict_row(&self, row) -> T`) called from predict or its closures
    helpers = []
    for bd in list(bodies):
        for bb, t in bd.calls():
            f = t.get("f")
            cal = prog.bodies.get(f.get("resolved") or "") or prog.bodies.get(f["path"]) if f else None
            if cal is not None and cal is not b and cal.path.startswith("naive_bayes::BaseNaiveBayes") and cal not in bodies:
                helpers.append(cal)
                bodies.append(cal)
                stack = list(prog.closures_of.get(cal.path, []))
                while stack:
                    c = stack.pop()
                    bodies.append(c)
                    stack.extend(prog.closures_of.get(c.path, []))
    hits = []
    for bd in bodies:
        rs = Resolver(bd)
        for bb, t in bd.calls():
            f = t.get("f")
            if f and f["path"].endswith("Iterator::max_by"):
                hits.append((bd, rs, bb, rs.operand(t["args"][0]), t))
    problems = []
    if len(hits) == 0:
        # the arg-max written as an explicit loop with a running best (or some other form): not one of the recognised idioms;
        # the rule identifies the max_by form positively and does not decide other forms
        ck.note(f"{inst}: no max_by over the candidate classes (arg-max in another form): not decided for this form")
        return
    if len(hits) != 1:
        ck.violation(rule, inst, b.path, site, expected="one arg-max (max_by) over the candidate classes", found=f"{len(hits)} max_by calls")
        return
    bd, rs, bb, recv, t = hits[0]
    site = bd.where(bb)
    en = [s for s in subterms(recv) if s[0] == "call" and s[1].endswith("Iterator::enumerate")]
    mp = [s for s in subterms(recv) if s[0] == "call" and s[1].endswith("Iterator::map")]
    if not en or not mp:
        problems.append(f"arg-max receiver `{render(recv)[:120]}` is not map(enumerate(labels), ..)")
    else:
        src = en[0][2][0]
        while src[0] == "call" and src[1].endswith(("::iter", "::deref", "::into_iter")) and len(src[2]) == 1:
            src = src[2][0]
        lab = _capture_chain(prog, bd, src[1]) if src[0] == "upvar" else src
        if not (lab is not None and lab[0] == "call" and lab[1].endswith("NBDistribution::classes")):
            problems.append(f"the enumerated table `{render(lab)[:80] if lab else render(src)[:80]}` is not distribution.classes()")
        inner = clo(prog, mp[0][2][1])
        if not inner:
            problems.append("the candidate mapper is not a closure literal")
        else:
            r2 = Resolver(inner).local(0)
            if not (r2[0] == "agg" and r2[1] == "tuple" and len(r2[2]) == 2):
                problems.append(f"candidate `{render(r2)[:120]}` is not (label, score)")
            else:
                lbl, score = r2[2]
                if not (lbl[0] == "field" and lbl[2] == "1" and lbl[1][0] == "arg"):
                    problems.append(f"candidate label `{render(lbl)[:60]}` is not the element component of the enumerate item")
                else:
                    item = lbl[1]
                    idx = ("field", item, "0")
                    # the candidate's own index is what the score is computed from: every use of the item inside the
                    # score is its index component, passed on unchanged (not under arithmetic)
                    for s in subterms(score):
                        if s[0] == "field" and s[1] == item and s[2] != "0":
                            problems.append(f"the score reads `{render(s)[:40]}` of the candidate item")
                        if s[0] == "bin" and (s[2] == idx or s[3] == idx):
                            problems.append(f"the score shifts the candidate's class index: `{render(s)[:60]}`")
                    if not any(s == idx for s in subterms(score)):
                        problems.append("the score does not depend on the candidate's class index")
    # per-class quantities are evaluated at one and the same class index wherever they are computed
    for bd2 in bodies:
        r3 = Resolver(bd2)
        ixs = set()
        for bb2, t2 in bd2.calls():
            f2 = t2.get("f")
            if f2 and f2["path"].endswith(("NBDistribution::log_likelihood", "NBDistribution::prior")):
                ixs.add(r3.operand(t2["args"][1]))
        if len(ixs) > 1:
            problems.append(f"log_likelihood and prior are evaluated at different class indices in {bd2.path.split('::')[-1]}: {[render(x)[:40] for x in ixs]}")
    # the predicted value is component 0 (the label) of the arg-max winner
    def is_winner_label(v):
        while v[0] == "call" and v[1] in ("unwrap",) and v[2]:
            v = v[2][0]
        return v[0] == "field" and v[2] == "0" and any(s[0] == "call" and s[1].endswith("Iterator::max_by") for s in subterms(v[1]))
    ok_out = is_winner_label(rs.local(0)) if (bd.kind == "Closure" or bd in helpers) else False
    for bb3, t3 in bd.calls():
        f3 = t3.get("f")
        if f3 and f3["path"].endswith("Vec::<T, A>::push") and is_winner_label(rs.operand(t3["args"][1])):
            ok_out = True
    if not ok_out:
        problems.append("the per-row prediction is not component 0 (the label) of the arg-max winner")
    if problems:
        ck.violation(rule, inst, b.path, site, expected="prediction = label element of the arg-max candidate; score(label_i) uses index i", found="; ".join(problems))
    else:
        ck.ok(rule, inst, b.path, site, render(recv)[:160])


def classes_accessors(ck, prog):
    rule = "E2a-label-table"
    for d in ("gaussian::GaussianNBDistribution", "multinomial::MultinomialNBDistribution", "bernoulli::BernoulliNBDistribution",
              "categorical::CategoricalNBDistribution"):
        inst = f"{d.split('::')[-1]}::classes() returns class_labels"
        bs = prog.find(rf"^<naive_bayes::{d}<T> as naive_bayes::NBDistribution<T, M>>::classes$")
        if len(bs) != 1:
            ck.violation(rule, inst, d, "", expected="anchor exists", found=f"{len(bs)} bodies")
            continue
        r = Resolver(bs[0]).local(0)
        if r[0] == "field" and r[2] == "class_labels" and r[1][0] == "arg":
            ck.ok(rule, inst, bs[0].path, f"{bs[0].loc[0]}:{bs[0].loc[1]}", render(r))
        else:
            ck.violation(rule, inst, bs[0].path, f"{bs[0].loc[0]}:{bs[0].loc[1]}", expected="&self.class_labels", found=render(r)[:120])


def y_raw(t, yarg, stop=("::unique_with_indices", "::len", "::shape")):
    """does the term use the label vector other than through unique_with_indices / its length?"""
    seen = set()
    work = [t]
    while work:
        s = work.pop()
        if not isinstance(s, tuple) or not s or id(s) in seen:
            continue
        seen.add(id(s))
        if isinstance(s[0], str):
            if s[0] == "call" and s[1].endswith(stop):
                continue
            if s[0] == "arg" and s[1] == yarg:
                return True
        for x in s[1:] if isinstance(s[0], str) else s:
            if isinstance(x, tuple):
                work.append(x)
    return False


def separation(ck, prog):
    rule = "E2b-label-taint"
    for d, nm in (("gaussian::GaussianNBDistribution", "Gaussian"), ("multinomial::MultinomialNBDistribution", "Multinomial"),
                  ("bernoulli::BernoulliNBDistribution", "Bernoulli")):
        inst = f"{nm}: labels are only used through unique_with_indices"
        bs = prog.find(rf"^naive_bayes::{d}::<T>::fit$")
        if len(bs) != 1:
            ck.violation(rule, inst, d, "", expected="anchor exists", found=f"{len(bs)} bodies")
            continue
        b = bs[0]
        res = Resolver(b)
        yarg = 2
        problems = []
        # label table stored = unique_with_indices(y).0
        stored = None
        for i, j, s in b.stmts():
            r = s["r"] if s["k"] == "assign" else None
            if r and r["k"] == "agg" and r.get("name", "").endswith(d.split("::")[-1]) and "class_labels" in r.get("fields", []):
                stored = res.operand(r["ops"][r["fields"].index("class_labels")])
        if stored is None:
            problems.append("constructor with class_labels not found")
        else:
            okl = all(a[0] == "field" and a[2] == "0" and a[1][0] == "call" and a[1][1].endswith("::unique_with_indices")
                      and any(s[0] == "arg" and s[1] == yarg for s in subterms(a[1])) for a in alts(stored))
            if not okl:
                problems.append(f"class_labels = `{render(stored)[:100]}`, not unique_with_indices(y).0")
        # taint: conversions and index positions
        bodies = [(b, res, {})]
        n_sites = 0
        for (bd, rs, env) in bodies:
            for bb, t in bd.calls():
                f = t.get("f")
                if not f:
                    continue
                if f["path"].endswith(CONV) and t["args"]:
                    n_sites += 1
                    a = rs.operand(t["args"][0])
                    if y_raw(a, yarg):
                        problems.append(f"label value converted to an integer by {f['path'].split('::')[-1]} at {bd.where(bb)}: `{render(a)[:80]}`")
                if f["path"] in ("std::ops::Index::index", "std::ops::IndexMut::index_mut") and len(t["args"]) == 2:
                    n_sites += 1
                    a = rs.operand(t["args"][1])
                    if y_raw(a, yarg):
                        problems.append(f"label value used as an index at {bd.where(bb)}: `{render(a)[:80]}`")
            for i, j, s in bd.stmts():
                if s["k"] == "assign" and s["r"]["k"] == "cast" and s["r"]["ck"] == "FloatToInt":
                    n_sites += 1
                    a = rs.operand(s["r"]["o"])
                    if y_raw(a, yarg):
                        problems.append(f"label value cast to an integer at {bd.where(i, j)}")
        # closures of fit: captured label-derived values
        for cb in prog.closures_of.get(b.path, []):
            crs = Resolver(cb)
            for bb, t in cb.calls():
                f = t.get("f")
                if f and f["path"].endswith(CONV) and t["args"]:
                    n_sites += 1
                    a = crs.operand(t["args"][0])
                    ups = [s[1] for s in subterms(a) if s[0] == "upvar"]
                    for u in ups:
                        # captured variable's value in the parent
                        for s2 in subterms(res.local(0)):
                            pass
                    # conservative: a conversion applied to a captured variable named like the label vector
                    if any(u in ("y", "labels") for u in ups):
                        problems.append(f"label value converted inside closure at {cb.where(bb)}")
        if problems:
            ck.violation(rule, inst, b.path, f"{b.loc[0]}:{b.loc[1]}", expected="class_labels = unique_with_indices(y).0; no label-derived value reaches a float->int conversion or an index position",
                         found="; ".join(problems))
        else:
            ck.ok(rule, inst, b.path, f"{b.loc[0]}:{b.loc[1]}", f"class_labels = {render(stored)[:60]}; {n_sites} conversion/index sites examined")


def run(ck, prog):
    predict_rule(ck, prog)
    classes_accessors(ck, prog)
    separation(ck, prog)
    # no floor: the arg-max form is identified positively (a loop-form arg-max leaves a note, not an alarm)
    ck.floor("E2a-label-table", 4)
    ck.floor("E2b-label-taint", 3)


def predictor_delegation(ck, prog):
    """the generic interface (api::Predictor::predict) of each naive Bayes model is the model's own predict
    (which, for Bernoulli, includes the binarisation step) - not a shortcut to the inner distribution"""
    rule = "E1-sibling"
    for d in ("gaussian::GaussianNB", "multinomial::MultinomialNB", "bernoulli::BernoulliNB", "categorical::CategoricalNB"):
        nm = d.split("::")[-1]
        inst = f"<{nm} as Predictor>::predict delegates to {nm}::predict"
        bs = prog.find(rf"^<naive_bayes::{d}<T, M> as api::Predictor<.*>>::predict$")
        if len(bs) != 1:
            ck.violation(rule, inst, d, "", expected="anchor exists", found=f"{len(bs)} bodies")
            continue
        b = bs[0]
        r = Resolver(b).local(0)
        want = f"naive_bayes::{d}::<T, M>::predict"
        if r[0] == "call" and r[1] == want and len(r[2]) == 2 and r[2][0][0] == "arg" and r[2][0][1] == 1 and r[2][1][0] == "arg" and r[2][1][1] == 2:
            ck.ok(rule, inst, b.path, f"{b.loc[0]}:{b.loc[1]}", render(r))
        else:
            ck.violation(rule, inst, b.path, f"{b.loc[0]}:{b.loc[1]}", expected=f"return {want}(self, x)", found=f"returns `{render(r)[:120]}`")


_run_c11 = run


def run(ck, prog):
    _run_c11(ck, prog)
    predictor_delegation(ck, prog)
    ck.floor("E1-sibling", 4)


_run_pre_builders = run


def run(ck, prog):
    _run_pre_builders(ck, prog)
    # every setting of the quantifier is reachable through the public builder chain: setters must not clobber other fields
    from sa.builders import check_builders
    check_builders(ck, prog, r"^naive_bayes::\w+::\w+NBParameters$")
    ck.floor("E2-builder", 7)


# ------------------------------------------------------------------ generic: rows/cols (outer/inner) mix-up of locally allocated buffers
_run_pre_dimension = run
DIMENSION_FILES = ['src/math/vector.rs', 'src/naive_bayes/bernoulli.rs', 'src/naive_bayes/categorical.rs', 'src/naive_bayes/gaussian.rs', 'src/naive_bayes/mod.rs', 'src/naive_bayes/multinomial.rs']


def run(ck, prog):
    _run_pre_dimension(ck, prog)
    from sa import dimension
    dimension.run_rule(ck, prog, set(DIMENSION_FILES))


# ------------------------------------------------------------------ Gaussian NB: no absolute threshold on the statistics
_run_pre_e4 = run


def run(ck, prog):
    _run_pre_e4(ck, prog)
    # the reported statistics are the ones prediction uses: no element-derived quantity (mean, variance, feature value) is
    # compared with / floored at a non-zero machine constant anywhere in the Gaussian model (expected count on this tree: 0
    # comparisons; positive controls: seeded/C11-r4-1)
    from props.C01 import run_e4
    n, _ = run_e4(ck, prog, r"naive_bayes::gaussian::", ["naive_bayes::gaussian::"], floor=0)
    ck.extra["gaussian_t_comparisons"] = n


EXPLANATION += (" Gaussian NB (E4): no mean/variance/feature-derived quantity is compared with, or floored at (max/min), a non-zero "
                "absolute constant - a variance floor makes predict disagree with the reported statistics for small-scale data.")


# ------------------------------------------------------------------ generic: signed counters are not cast to unsigned on their negative side
_run_pre_negcast = run


def run(ck, prog):
    _run_pre_negcast(ck, prog)
    from sa import negcast
    negcast.run_rule(ck, prog, set(DIMENSION_FILES))


# ------------------------------------------------------------------ Gaussian NB: a class with a constant feature has variance zero
_run_pre_vardiv = run


def gaussian_variance_guarded(ck, prog):
    """'The label predicted for any row whose values occurred in training is a class maximising ...': the Gaussian
    log-density divides by the per-class variance and takes its logarithm. The variance is exactly 0 whenever a class has a
    single row or a feature that is constant within the class (always the case for a 2-row, 2-class training set), the score
    is NaN and the arg-max unwraps partial_cmp of NaN: predict panics. Guarded-division rule on calculate_log_probability
    (in the function or in log_likelihood before the call)."""
    from sa import divguard
    from sa.e1 import BodyCtx
    rule, inst = "E2-guarded-division", "GaussianNB: the class variance is tested against zero before the density divides by it"
    cal = prog.find(r"naive_bayes::gaussian::GaussianNBDistribution::<T>::calculate_log_probability$")
    if len(cal) != 1:
        ck.note(f"{inst}: calculate_log_probability not found ({len(cal)}): density computed differently, no instance")
        return
    b = cal[0]
    is_var = lambda t: t[0] == "arg" and t[1] == 4
    sites = divguard.check(b, is_var)
    if not sites:
        ck.note(f"{inst}: no division by the variance argument: no instance")
        return
    # a guard in the caller: log_likelihood tests the variance it passes
    caller_guard = False
    for cb in prog.find(r"naive_bayes::gaussian::GaussianNBDistribution<T> as naive_bayes::NBDistribution<T, M>>::log_likelihood$"):
        cx = BodyCtx.of(cb)
        from sa.match import Zero
        z = Zero()
        for c in cx.cmps:
            for (L, R) in ((c.lhs, c.rhs), (c.rhs, c.lhs)):
                if z(R) and any(s[0] == "field" and s[2] in ("sigma", "var", "variance") for s in subterms(L)):
                    caller_guard = True
    for k, (where, den, guarded) in enumerate(sites):
        if guarded or caller_guard:
            ck.ok(rule, inst, b.path, where, f"division by `{render(den)[:60]}` behind a non-zero test")
        else:
            ck.violation(rule, inst, b.path, where, ordinal=k,
                         expected="a zero test (or a data-relative floor) of the variance before it is divided by / its logarithm taken",
                         found=f"divides by `{render(den)[:60]}` unconditionally: a class with a single row or a within-class constant feature has "
                               f"variance 0, the score is NaN and BaseNaiveBayes::predict panics in partial_cmp(..).unwrap()")


def run(ck, prog):
    _run_pre_vardiv(ck, prog)
    gaussian_variance_guarded(ck, prog)


# ------------------------------------------------------------------ generic: `while counter < bound` loops advance their counter
_run_pre_progress = run


def run(ck, prog):
    _run_pre_progress(ck, prog)
    from sa import progress
    progress.run_rule(ck, prog, set(DIMENSION_FILES))


# ------------------------------------------------------------------ the prior used by predict is the reported prior
_run_pre_priorcall = run


def predict_uses_reported_prior(ck, prog):
    """'priors are class frequencies (or the user-supplied priors)' and the prediction maximises log prior + log-likelihood
    'computed from those statistics': the prior term of the score comes from NBDistribution::prior(class) - the accessor
    that reports class_priors - either directly or through a provided trait method that no distribution overrides. A
    distribution-specific override (a cached log-prior filled before the user-priors branch) decouples the score from the
    reported priors."""
    rule, inst = "E2-provenance", "BaseNaiveBayes::predict scores with NBDistribution::prior (no overridden shortcut)"
    try:
        b = prog.one(NB + "$")
    except AnchorError as e:
        ck.violation(rule, inst, "BaseNaiveBayes::predict", "", expected="anchor exists", found=f"anchor vanished: {e}")
        return
    bodies = [b] + prog.closures_of.get(b.path, [])
    for bd in list(bodies):
        for bb, t in bd.calls():
            f = t.get("f")
            cal = prog.bodies.get((f or {}).get("resolved") or "") or prog.bodies.get((f or {}).get("path") or "")
            if cal is not None and cal.path.startswith("naive_bayes::BaseNaiveBayes") and cal not in bodies:
                bodies.append(cal)
                bodies.extend(prog.closures_of.get(cal.path, []))
    used = {}
    for bd in bodies:
        for bb, t in bd.calls():
            f = t.get("f")
            if f and f["path"].startswith("naive_bayes::NBDistribution::"):
                used.setdefault(f["path"].split("::")[-1], bd.where(bb))
    problems = []
    extra = [m for m in used if m not in ("prior", "log_likelihood", "classes")]
    for m in extra:
        over = [x.path for x in prog.bodies.values() if x.impl_trait and x.impl_trait.startswith("naive_bayes::NBDistribution") and x.name == m]
        default = prog.bodies.get(f"naive_bayes::NBDistribution::{m}")
        uses_prior = default is not None and any(t.get("f") and t["f"]["path"].endswith("NBDistribution::prior") for _, t in default.calls())
        if over:
            problems.append(f"predict calls NBDistribution::{m}, which is overridden by {[o.split(' as ')[0][-60:] for o in over][:2]}")
        elif "prior" not in used and not uses_prior:
            problems.append(f"predict calls NBDistribution::{m} instead of prior()")
    if "prior" not in used and not extra:
        problems.append("the score contains no call of NBDistribution::prior")
    site = used.get("prior") or f"{b.loc[0]}:{b.loc[1]}"
    if problems:
        ck.violation(rule, inst, b.path, site, expected="log prior = ln(prior(class)) from the reported class_priors", found="; ".join(problems))
    else:
        ck.ok(rule, inst, b.path, site, f"trait methods used by predict: {sorted(used)}")


def run(ck, prog):
    _run_pre_priorcall(ck, prog)
    predict_uses_reported_prior(ck, prog)


_run_pre_bin = run


def run(ck, prog):
    _run_pre_bin(ck, prog)
    from props import C03
    C03.binarize_every_cell(ck, prog)          # BernoulliNB binarises with the user's threshold in fit and predict


EXPLANATION += (" The prior term of the score is NBDistribution::prior (no distribution-specific override of a shortcut); binarize_mut stores into every cell (no skip), as BernoulliNB binarises with the user's threshold.")


# ------------------------------------------------------------------ generic: no magnitude is compared with a signed raw element
_run_pre_magnitude = run


def run(ck, prog):
    _run_pre_magnitude(ck, prog)
    from sa import magnitude
    magnitude.run_rule(ck, prog, set(DIMENSION_FILES))


# ------------------------------------------------------------------ generic: backward strided scans (`j -= step`) continue exactly while j >= step
_run_pre_subguard = run


def run(ck, prog):
    _run_pre_subguard(ck, prog)
    from sa import subguard
    subguard.run_rule(ck, prog, set(DIMENSION_FILES))


# ------------------------------------------------------------------ generic: a configuration field read on one successful path is read on every successful path
_run_pre_config = run


def run(ck, prog):
    _run_pre_config(ck, prog)
    from sa import config
    config.run_rule(ck, prog, set(DIMENSION_FILES))


# ------------------------------------------------------------------ BernoulliNB: with a threshold set, fit and predict see the binarised matrix
_run_pre_bernoulli_bin = run


def bernoulli_binarizes(ck, prog):
    """Some(threshold) => the matrix handed on (to the distribution's fit / to the shared predict) is x.binarize(threshold),
    for EVERY threshold (negative ones included): from the Some edge of the test of the stored option, no hand-over of the raw
    x is reachable."""
    from sa.prov import Resolver
    rule = "E1-gate"
    for nm, fn, opt_base, sinks in (
            ("fit", r"^naive_bayes::bernoulli::BernoulliNB::<T, M>::fit$", "parameters", ("BernoulliNBDistribution::<T>::fit",)),
            ("predict", r"^naive_bayes::bernoulli::BernoulliNB::<T, M>::predict$", "self", ("BaseNaiveBayes::<T, M, D>::predict",))):
        inst = f"BernoulliNB::{nm}: with Some(threshold) the matrix handed on is x.binarize(threshold)"
        try:
            b = prog.one(fn)
        except AnchorError as e:
            ck.violation(rule, inst, fn, "", expected="anchor exists", found=f"anchor vanished: {e}")
            continue
        res = Resolver(b)
        n = 0
        for i, blk in enumerate(b.blocks):
            t = blk["term"]
            if i not in b.reach or t["k"] != "switch":
                continue
            d = res.operand(t["o"])
            if not (d[0] == "discr" and d[1][0] == "field" and d[1][2] == "binarize"):
                continue
            some = [dst for v, dst in t["targets"] if v == "1"]
            some = some or ([t["otherwise"]] if [v for v, _ in t["targets"]] == ["0"] else [])
            if not some:
                continue
            reach = b.reachable_from(some)
            for bb, c in b.calls():
                f = c.get("f")
                if bb not in reach or not (f and f["path"].endswith(sinks)):
                    continue
                n += 1
                args = [res.operand(a) for a in c["args"]]
                raw = [a for a in args if a[0] == "arg" and b.local_name(a[1]) == "x"]
                binz = [a for a in args if a[0] == "call" and a[1].split("::")[-1] in ("binarize", "binarize_mut")]
                if raw and not binz:
                    ck.violation(rule, inst, b.path, b.where(bb), ordinal=n, expected="x.binarize(threshold) whenever the threshold is set",
                                 found=f"{f['path'].split('::')[-1]}(x) with the raw matrix is reachable although {opt_base}.binarize is Some(_)")
                else:
                    ck.ok(rule, inst, b.path, b.where(bb), f"{f['path'].split('::')[-1]}({render(args[1 if nm == 'predict' else 0])[:60]})")
        if n == 0:
            ck.note(f"{inst}: no test of the stored option with a hand-over behind it recognised: no instance")


def run(ck, prog):
    _run_pre_bernoulli_bin(ck, prog)
    bernoulli_binarizes(ck, prog)


EXPLANATION += (" BernoulliNB: behind the Some edge of the test of the stored threshold, fit and predict hand on x.binarize(threshold) only "
                "(no raw hand-over for some thresholds).")


# ------------------------------------------------------------------ the class score stays in log space
_run_pre_logspace = run


def score_in_log_space(ck, prog):
    """The joint log-likelihood of a row is routinely below ln(f64::MIN_POSITIVE) = -745 (a few dozen features, or one
    Gaussian feature far from every class mean): exponentiating it gives 0 for every class, all scores tie and the arg-max
    returns an arbitrary class.  Rule: in BaseNaiveBayes::predict (closures and local helpers included) no exp() is applied
    to a value derived from NBDistribution::log_likelihood."""
    from sa.prov import Resolver
    rule, inst = "E2-provenance", "BaseNaiveBayes::predict: the log-likelihood is never exponentiated"
    try:
        b = prog.one(NB + "$")
    except AnchorError as e:
        ck.violation(rule, inst, "BaseNaiveBayes::predict", "", expected="anchor exists", found=f"anchor vanished: {e}")
        return
    bodies = [b] + list(prog.closures_of.get(b.path, []))
    for bd in list(bodies):
        for bb, t in bd.calls():
            f = t.get("f")
            cal = prog.bodies.get((f or {}).get("resolved") or "") or prog.bodies.get((f or {}).get("path") or "")
            if cal is not None and cal.path.startswith("naive_bayes::BaseNaiveBayes") and cal not in bodies:
                bodies.append(cal)
                bodies.extend(prog.closures_of.get(cal.path, []))
    n = 0
    for bd in bodies:
        res = Resolver(bd)
        for bb, t in bd.calls():
            f = t.get("f")
            if not f:
                continue
            if f["path"].endswith("NBDistribution::log_likelihood"):
                n += 1
            if f["path"].split("::")[-1] in ("exp", "exp2", "exp_m1") and t["args"]:
                a = res.operand(t["args"][0])
                if any(s[0] == "call" and s[1].endswith("NBDistribution::log_likelihood") for s in subterms(a)):
                    ck.violation(rule, inst, bd.path, bd.where(bb), expected="scores are compared as log prior + log-likelihood",
                                 found=f"exp({render(a)[:60]}): underflows to 0 for every class once the log-likelihood is below about -745")
    if n:
        ck.ok(rule, inst, b.path, f"{b.loc[0]}:{b.loc[1]}", f"{n} use(s) of log_likelihood in {len(bodies)} bodies, none under exp()")
    else:
        ck.note(f"{inst}: no call of NBDistribution::log_likelihood in predict: no instance")


def run(ck, prog):
    _run_pre_logspace(ck, prog)
    score_in_log_space(ck, prog)


EXPLANATION += " The class score stays in log space: no exp() of a value derived from log_likelihood in BaseNaiveBayes::predict."


# ------------------------------------------------------------------ generic: the value tested against a bound is the value set to the bound (clamps)
_run_pre_clamp = run


def run(ck, prog):
    _run_pre_clamp(ck, prog)
    from sa import clamp
    clamp.run_rule(ck, prog, set(DIMENSION_FILES))


# ------------------------------------------------------------------ generic: an index variable of one range addresses one buffer with one stride
_run_pre_stride = run


def run(ck, prog):
    _run_pre_stride(ck, prog)
    from sa import stride
    stride.run_rule(ck, prog, set(DIMENSION_FILES))
