"""C11 naive Bayes: label decoding (E2a), label/index pairing, label/index separation in fit."""
from sa.mir import AnchorError
from sa.prov import Resolver, render, subterms, alts

LEVEL = "other"
EXPLANATION = (
    "(a) E2a: BaseNaiveBayes::predict returns, for every row, component 0 of the max_by winner over "
    "enumerate(iter(distribution.classes())) mapped to (label element, score): the predicted value is an element of the "
    "distribution's label table, never an index or a converted number; the score of a candidate is computed with the "
    "class index of the SAME enumerate item as its label (log_likelihood(idx, row) and prior(idx)); each of the four "
    "distributions' classes() returns its class_labels field. (b) label/index separation: in the Gaussian, multinomial "
    "and Bernoulli fit the stored label table is unique_with_indices(y).0, and no value derived from an element of y "
    "(outside unique_with_indices) reaches a float->integer conversion or an index position - 'labels need not be "
    "contiguous or start at zero'; the categorical variant is the documented exception (enumerates 0..max label) and is "
    "excluded by name. The statistics and the MAP arg-max value are not decided."
)
TECHNIQUE = "static analysis of rustc MIR: value-provenance slices through closures (label decoding, index/label pairing) and taint of label values into conversions/index positions"

NB = r"^naive_bayes::BaseNaiveBayes::<T, M, D>::predict"
CONV = ("::to_usize", "::to_i64", "::to_u64", "::to_isize", "::to_i32", "::to_u32", "::to_u8", "::to_u16", "::to_i16", "::to_i8")


def clo(prog, t):
    if t[0] == "agg" and t[1].startswith("closure:"):
        return prog.get(t[1][len("closure:"):])
    return None


def predict_rule(ck, prog):
    rule, inst = "E2a-label-decode", "BaseNaiveBayes::predict returns an element of distribution.classes()"
    try:
        b = prog.one(NB + "$")
    except AnchorError as e:
        ck.violation(rule, inst, "BaseNaiveBayes::predict", "", expected="anchor exists", found=f"anchor vanished: {e}")
        return
    res = Resolver(b)
    ret = res.local(0)
    site = f"{b.loc[0]}:{b.loc[1]}"
    problems = []
    maps = [s for s in subterms(ret) if s[0] == "call" and s[1].endswith("Iterator::map")]
    outer = clo(prog, maps[0][2][1]) if maps else None
    if not outer:
        ck.violation(rule, inst, b.path, site, expected="predictions = map(rows, closure)", found=render(ret)[:200])
        return
    # the captured label table
    caps = dict(zip([outer.upvars.get(i) for i in range(len(maps[0][2][1][2]))], maps[0][2][1][2]))
    r1 = Resolver(outer).local(0)
    # r1 = unwrap(max_by(map(enumerate(iter(^labels)), C), _)).0
    ok = r1[0] == "field" and r1[2] == "0"
    mb = [s for s in subterms(r1) if s[0] == "call" and s[1].endswith("Iterator::max_by")]
    inner_maps = [s for s in subterms(r1) if s[0] == "call" and s[1].endswith("Iterator::map")]
    en = [s for s in subterms(r1) if s[0] == "call" and s[1].endswith("Iterator::enumerate")]
    if not (ok and mb and inner_maps and en):
        problems.append(f"per-row result `{render(r1)[:160]}` is not `.0` of max_by(map(enumerate(labels)))")
    else:
        src = en[0][2][0]
        while src[0] == "call" and src[1].endswith(("::iter", "::deref", "::into_iter")) and len(src[2]) == 1:
            src = src[2][0]
        lab = caps.get(src[1]) if src[0] == "upvar" else src
        if not (lab is not None and lab[0] == "call" and lab[1].endswith("NBDistribution::classes")):
            problems.append(f"the enumerated table `{render(lab)[:80] if lab else render(src)[:80]}` is not distribution.classes()")
        inner = clo(prog, inner_maps[0][2][1])
        if not inner:
            problems.append("the candidate mapper is not a closure literal")
        else:
            r2 = Resolver(inner).local(0)
            # tuple{item.1 (label), score(item.0)}
            if not (r2[0] == "agg" and r2[1] == "tuple" and len(r2[2]) == 2):
                problems.append(f"candidate `{render(r2)[:120]}` is not (label, score)")
            else:
                lbl, score = r2[2]
                if not (lbl[0] == "field" and lbl[2] == "1" and lbl[1][0] == "arg"):
                    problems.append(f"candidate label `{render(lbl)[:60]}` is not the element component of the enumerate item")
                else:
                    item = lbl[1]
                    idx = ("field", item, "0")
                    calls = [s for s in subterms(score) if s[0] == "call" and s[1].endswith(("NBDistribution::log_likelihood", "NBDistribution::prior"))]
                    names = sorted(c[1].split("::")[-1] for c in calls)
                    if "log_likelihood" not in names:
                        problems.append(f"score uses {names}: the likelihood of the candidate class is missing")
                    for c in calls:
                        if c[2][1] != idx:
                            problems.append(f"{c[1].split('::')[-1]} is evaluated at `{render(c[2][1])[:60]}`, not at the index of the candidate's own label")
                    # hoisted per-class tables (e.g. precomputed log priors) must be read at the candidate's own index too
                    for s in subterms(score):
                        if s[0] == "idx" and s[2] != idx and any(x[0] == "arg" for x in subterms(s[2])):
                            problems.append(f"per-class table read at `{render(s[2])[:60]}`, not at the index of the candidate's own label")
    if problems:
        ck.violation(rule, inst, b.path, site, expected="prediction = label element of the arg-max candidate; score(label_i) uses index i", found="; ".join(problems))
    else:
        ck.ok(rule, inst, b.path, site, render(r1)[:160])


def classes_accessors(ck, prog):
    rule = "E2a-label-table"
    for d in ("gaussian::GaussianNBDistribution", "multinomial::MultinomialNBDistribution", "bernoulli::BernoulliNBDistribution",
              "categorical::CategoricalNBDistribution"):
        inst = f"{d.split('::')[-1]}::classes() returns class_labels"
        bs = prog.find(rf"^<naive_bayes::{d}<T> as naive_bayes::NBDistribution<T, M>>::classes$")
        if len(bs) != 1:
            ck.violation(rule, inst, d, "", expected="anchor exists", found=f"{len(bs)} bodies")
            continue
        r = Resolver(bs[0]).local(0)
        if r[0] == "field" and r[2] == "class_labels" and r[1][0] == "arg":
            ck.ok(rule, inst, bs[0].path, f"{bs[0].loc[0]}:{bs[0].loc[1]}", render(r))
        else:
            ck.violation(rule, inst, bs[0].path, f"{bs[0].loc[0]}:{bs[0].loc[1]}", expected="&self.class_labels", found=render(r)[:120])


def y_raw(t, yarg, stop=("::unique_with_indices", "::len", "::shape")):
    """does the term use the label vector other than through unique_with_indices / its length?"""
    seen = set()
    work = [t]
    while work:
        s = work.pop()
        if not isinstance(s, tuple) or not s or id(s) in seen:
            continue
        seen.add(id(s))
        if isinstance(s[0], str):
            if s[0] == "call" and s[1].endswith(stop):
                continue
            if s[0] == "arg" and s[1] == yarg:
                return True
        for x in s[1:] if isinstance(s[0], str) else s:
            if isinstance(x, tuple):
                work.append(x)
    return False


def separation(ck, prog):
    rule = "E2b-label-taint"
    for d, nm in (("gaussian::GaussianNBDistribution", "Gaussian"), ("multinomial::MultinomialNBDistribution", "Multinomial"),
                  ("bernoulli::BernoulliNBDistribution", "Bernoulli")):
        inst = f"{nm}: labels are only used through unique_with_indices"
        bs = prog.find(rf"^naive_bayes::{d}::<T>::fit$")
        if len(bs) != 1:
            ck.violation(rule, inst, d, "", expected="anchor exists", found=f"{len(bs)} bodies")
            continue
        b = bs[0]
        res = Resolver(b)
        yarg = 2
        problems = []
        # label table stored = unique_with_indices(y).0
        stored = None
        for i, j, s in b.stmts():
            r = s["r"] if s["k"] == "assign" else None
            if r and r["k"] == "agg" and r.get("name", "").endswith(d.split("::")[-1]) and "class_labels" in r.get("fields", []):
                stored = res.operand(r["ops"][r["fields"].index("class_labels")])
        if stored is None:
            problems.append("constructor with class_labels not found")
        else:
            okl = all(a[0] == "field" and a[2] == "0" and a[1][0] == "call" and a[1][1].endswith("::unique_with_indices")
                      and any(s[0] == "arg" and s[1] == yarg for s in subterms(a[1])) for a in alts(stored))
            if not okl:
                problems.append(f"class_labels = `{render(stored)[:100]}`, not unique_with_indices(y).0")
        # taint: conversions and index positions
        bodies = [(b, res, {})]
        n_sites = 0
        for (bd, rs, env) in bodies:
            for bb, t in bd.calls():
                f = t.get("f")
                if not f:
                    continue
                if f["path"].endswith(CONV) and t["args"]:
                    n_sites += 1
                    a = rs.operand(t["args"][0])
                    if y_raw(a, yarg):
                        problems.append(f"label value converted to an integer by {f['path'].split('::')[-1]} at {bd.where(bb)}: `{render(a)[:80]}`")
                if f["path"] in ("std::ops::Index::index", "std::ops::IndexMut::index_mut") and len(t["args"]) == 2:
                    n_sites += 1
                    a = rs.operand(t["args"][1])
                    if y_raw(a, yarg):
                        problems.append(f"label value used as an index at {bd.where(bb)}: `{render(a)[:80]}`")
            for i, j, s in bd.stmts():
                if s["k"] == "assign" and s["r"]["k"] == "cast" and s["r"]["ck"] == "FloatToInt":
                    n_sites += 1
                    a = rs.operand(s["r"]["o"])
                    if y_raw(a, yarg):
                        problems.append(f"label value cast to an integer at {bd.where(i, j)}")
        # closures of fit: captured label-derived values
        for cb in prog.closures_of.get(b.path, []):
            crs = Resolver(cb)
            for bb, t in cb.calls():
                f = t.get("f")
                if f and f["path"].endswith(CONV) and t["args"]:
                    n_sites += 1
                    a = crs.operand(t["args"][0])
                    ups = [s[1] for s in subterms(a) if s[0] == "upvar"]
                    for u in ups:
                        # captured variable's value in the parent
                        for s2 in subterms(res.local(0)):
                            pass
                    # conservative: a conversion applied to a captured variable named like the label vector
                    if any(u in ("y", "labels") for u in ups):
                        problems.append(f"label value converted inside closure at {cb.where(bb)}")
        if problems:
            ck.violation(rule, inst, b.path, f"{b.loc[0]}:{b.loc[1]}", expected="class_labels = unique_with_indices(y).0; no label-derived value reaches a float->int conversion or an index position",
                         found="; ".join(problems))
        else:
            ck.ok(rule, inst, b.path, f"{b.loc[0]}:{b.loc[1]}", f"class_labels = {render(stored)[:60]}; {n_sites} conversion/index sites examined")


def run(ck, prog):
    predict_rule(ck, prog)
    classes_accessors(ck, prog)
    separation(ck, prog)
    ck.floor("E2a-label-decode", 1)
    ck.floor("E2a-label-table", 4)
    ck.floor("E2b-label-taint", 3)
