"""C14 PCA / truncated SVD: row-wise affine transforms; centred covariance accumulation; builder chain."""
from sa import rowwise
from sa.mir import AnchorError
from sa.prov import Resolver, render, subterms

LEVEL = "other"
EXPLANATION = (
    "Structural clauses only. (1) 'both transforms are the row-wise affine maps x -> (x - mu)*P and x -> x*C, so "
    "transforming a stack of rows equals stacking the transforms'. Rule (non-interference across rows, on MIR provenance "
    "terms): in PCA::transform and SVD::transform the input matrix reaches the result only through row-preserving "
    "operations - as the left factor of matmul with a model field, element reads/writes, element-wise in-place ops with "
    "operands that do not depend on the input - and never through a reduction over rows (mean, column_mean, var, std, sum, "
    "norm, cov, ...); every other operand comes from the fitted model. A transform that centred or scaled with statistics "
    "of the batch being transformed would break the clause and the rule. (2) On the covariance path of PCA::fit every accumulated product has centred "
    "factors (read from the copy the column means were subtracted from, or explicit differences), never raw elements of the "
    "data argument: 'large means' are in the quantifier and the one-pass E[xy]-mu mu form cancels. (3) Parameter builders "
    "change only their own field. Orthonormality, decorrelation, variance ordering "
    "and optimality of the captured variance are numerical and NOT decided."
)
TECHNIQUE = "static analysis of rustc MIR: row-wise non-interference (value provenance of the transform's result), centred-accumulation rule, builder field-preservation rule"

FNS = [("PCA", r"^decomposition::pca::PCA::<T, M>::transform$", ("projection",)),
       ("SVD", r"^decomposition::svd::SVD::<T, M>::transform$", ("components",))]


def run(ck, prog):
    rule = "E2c-rowwise"
    for nm, fn, need in FNS:
        inst = f"{nm}::transform is a row-wise map of its input"
        try:
            b = prog.one(fn)
        except AnchorError as e:
            ck.violation(rule, inst, fn, "", expected="anchor exists", found=f"anchor vanished: {e}")
            continue
        uses, problems = rowwise.check(prog, b, 2)
        res = Resolver(b)
        ret = res.local(0)
        deps = {s[2] for s in subterms(ret) if s[0] == "field" and s[1][0] == "arg" and s[1][1] == 1}
        for f in need:
            if f not in deps:
                problems.append(f"the result does not depend on self.{f}")
        if not any(u[1] == "matmul" for u in uses):
            problems.append("the input is never multiplied with the projection")
        if problems:
            ck.violation(rule, inst, b.path, f"{b.loc[0]}:{b.loc[1]}", expected="row r of the result depends on row r of the input and on model fields only",
                         found="; ".join(problems))
        else:
            ck.ok(rule, inst, b.path, f"{b.loc[0]}:{b.loc[1]}", f"{len(uses)} uses of input-derived data, all row-wise: {sorted({u[1] for u in uses})}; model fields {sorted(deps)}")
    ck.floor(rule, 2)


_run_pre_builders = run


def run(ck, prog):
    _run_pre_builders(ck, prog)
    # every setting of the quantifier is reachable through the public builder chain: setters must not clobber other fields
    from sa.builders import check_builders
    check_builders(ck, prog, r"^decomposition::(pca::PCA|svd::SVD)Parameters$")
    ck.floor("E2-builder", 3)


# ------------------------------------------------------------------ covariance path: centred accumulation
CLAIM_CENTRED = (
    "Covariance path of PCA::fit (n <= p, or the correlation option): every product accumulated into the covariance matrix has "
    "centred factors - elements of the copy from which the column means were subtracted, or explicit differences element - mean - "
    "never raw elements of the data argument. With raw factors the matrix is either uncentred or obtained as E[x_i x_j] - mu_i mu_j, "
    "which cancels catastrophically for the 'large means' of the quantifier. Decided: which matrix the factors are read from; "
    "not the numerical quality of the result.")

_run_pre_centred = run


def centred_cov_pca(ck, prog):
    from sa.prov import alts
    rule, inst = "E2f-centred", "PCA::fit accumulates products of centred elements"
    try:
        b = prog.one(r"^decomposition::pca::PCA::<T, M>::fit$")
    except AnchorError as e:
        ck.violation(rule, inst, "PCA::fit", "", expected="anchor exists", found=f"anchor vanished: {e}")
        return
    n = 0
    for bd in [b] + prog.closures_of.get(b.path, []):
        rs = Resolver(bd)
        for bb, t in bd.calls():
            f = t.get("f")
            if not f:
                continue
            if f["path"].endswith("BaseMatrix::add_element_mut") and len(t["args"]) == 4:
                v = rs.operand(t["args"][3])
            elif f["path"] == "std::ops::AddAssign::add_assign":
                v = rs.operand(t["args"][1])
            else:
                continue
            if not (v[0] == "call" and v[1] == "std::ops::Mul::mul"):
                continue
            facs = [F for F in v[2] if F[0] == "call" and F[1].endswith(("BaseMatrix::get", "Sub::sub"))]
            if len(facs) != 2:
                continue
            n += 1
            raw = []
            for F in facs:
                if F[1].endswith("Sub::sub"):
                    continue
                base = F[2][0]
                al = alts(base)
                centred = any(a[0] == "call" and a[1].startswith("mut:") for a in al) or \
                    any(a[0] == "call" and not a[1].startswith("mut:") for a in al)
                if not centred and all(a[0] in ("arg", "field", "upvar") for a in al):
                    raw.append(render(F)[:60])
            if raw:
                ck.violation(rule, inst, bd.path, bd.where(bb), ordinal=n,
                             expected="both factors are read from the centred copy (or are differences element - mean)",
                             found=f"raw data element(s) enter the covariance accumulation: {raw}")
            else:
                ck.ok(rule, inst, bd.path, bd.where(bb), render(v)[:120])
    if n == 0:
        ck.note(f"{inst}: no accumulated element product in PCA::fit (covariance obtained through a matrix operation); rule has no instance") \
            if hasattr(ck, "note") else None


def run(ck, prog):
    _run_pre_centred(ck, prog)
    centred_cov_pca(ck, prog)


# ------------------------------------------------------------------ per-row outputs: no state carried between row iterations
_run_pre_isolation = run
ISOLATION_FNS = [('PCA::transform', '^decomposition::pca::PCA::<T, M>::transform$')]


def run(ck, prog):
    _run_pre_isolation(ck, prog)
    from sa import isolation
    isolation.run_rule(ck, prog, ISOLATION_FNS, xarg=2)


EXPLANATION += (" Row-loop isolation (E2-isolation): in the `for i in 0..rows(x)` loop of PCA::transform every piece of state an "
                "iteration reads is completely re-defined earlier in the same iteration (fresh allocation, whole assignment, fill/clear/"
                "copy_row_as_vec, or a reset loop over the full length), except the loop iterator and the result container written "
                "at row i only: a buffer hoisted out of the loop and only partly reset makes the output for a row depend on the rows "
                "processed before it.")
TECHNIQUE += "; loop-carried-state (iteration isolation) rule on the row loops"


# ------------------------------------------------------------------ generic: rows/cols (outer/inner) mix-up of locally allocated buffers
_run_pre_dimension = run
DIMENSION_FILES = ['src/decomposition/pca.rs', 'src/decomposition/svd.rs', 'src/linalg/evd.rs', 'src/linalg/svd.rs']


def run(ck, prog):
    _run_pre_dimension(ck, prog)
    from sa import dimension
    dimension.run_rule(ck, prog, set(DIMENSION_FILES))


# ------------------------------------------------------------------ generic: signed counters are not cast to unsigned on their negative side
_run_pre_negcast = run


def run(ck, prog):
    _run_pre_negcast(ck, prog)
    from sa import negcast
    negcast.run_rule(ck, prog, set(DIMENSION_FILES))



# ------------------------------------------------------------------ generic: `while counter < bound` loops advance their counter
_run_pre_progress = run


def run(ck, prog):
    _run_pre_progress(ck, prog)
    from sa import progress
    progress.run_rule(ck, prog, set(DIMENSION_FILES))


# ------------------------------------------------------------------ generic: no magnitude is compared with a signed raw element
_run_pre_magnitude = run


def run(ck, prog):
    _run_pre_magnitude(ck, prog)
    from sa import magnitude
    magnitude.run_rule(ck, prog, set(DIMENSION_FILES))


# ------------------------------------------------------------------ generic: backward strided scans (`j -= step`) continue exactly while j >= step
_run_pre_subguard = run


def run(ck, prog):
    _run_pre_subguard(ck, prog)
    from sa import subguard
    subguard.run_rule(ck, prog, set(DIMENSION_FILES))


# ------------------------------------------------------------------ the EVD path (n <= p, correlation mode): tred2's skip branch (C02's rule)
_run_pre_tred2skip = run


def run(ck, prog):
    _run_pre_tred2skip(ck, prog)
    from props import C02
    C02.tred2_skip_branch(ck, prog)


EXPLANATION += (" EVD path: tred2's zero-scale branch reloads the work vector from a row it does not clear (C02's rule; a feature exactly "
                "uncorrelated with the others, or a constant column in wide data, takes that branch).")


# ------------------------------------------------------------------ generic: a configuration field read on one successful path is read on every successful path
_run_pre_config = run


def run(ck, prog):
    _run_pre_config(ck, prog)
    from sa import config
    config.run_rule(ck, prog, set(DIMENSION_FILES))


# ------------------------------------------------------------------ generic: the value tested against a bound is the value set to the bound (clamps)
_run_pre_clamp = run


def run(ck, prog):
    _run_pre_clamp(ck, prog)
    from sa import clamp
    clamp.run_rule(ck, prog, set(DIMENSION_FILES))


# ------------------------------------------------------------------ generic: an index variable of one range addresses one buffer with one stride
_run_pre_stride = run


def run(ck, prog):
    _run_pre_stride(ck, prog)
    from sa import stride
    stride.run_rule(ck, prog, set(DIMENSION_FILES))


# ------------------------------------------------------------------ PCA::fit does not reach the one-pass variance (known finding of C03)
_run_pre_onepass = run


def pca_avoids_one_pass_variance(ck, prog):
    """MatrixStats::{var, std} and BaseVector::{var, std} use the one-pass E[x^2] - E[x]^2 form (recorded finding of C03:
    cancellation when |mean| >> spread).  PCA centres its data and takes standard deviations from the diagonal of the centred
    covariance; routing the correlation scaling through std() makes diag(sd) * P non-orthonormal for columns on a large
    baseline.  Rule: nothing reachable from PCA::fit is one of those four functions."""
    from sa import flow
    rule, inst = "E2-reach", "PCA::fit does not reach the one-pass var / std (C03's recorded finding)"
    root = "decomposition::pca::PCA::<T, M>::fit"
    if root not in prog.bodies:
        ck.violation(rule, inst, root, "", expected="anchor exists", found="anchor vanished")
        return
    cg = flow.CallGraph(prog)
    reach = cg.reachable([root])
    bad = sorted(f for f in reach if f.endswith(("MatrixStats::var", "MatrixStats::std", "BaseVector::var", "BaseVector::std")))
    b = prog.bodies[root]
    direct = [(bb, t["f"]["path"]) for bb, t in b.calls() if t.get("f") and t["f"]["path"].endswith(("MatrixStats::var", "MatrixStats::std", "BaseVector::var", "BaseVector::std"))]
    if bad or direct:
        site = b.where(direct[0][0]) if direct else f"{b.loc[0]}:{b.loc[1]}"
        nm = direct[0][1] if direct else bad[0]
        ck.violation(rule, inst, root, site, expected="standard deviations come from the centred covariance (sqrt of its diagonal)",
                     found=f"{nm} is reachable from PCA::fit: one-pass variance, wrong for columns whose mean is large relative to their spread",
                     path=cg.path_to(root, bad[0]) if bad else None)
    else:
        ck.ok(rule, inst, root, f"{b.loc[0]}:{b.loc[1]}", f"{len(reach)} functions reachable, none is a one-pass variance routine")


def run(ck, prog):
    _run_pre_onepass(ck, prog)
    pca_avoids_one_pass_variance(ck, prog)


EXPLANATION += " PCA::fit reaches neither MatrixStats::{var, std} nor BaseVector::{var, std} (the one-pass variance recorded under C03)."



# ------------------------------------------------------------------ the EVD path at every data scale: E4 on the symmetric eigen-solver (C02's binding)
_run_pre_e4evd = run


def run(ck, prog):
    _run_pre_e4evd(ck, prog)
    from props import C01
    C01.run_e4(ck, prog, r"^linalg::evd::(tred2|tql2)$", ["tred2", "tql2"], floor=4)


EXPLANATION += (" EVD path: tred2 / tql2 compare data only with zero or with data-derived scales (E4; a `scale < epsilon` skip test drops the "
                "couplings of data measured in small units).")
