"""C14 PCA / truncated SVD: the transforms are row-wise affine maps (one clause only)."""
from sa import rowwise
from sa.mir import AnchorError
from sa.prov import Resolver, render, subterms

LEVEL = "other"
EXPLANATION = (
    "ONE clause of the statement is decided: 'both transforms are the row-wise affine maps x -> (x - mu)*P and x -> x*C, so "
    "transforming a stack of rows equals stacking the transforms'. Rule (non-interference across rows, on MIR provenance "
    "terms): in PCA::transform and SVD::transform the input matrix reaches the result only through row-preserving "
    "operations - as the left factor of matmul with a model field, element reads/writes, element-wise in-place ops with "
    "operands that do not depend on the input - and never through a reduction over rows (mean, column_mean, var, std, sum, "
    "norm, cov, ...); every other operand comes from the fitted model. A transform that centred or scaled with statistics "
    "of the batch being transformed would break the clause and the rule. Orthonormality, decorrelation, variance ordering "
    "and optimality of the captured variance are numerical and NOT decided."
)
TECHNIQUE = "static analysis of rustc MIR: row-wise non-interference (value provenance of the transform's result)"

FNS = [("PCA", r"^decomposition::pca::PCA::<T, M>::transform$", ("projection",)),
       ("SVD", r"^decomposition::svd::SVD::<T, M>::transform$", ("components",))]


def run(ck, prog):
    rule = "E2c-rowwise"
    for nm, fn, need in FNS:
        inst = f"{nm}::transform is a row-wise map of its input"
        try:
            b = prog.one(fn)
        except AnchorError as e:
            ck.violation(rule, inst, fn, "", expected="anchor exists", found=f"anchor vanished: {e}")
            continue
        uses, problems = rowwise.check(prog, b, 2)
        res = Resolver(b)
        ret = res.local(0)
        deps = {s[2] for s in subterms(ret) if s[0] == "field" and s[1][0] == "arg" and s[1][1] == 1}
        for f in need:
            if f not in deps:
                problems.append(f"the result does not depend on self.{f}")
        if not any(u[1] == "matmul" for u in uses):
            problems.append("the input is never multiplied with the projection")
        if problems:
            ck.violation(rule, inst, b.path, f"{b.loc[0]}:{b.loc[1]}", expected="row r of the result depends on row r of the input and on model fields only",
                         found="; ".join(problems))
        else:
            ck.ok(rule, inst, b.path, f"{b.loc[0]}:{b.loc[1]}", f"{len(uses)} uses of input-derived data, all row-wise: {sorted({u[1] for u in uses})}; model fields {sorted(deps)}")
    ck.floor(rule, 2)


_run_pre_builders = run


def run(ck, prog):
    _run_pre_builders(ck, prog)
    # every setting of the quantifier is reachable through the public builder chain: setters must not clobber other fields
    from sa.builders import check_builders
    check_builders(ck, prog, r"^decomposition::(pca::PCA|svd::SVD)Parameters$")
    ck.floor("E2-builder", 3)
