"""C18 one-hot encoding: the two error clauses."""
from sa import guards
from sa.e1 import BodyCtx
from sa.mir import AnchorError
from sa.prov import render, Resolver, subterms
from props.C16 import root_local

LEVEL = "other"
EXPLANATION = (
    "E1/E2: (1) OneHotEncoder::transform: every write into the result matrix is either a pass-through of x.get(r,c) or "
    "is dominated by the Some edge of the discriminant test of a CategoryMapper lookup (get_one_hot/get_num/get) whose "
    "None edge returns Err(..) on every path (no unwrap/expect/default on a lookup result, no write that bypasses the "
    "lookup). (2) OneHotEncoder::fit: the buffer validated by validate_col_is_categorical is the buffer filled from "
    "the column and the one the mapper is fitted on; the false edge of the validation returns Err on every path and the "
    "validation dominates the mapper fit; validate returns false whenever Categorizable::is_valid fails for an element; "
    "is_valid (f32, f64) compares a function of the value against a bound that does not depend on the value. "
    "Column placement (find_new_idxs) and the mapper's inverse maps are not decided."
)
TECHNIQUE = "static analysis of rustc MIR: discriminant-edge outcome rules, dominance, value provenance"

LOOKUPS = ("CategoryMapper::<C>::get_one_hot", "CategoryMapper::<C>::get_num", "CategoryMapper::<C>::get_cat")
OPTION_SINKS = ("::unwrap", "::expect", "::unwrap_or", "::unwrap_or_else", "::unwrap_or_default", "::unwrap_unchecked")


def closure_calls(prog, term, suffixes):
    """does the term mention a closure literal (or a direct call) invoking one of `suffixes`?"""
    for s in subterms(term):
        if s[0] == "call" and s[1].endswith(suffixes):
            return True
        if s[0] == "agg" and s[1].startswith("closure:"):
            cb = prog.get(s[1][len("closure:"):])
            nest = [cb] + [c for pth, c in prog.bodies.items() if pth.startswith(cb.path + "::{closure")] if cb else []
            for c in nest:                                  # the closure and the closures nested in it
                if any(t.get("f") and t["f"]["path"].endswith(suffixes) for _, t in c.calls()):
                    return True
    return False


def transform(ck, prog):
    rule = "E1-lookup-failure"
    try:
        b = prog.one(r"^preprocessing::categorical::OneHotEncoder::transform$")
    except AnchorError as e:
        ck.violation(rule, "transform", "transform", "", expected="anchor exists", found=f"anchor vanished: {e}")
        return
    cx = BodyCtx.of(b)
    res = cx.res
    # discriminant switches on lookup results
    lookups = []
    for i, blk in enumerate(b.blocks):
        t = blk["term"]
        if blk["cleanup"] or i not in b.reach or t["k"] != "switch" or t["o"]["k"] not in ("copy", "move"):
            continue
        term = res.operand(t["o"])
        if term[0] != "discr":
            continue
        ty = b.local_ty(_discr_local(b, t["o"]))
        if not ty.startswith("std::option::Option<"):
            continue
        v = term[1]
        # the scrutinee itself is the lookup result: strip the iterator item wrappers
        if _is_iter_next(v):
            continue
        if not closure_calls(prog, v, LOOKUPS):
            continue
        none_dst = [d for val, d in t["targets"] if val == "0"]
        some_dst = [d for val, d in t["targets"] if val == "1"]
        # `if let Some(..) = .. else ..` lists only one variant explicitly: the other one is the otherwise edge
        if not none_dst and some_dst:
            none_dst = [t["otherwise"]]
        if not some_dst:
            some_dst = [t["otherwise"]]
        lookups.append((i, none_dst[0] if none_dst else None, some_dst[0], term))
    # `lookup.ok_or(..)?` / `lookup.ok_or_else(|| ..)?`: None becomes Err and is propagated by `?`
    for bb, t in b.calls():
        f = t.get("f")
        if not (f and f["path"].startswith("std::option::Option") and f["path"].endswith(("::ok_or", "::ok_or_else")) and t["args"]):
            continue
        v = res.operand(t["args"][0])
        if not closure_calls(prog, v, LOOKUPS) or t["d"]["pr"]:
            continue
        dl = t["d"]["l"]
        for bb2, t2 in b.calls():
            f2 = t2.get("f")
            if f2 and f2["path"] == "std::ops::Try::branch" and t2["args"] and t2["args"][0]["k"] in ("move", "copy") and \
                    t2["args"][0]["p"]["l"] == dl and not t2["args"][0]["p"]["pr"]:
                nb = t2["t"]
                tt = b.blocks[nb]["term"]
                if tt["k"] == "switch":
                    brk = [d for val, d in tt["targets"] if val == "1"]
                    cont = [d for val, d in tt["targets"] if val == "0"]
                    if brk or cont:
                        lookups.append((nb, brk[0] if brk else tt["otherwise"], cont[0] if cont else tt["otherwise"], ("discr", v)))
    inst = "transform: unseen category (lookup None) -> Err"
    if not lookups:
        ck.violation(rule, inst, b.path, f"{b.loc[0]}:{b.loc[1]}", expected="a discriminant test on the result of a CategoryMapper lookup",
                     found="none found")
        return
    for (bb, nd, sd, term) in lookups:
        outs = guards.edge_outcomes(b, bb, nd, res) if nd is not None else set()
        if nd is not None and guards.outcome_ok(outs, "Err") and "panic" not in outs:
            ck.ok(rule, inst, b.path, b.where(bb), f"None edge -> {sorted(outs)}")
        else:
            ck.violation(rule, inst, b.path, b.where(bb), expected="the None edge returns Err on every path",
                         found=f"None edge outcomes {sorted(outs)}")
    # no defaulting/unwrapping of lookup results anywhere in transform or its closures
    inst2 = "transform: no unwrap/default on a lookup result"
    bodies = [b] + prog.closures_of.get(b.path, [])
    bad = []
    for bd in bodies:
        r2 = Resolver(bd)
        for bb, t in bd.calls():
            f = t.get("f")
            if f and f["path"].startswith("std::option::Option") and f["path"].endswith(OPTION_SINKS) and t["args"]:
                if closure_calls(prog, r2.operand(t["args"][0]), LOOKUPS):
                    bad.append(f"{f['path']} at {bd.where(bb)}")
    if bad:
        ck.violation(rule, inst2, b.path, bad[0].split(" at ")[1], expected="lookup failures are reported, not unwrapped or defaulted", found="; ".join(bad))
    else:
        ck.ok(rule, inst2, b.path, f"{b.loc[0]}:{b.loc[1]}", f"{len(bodies)} bodies scanned")
    # every write into the result is a pass-through or sits under a successful lookup
    inst3 = "transform: every write is a pass-through of x or dominated by a successful lookup"
    n = 0
    for bb, t in b.calls():
        f = t.get("f")
        if not (f and f["path"].endswith("BaseMatrix::set")):
            continue
        n += 1
        val = res.operand(t["args"][-1])
        passthrough = val[0] == "call" and val[1].endswith("BaseMatrix::get") and val[2][0][0] == "arg" and val[2][0][1] == 2
        under = any(b.dominates(sd, bb) and not (nd is not None and b.dominates(nd, bb)) for (_, nd, sd, _) in lookups)
        if passthrough or under:
            ck.ok(rule, inst3, b.path, b.where(bb), "pass-through" if passthrough else "under Some edge of a lookup")
        else:
            ck.violation(rule, inst3, b.path, b.where(bb), ordinal=n, expected="value written is x.get(..) or the write is dominated by a successful lookup",
                         found=f"writes `{render(val)[:100]}` without a lookup on the path")
    if n < 2:
        ck.violation(rule, inst3, b.path, "", expected="at least two writes (indicator columns, pass-through columns)", found=f"{n}")


def _discr_local(b, o):
    l = o["p"]["l"]
    ds = b.defs.get(l, [])
    if len(ds) == 1 and ds[0].kind == "assign" and ds[0].data["r"]["k"] == "discr":
        p = ds[0].data["r"]["p"]
        if not p["pr"]:
            return p["l"]
        # projection: type of the projected place is the last field's ty
        for e in reversed(p["pr"]):
            if isinstance(e, dict) and "ty" in e:
                class _T:  # fake local type holder
                    pass
                b.locals.append({"ty": e["ty"]})
                return len(b.locals) - 1
    return l


def _is_iter_next(v):
    return v[0] == "call" and v[1].endswith("Iterator::next")


def fit(ck, prog):
    rule = "E1-validation"
    try:
        b = prog.one(r"^preprocessing::categorical::OneHotEncoder::fit$")
        val = prog.one(r"^preprocessing::categorical::validate_col_is_categorical$")
    except AnchorError as e:
        ck.violation(rule, "fit", "fit", "", expected="anchors exist", found=f"anchor vanished: {e}")
        return
    cx = BodyCtx.of(b)
    inst = "fit: non-categorical column -> Err before the mapper is fitted"
    sws = [s for s in guards.bool_switches(b, cx.res) if s[1][0] == "call" and s[1][1].endswith("validate_col_is_categorical")]
    vcalls = [(bb, t) for bb, t in b.calls() if t.get("f") and t["f"]["path"].endswith("validate_col_is_categorical")]
    fits = [(bb, t) for bb, t in b.calls() if t.get("f") and t["f"]["path"].endswith(("CategoryMapper::<C>::fit_to_iter", "CategoryMapper::<C>::from_category_map", "CategoryMapper::<C>::from_positional_category_vec"))]
    fills = [(bb, t) for bb, t in b.calls() if t.get("f") and t["f"]["path"].endswith("BaseMatrix::copy_col_as_vec")]
    problems = []
    helper = None
    if not sws and not vcalls:
        # helper form: `check_col(.., &col_buf)?` where the helper turns a failed validation into Err
        from sa import e1
        for bb, t in b.calls():
            f = t.get("f")
            cal = None
            for key in ((f or {}).get("resolved"), (f or {}).get("path")):
                if key and key in prog.bodies:
                    cal = prog.bodies[key]
            if cal is None or cal is b or not e1._propagates_err(b, cx, bb, t):
                continue
            hx = BodyCtx.of(cal)
            hs = [s for s in guards.bool_switches(cal, hx.res) if s[1][0] == "call" and s[1][1].endswith("validate_col_is_categorical")]
            if len(hs) != 1:
                continue
            hb, hterm, htb, hfb = hs[0]
            outs = guards.edge_outcomes(cal, hb, hfb, hx.res)
            varg = hterm[2][0]
            if guards.outcome_ok(outs, "Err") and "panic" not in outs and varg[0] == "arg" and varg[1] - 1 < len(t["args"]):
                # continue edge of the `?`
                cont = None
                for bb2, t2 in b.calls():
                    f2 = t2.get("f")
                    if f2 and f2["path"] == "std::ops::Try::branch" and t2["args"][0]["k"] in ("move", "copy") and t2["args"][0]["p"] == {"l": t["d"]["l"], "pr": []}:
                        tt = b.blocks[t2["t"]]["term"]
                        if tt["k"] == "switch":
                            cont = ([d for v, d in tt["targets"] if v == "0"] or [None])[0]
                            brk = ([d for v, d in tt["targets"] if v == "1"] or [None])[0]
                if cont is not None:
                    helper = dict(call_bb=bb, pass_bb=cont, fail_bb=brk, buf=t["args"][varg[1] - 1], via=cal.path)
    if helper:
        vb = root_local(b, helper["buf"])
        fl = root_local(b, fills[0][1]["args"][-1]) if fills else None
        if not fits:
            problems.append("no CategoryMapper fit found")
        if not fills:
            problems.append("no column extraction (copy_col_as_vec) found")
        for bb, t in fits:
            if not (b.dominates(helper["pass_bb"], bb) and not b.dominates(helper["fail_bb"], bb)):
                problems.append(f"mapper fit at {b.where(bb)} is not dominated by a passed validation")
            if not _mentions_local(b, t["args"][0], vb):
                problems.append(f"mapper at {b.where(bb)} is not fitted on the validated buffer")
        if vb is None or vb != fl:
            problems.append(f"validated buffer (_{vb}) is not the buffer filled from the column (_{fl})")
        if fills and not b.dominates(fills[0][0], helper["call_bb"]):
            problems.append("the column is not extracted before it is validated")
        if problems:
            ck.violation(rule, inst, b.path, f"{b.loc[0]}:{b.loc[1]}", expected="validate(col) false -> Err; validation dominates the mapper fit; same buffer", found="; ".join(problems))
        else:
            ck.ok(rule, inst, b.path, b.where(helper["call_bb"]), f"via {helper['via']}: validate false -> Err, ?-propagated; dominates fit_to_iter; same buffer")
        problems = None
    elif len(sws) != 1 or len(vcalls) != 1:
        problems.append(f"expected one validation call and one branch on it, found {len(vcalls)}/{len(sws)}")
    if not fits:
        problems.append("no CategoryMapper fit found")
    if not fills:
        problems.append("no column extraction (copy_col_as_vec) found")
    if problems is not None and not problems:
        sb, _, tb, fb = sws[0]
        outs = guards.edge_outcomes(b, sb, fb, cx.res)
        if not (guards.outcome_ok(outs, "Err") and "panic" not in outs):
            problems.append(f"failed validation leads to {sorted(outs)}, not to Err on every path")
        for bb, t in fits:
            if not (b.dominates(tb, bb) and not b.dominates(fb, bb)):
                problems.append(f"mapper fit at {b.where(bb)} is not dominated by a passed validation")
        # same buffer: filled -> validated -> fitted
        vb = root_local(b, vcalls[0][1]["args"][0])
        fl = root_local(b, fills[0][1]["args"][-1])
        if vb is None or vb != fl:
            problems.append(f"validated buffer (_{vb}) is not the buffer filled from the column (_{fl})")
        if not b.dominates(fills[0][0], vcalls[0][0]):
            problems.append("the column is not extracted before it is validated")
        r = cx.res
        for bb, t in fits:
            arg = r.operand(t["args"][0])
            if not any(s == ("local", vb) or _mentions_local(b, t["args"][0], vb) for s in [arg]):
                problems.append(f"mapper at {b.where(bb)} is fitted on `{render(arg)[:80]}`, not on the validated buffer")
    if problems is None:
        pass
    elif problems:
        ck.violation(rule, inst, b.path, f"{b.loc[0]}:{b.loc[1]}", expected="validate(col) false -> Err; validation dominates the mapper fit; same buffer", found="; ".join(problems))
    else:
        ck.ok(rule, inst, b.path, b.where(sws[0][0]), "validate false -> Err; dominates fit_to_iter; same buffer")
    # validate_col_is_categorical: an element failing is_valid makes the result false
    inst2 = "validate_col_is_categorical: element fails is_valid -> false"
    vx = BodyCtx.of(val)
    isv = [s for s in guards.bool_switches(val, vx.res) if s[1][0] == "call" and s[1][1].endswith("Categorizable::is_valid")]
    ok = False
    detail = "no branch on Categorizable::is_valid(element)"
    direct = vx.res.local(0)
    if isv:
        sb, term, tb, fb = isv[0]
        outs = guards.edge_outcomes(val, sb, fb, vx.res)
        elem_ok = any(s[0] == "arg" and s[1] == 1 for s in subterms(term))
        ok = outs <= {"false"} and elem_ok
        detail = f"is_valid false edge -> {sorted(outs)}; element from the argument: {elem_ok}"
    else:
        # iterator form: data.iter().all(|v| v.is_valid())
        alls = [s for s in subterms(direct) if s[0] == "call" and s[1].endswith("Iterator::all")]
        if alls and closure_calls(prog, alls[0], ("Categorizable::is_valid",)) and any(s[0] == "arg" and s[1] == 1 for s in subterms(alls[0])):
            cl = [s for s in subterms(alls[0]) if s[0] == "agg" and s[1].startswith("closure:")]
            cb = prog.get(cl[0][1][len("closure:"):])
            cr = Resolver(cb).local(0)
            ok = cr[0] == "call" and cr[1].endswith("Categorizable::is_valid")
            detail = f"all(|v| {render(cr)[:60]})"
    if ok:
        ck.ok(rule, inst2, val.path, f"{val.loc[0]}:{val.loc[1]}", detail)
    else:
        ck.violation(rule, inst2, val.path, f"{val.loc[0]}:{val.loc[1]}", expected="returns false as soon as an element of the argument fails is_valid", found=detail)
    # is_valid: bound independent of the value
    for ty in ("f32", "f64"):
        inst3 = f"<{ty} as Categorizable>::is_valid: tolerance does not depend on the value"
        try:
            iv = prog.one(rf"^<{ty} as preprocessing::data_traits::Categorizable>::is_valid$")
        except AnchorError as e:
            ck.violation(rule, inst3, "is_valid", "", expected="anchor exists", found=f"anchor vanished: {e}")
            continue
        rt = Resolver(iv).local(0)
        c = guards._cond(None, rt)
        dep = lambda t: any(s[0] == "arg" and s[1] == 1 for s in subterms(t))
        if c and c[1] in ("<", "<=", ">", ">=") and (dep(c[0]) != dep(c[2])):
            ck.ok(rule, inst3, iv.path, f"{iv.loc[0]}:{iv.loc[1]}", f"{render(c[0])[:60]} {c[1]} {render(c[2])[:40]}")
        elif c and c[1] in ("==", "!=") and dep(c[0]) and dep(c[2]):
            ck.ok(rule, inst3, iv.path, f"{iv.loc[0]}:{iv.loc[1]}", f"exact test {render(rt)[:80]}")
        else:
            # `lo <= v && v <= hi && v.fract() == 0` lowers to control flow: the verdict is a phi of constants and one test;
            # judge every comparison of the body instead
            ivx = BodyCtx.of(iv)
            tests = [(c.lhs, c.rel, c.rhs) for c in ivx.cmps]
            alt_tests = [guards._cond(None, a) for a in (rt[2] if rt[0] == "phi" else ())]
            tests += [t for t in alt_tests if t]
            bad = [t for t in tests if t[1] in ("<", "<=", ">", ">=") and dep(t[0]) and dep(t[2])]
            if tests and not bad:
                ck.ok(rule, inst3, iv.path, f"{iv.loc[0]}:{iv.loc[1]}", f"{len(tests)} tests of the value against bounds independent of it")
            else:
                ck.violation(rule, inst3, iv.path, f"{iv.loc[0]}:{iv.loc[1]}",
                             expected="|value - integer part| compared with a bound that is independent of the value (or an exact equality test)",
                             found=f"returns `{render(rt)[:160]}`")


def _mentions_local(b, o, l):
    """does the operand's definition chain reference local l (through refs / iterator adaptors)?"""
    seen, work = set(), [o]
    while work:
        x = work.pop()
        if x["k"] not in ("copy", "move"):
            continue
        ll = x["p"]["l"]
        if ll == l:
            return True
        if ll in seen:
            continue
        seen.add(ll)
        for d in b.defs.get(ll, []):
            if d.kind == "assign":
                r = d.data["r"]
                if r["k"] in ("ref", "copyderef", "rawptr", "discr"):
                    work.append({"k": "copy", "p": r["p"]})
                elif r["k"] in ("use", "cast", "repeat"):
                    work.append(r["o"])
                elif r["k"] == "agg":
                    work.extend(r["ops"])
            else:
                work.extend(d.data["args"])
    return False


def run(ck, prog):
    transform(ck, prog)
    fit(ck, prog)
    ck.floor("E1-lookup-failure", 4)
    ck.floor("E1-validation", 4)


def order_agreement(ck, prog):
    """the i-th mapper belongs to the i-th stored column index: the index vector is brought into its final order
    BEFORE the mappers are built by iterating it (every in-place permutation of it dominates the loop)"""
    rule, inst = "E2-order", "fit: category_mappers[i] is built for col_idx_categorical[i]"
    try:
        b = prog.one(r"^preprocessing::categorical::OneHotEncoder::fit$")
    except AnchorError as e:
        ck.violation(rule, inst, "fit", "", expected="anchor exists", found=f"anchor vanished: {e}")
        return
    res = Resolver(b)
    stored = None
    for i, j, s in b.stmts():
        r = s["r"] if s["k"] == "assign" else None
        if r and r["k"] == "agg" and r.get("name", "").endswith("OneHotEncoder") and "col_idx_categorical" in r.get("fields", []):
            o = r["ops"][r["fields"].index("col_idx_categorical")]
            stored = (root_local(b, o), b.where(i, j), i)
    if not stored or stored[0] is None:
        ck.violation(rule, inst, b.path, f"{b.loc[0]}:{b.loc[1]}", expected="the constructor stores the index vector", found="not found")
        return
    idl = stored[0]
    PERM = ("::sort", "::sort_unstable", "::sort_by", "::sort_by_key", "::sort_unstable_by", "::reverse", "::swap", "::dedup", "::retain", "::rotate_left", "::rotate_right")
    perms = [d.bb for d in b.defs.get(idl, []) if d.kind == "mutcall" and d.data.get("f") and d.data["f"]["path"].endswith(PERM)]
    # the loop that builds the mappers iterates the same vector
    loops = [bb for bb, t in b.calls() if t.get("f") and t["f"]["path"].endswith("IntoIterator::into_iter") and _mentions_local(b, t["args"][0], idl)]
    fits = [bb for bb, t in b.calls() if t.get("f") and t["f"]["path"].endswith("CategoryMapper::<C>::fit_to_iter")]
    problems = []
    if not loops:
        problems.append("the mappers are not built by iterating the stored index vector")
    for pb in perms:
        if not all(b.dominates(pb, lb) for lb in loops):
            problems.append(f"the index vector is permuted at {b.where(pb)} after (or independently of) the loop that builds the mappers")
    if not all(any(b.dominates(lb, fb) for lb in loops) for fb in fits):
        problems.append("a mapper is fitted outside the loop over the index vector")
    if problems:
        ck.violation(rule, inst, b.path, stored[1], expected="sort (or any permutation) of the index vector happens before the mapper loop", found="; ".join(problems))
    else:
        ck.ok(rule, inst, b.path, stored[1], f"{len(perms)} in-place permutation(s), all before the loop")


_run_c18 = run


def run(ck, prog):
    _run_c18(ck, prog)
    order_agreement(ck, prog)
    ck.floor("E2-order", 1)


def every_column_encoded(ck, prog):
    """transform: within the loop over the categorical columns no path skips the per-row lookup loop
    (a constant column still gets its indicator column and still rejects unseen values)"""
    rule, inst = "E1-lookup-failure", "transform: every categorical column goes through the per-row lookup"
    try:
        b = prog.one(r"^preprocessing::categorical::OneHotEncoder::transform$")
    except AnchorError as e:
        ck.violation(rule, inst, "transform", "", expected="anchor exists", found=f"anchor vanished: {e}")
        return
    cx = BodyCtx.of(b)
    be = sorted(guards.back_edges(b))
    # the lookup discriminant switch (Some/None of a lookup result)
    sites = []
    for i, blk in enumerate(b.blocks):
        t = blk["term"]
        if blk["cleanup"] or i not in b.reach or t["k"] != "switch" or t["o"]["k"] not in ("copy", "move"):
            continue
        term = cx.res.operand(t["o"])
        if term[0] == "discr" and not _is_iter_next(term[1]) and closure_calls(prog, term[1], LOOKUPS):
            sites.append(i)
    if not sites:
        ck.violation(rule, inst, b.path, f"{b.loc[0]}:{b.loc[1]}", expected="a lookup inside the column loop", found="none")
        return
    s = sites[0]
    from sa.isolation import natural_loops as _nl
    _loops = _nl(b)
    # loops that CONTAIN the site (the header of a loop that merely precedes it dominates it as well)
    headers = sorted({h for h, nodes in _loops.items() if s in nodes}, key=lambda h: len(b.dom[h]))
    if len(headers) < 2:
        ck.violation(rule, inst, b.path, b.where(s), expected="a per-row loop inside the per-column loop", found=f"{len(headers)} enclosing loops")
        return
    outer, inner = headers[0], headers[-1]
    latches = [u for (u, h) in be if h == outer]
    if all(b.dominates(inner, u) for u in latches):
        ck.ok(rule, inst, b.path, b.where(s), "the per-row lookup loop dominates the column loop's latch")
    else:
        ck.violation(rule, inst, b.path, b.where(s), expected="no path of a column iteration bypasses the per-row lookup loop",
                     found="a column iteration can continue with the next column without looking its values up")


_run_c18b = run


def run(ck, prog):
    _run_c18b(ck, prog)
    every_column_encoded(ck, prog)
    ck.floor("E1-lookup-failure", 5)


# ------------------------------------------------------------------ per-row outputs: no state carried between row iterations
_run_pre_isolation = run
ISOLATION_FNS = [('OneHotEncoder::transform', '^preprocessing::categorical::OneHotEncoder::transform$')]


def run(ck, prog):
    _run_pre_isolation(ck, prog)
    from sa import isolation
    isolation.run_rule(ck, prog, ISOLATION_FNS, xarg=2)


EXPLANATION += (" Row-loop isolation (E2-isolation): in the `for i in 0..rows(x)` loop of OneHotEncoder::transform every piece of state an "
                "iteration reads is completely re-defined earlier in the same iteration (fresh allocation, whole assignment, fill/clear/"
                "copy_row_as_vec, or a reset loop over the full length), except the loop iterator and the result container written "
                "at row i only: a buffer hoisted out of the loop and only partly reset makes the output for a row depend on the rows "
                "processed before it.")
TECHNIQUE += "; loop-carried-state (iteration isolation) rule on the row loops"


# ------------------------------------------------------------------ generic: rows/cols (outer/inner) mix-up of locally allocated buffers
_run_pre_dimension = run
DIMENSION_FILES = ['src/preprocessing/categorical.rs', 'src/preprocessing/data_traits.rs', 'src/preprocessing/series_encoder.rs']


def run(ck, prog):
    _run_pre_dimension(ck, prog)
    from sa import dimension
    dimension.run_rule(ck, prog, set(DIMENSION_FILES))


# ------------------------------------------------------------------ running-difference scans telescope
_run_pre_telescope = run


def telescoping_scans(ck, prog):
    """Column placement: find_new_idxs cuts 0..p into the segments between categorical columns with a `scan` whose state is
    the previous boundary and whose item is `boundary - state`. Such a running difference covers 0..last boundary exactly
    (segment lengths telescope) only if the quantity stored as the new state is the very quantity the old state was
    subtracted from. If they differ by one, every later segment is one column too long and the columns behind the second
    categorical column are placed one expansion too early."""
    from sa.prov import Resolver, render
    rule = "E2-telescope"
    n = 0
    for path, b in sorted(prog.bodies.items()):
        if b.kind == "Closure" or not (b.loc and b.loc[0] == "src/preprocessing/categorical.rs"):
            continue
        res = Resolver(b)
        for bb, t in b.calls():
            f = t.get("f")
            if not (f and f["path"].endswith("Iterator::scan") and len(t["args"]) == 3):
                continue
            ct = res.operand(t["args"][2])
            if not (ct[0] == "agg" and ct[1].startswith("closure:")):
                continue
            cb = prog.get(ct[1][len("closure:"):])
            if cb is None or cb.arg_count < 3:
                continue
            cr = Resolver(cb)
            ret = cr.local(0)
            item = ret[2][0] if ret[0] in ("agg", "variant") and len(ret) > 2 and ret[2] and isinstance(ret[2], tuple) and ret[1].endswith("Some") else None
            if ret[0] == "variant":
                item = ret[1]
            if item is None or not (item[0] == "bin" and item[1] in ("Sub", "SubWithOverflow")):
                continue
            minuend, sub = item[2], item[3]
            if not (sub[0] == "arg" and sub[1] == 2):
                continue                                   # not `something - state`
            stores = [cr.rvalue(d.data["r"], 0, ()) for d in cb.partial_defs.get(2, []) if d.kind == "assign" and d.data["p"]["pr"] == ["*"]]
            if len(stores) != 1:
                continue
            n += 1
            inst = f"{b.name}: the running-difference scan stores what it subtracts from"
            if render(stores[0]) == render(minuend):
                ck.ok(rule, inst, cb.path, b.where(bb), f"item = `{render(minuend)}` - state; new state = `{render(stores[0])}`")
            else:
                ck.violation(rule, inst, cb.path, b.where(bb),
                             expected="new state == the minuend of the yielded difference (segment lengths telescope to the last boundary)",
                             found=f"yields `{render(minuend)} - state` but stores `{render(stores[0])}` as the next state: every segment after "
                                   f"the first is one element too long, so later columns receive the offset of the previous segment")
    if n == 0:
        ck.note("E2-telescope: no running-difference scan in preprocessing/categorical.rs: no instance")


def run(ck, prog):
    _run_pre_telescope(ck, prog)
    telescoping_scans(ck, prog)


EXPLANATION += (" Telescoping (E2-telescope): a `scan` in categorical.rs that yields `boundary - state` stores that same boundary "
                "as its next state, so the segment lengths between categorical columns add up to the column count (found and fixed: "
                "find_new_idxs stored v after yielding v + 1 - state).")


# ------------------------------------------------------------------ generic: signed counters are not cast to unsigned on their negative side
_run_pre_negcast = run


def run(ck, prog):
    _run_pre_negcast(ck, prog)
    from sa import negcast
    negcast.run_rule(ck, prog, set(DIMENSION_FILES))


# ------------------------------------------------------------------ transform validates what it looks up
_run_pre_tvalid = run


def transform_validates(ck, prog):
    """'Transforming a value that was not seen during fitting ... returns an error.' The lookup key is `value.to_category()`,
    a saturating float-to-u16 cast: 1.5 becomes 1, -7 and NaN become 0, 70000 becomes 65535. Unless the value is validated
    first (`is_valid()`: it equals its own category code), an unseen value is silently mapped onto a seen category. Rule: in
    transform and its closures every `to_category()` of a cell of x sits on the true edge of `is_valid()` of the same value."""
    from sa.prov import Resolver, render
    rule, inst = "E1-validation", "transform: a value is validated before it is converted to its category code"
    try:
        b = prog.one(r"^preprocessing::categorical::OneHotEncoder::transform$")
    except AnchorError as e:
        ck.violation(rule, inst, "transform", "", expected="anchor exists", found=f"anchor vanished: {e}")
        return
    bodies, stack = [b], list(prog.closures_of.get(b.path, []))
    while stack:
        c = stack.pop()
        bodies.append(c)
        stack.extend(prog.closures_of.get(c.path, []))
    n = 0
    for bd in bodies:
        rs = Resolver(bd)
        sw = guards.bool_switches(bd, rs)
        for bb, t in bd.calls():
            f = t.get("f")
            if not (f and f["path"].endswith("Categorizable::to_category") and t["args"]):
                continue
            n += 1
            v = rs.operand(t["args"][0])
            ok = False
            for (sb, term, tb, fb) in sw:
                if term[0] == "call" and term[1].endswith("Categorizable::is_valid") and term[2] and term[2][0] == v:
                    if bd.dominates(tb, bb) and not bd.dominates(fb, bb):
                        ok = True
            if ok:
                ck.ok(rule, inst, bd.path, bd.where(bb), f"`{render(v)[:60]}`.to_category() under is_valid()")
            else:
                ck.violation(rule, inst, bd.path, bd.where(bb), ordinal=n,
                             expected="to_category() only on the true edge of is_valid() of the same value",
                             found=f"`{render(v)[:60]}` is cast to its category code without validation: a non-integer, negative, NaN or too "
                                   f"large value is truncated/saturated onto a category seen in fit instead of being reported")
    if n == 0:
        ck.note(f"{inst}: no to_category() call in transform (lookup keyed differently): no instance")


def run(ck, prog):
    _run_pre_tvalid(ck, prog)
    transform_validates(ck, prog)


EXPLANATION += (' transform: every to_category() of a cell sits on the true edge of is_valid() of the same value (found and fixed: unseen non-integer / negative / NaN / too large values were saturated onto seen categories).')


# ------------------------------------------------------------------ generic: `while counter < bound` loops advance their counter
_run_pre_progress = run


def run(ck, prog):
    _run_pre_progress(ck, prog)
    from sa import progress
    progress.run_rule(ck, prog, set(DIMENSION_FILES))


# ------------------------------------------------------------------ transform returns the matrix it built
_run_pre_retx = run


def transform_returns_result(ck, prog):
    """Every successful return of transform is the freshly built result matrix: no path hands back (a clone of) the input -
    a 'nothing to expand' fast path skips the indicator values and the unseen-value check for single-category columns."""
    from sa.prov import Resolver, render, alts, subterms
    rule, inst = "E1-lookup-failure", "transform: no path returns the input matrix instead of the encoded one"
    try:
        b = prog.one(r"^preprocessing::categorical::OneHotEncoder::transform$")
    except AnchorError as e:
        ck.violation(rule, inst, "transform", "", expected="anchor exists", found=f"anchor vanished: {e}")
        return
    res = Resolver(b)
    ret = res.local(0)
    bad = []
    for a in [ret] + list(alts(ret)):
        pay = a
        while pay[0] in ("agg", "variant") and len(pay) > 2 and isinstance(pay[2], tuple) and pay[2]:
            pay = pay[2][0]
        for x in [pay] + list(alts(pay)):
            if x[0] == "arg" and x[1] == 2:
                bad.append(render(a)[:60])
    if bad:
        ck.violation(rule, inst, b.path, f"{b.loc[0]}:{b.loc[1]}", expected="Ok(result) with result built from zeros(..) by the encoding loops",
                     found=f"some path returns `{bad[0]}`: the input itself (categorical columns not encoded, values not checked)")
    else:
        ck.ok(rule, inst, b.path, f"{b.loc[0]}:{b.loc[1]}", "no return value is the input argument")


def run(ck, prog):
    _run_pre_retx(ck, prog)
    transform_returns_result(ck, prog)


EXPLANATION += (' transform never returns its input instead of the encoded matrix.')


# ------------------------------------------------------------------ generic: no magnitude is compared with a signed raw element
_run_pre_magnitude = run


def run(ck, prog):
    _run_pre_magnitude(ck, prog)
    from sa import magnitude
    magnitude.run_rule(ck, prog, set(DIMENSION_FILES))


# ------------------------------------------------------------------ generic: backward strided scans (`j -= step`) continue exactly while j >= step
_run_pre_subguard = run


def run(ck, prog):
    _run_pre_subguard(ck, prog)
    from sa import subguard
    subguard.run_rule(ck, prog, set(DIMENSION_FILES))


# ------------------------------------------------------------------ generic: a configuration field read on one successful path is read on every successful path
_run_pre_config = run


def run(ck, prog):
    _run_pre_config(ck, prog)
    from sa import config
    config.run_rule(ck, prog, set(DIMENSION_FILES))


# ------------------------------------------------------------------ generic: the value tested against a bound is the value set to the bound (clamps)
_run_pre_clamp = run


def run(ck, prog):
    _run_pre_clamp(ck, prog)
    from sa import clamp
    clamp.run_rule(ck, prog, set(DIMENSION_FILES))


# ------------------------------------------------------------------ generic: an index variable of one range addresses one buffer with one stride
_run_pre_stride = run


def run(ck, prog):
    _run_pre_stride(ck, prog)
    from sa import stride
    stride.run_rule(ck, prog, set(DIMENSION_FILES))


# ------------------------------------------------------------------ transform: the copy-through loop skips exactly the declared categorical columns
_run_pre_skipset = run


def copy_through_skips_declared(ck, prog):
    """Which input columns are copied through unchanged is decided by membership in col_idx_categorical - the declaration -
    and by nothing derived from the data (a column with a single category expands to ONE indicator column: its output span is
    1, like a pass-through column, so a span-based skip overwrites the all-ones indicator with the raw code).  Rule: some
    test that gates the copy `res[r][new] = x[r][old]` (one of its edges reaches the copy within the iteration, the other
    does not) compares / consults a value obtained from self.col_idx_categorical other than through find_new_idxs."""
    rule, inst = "E1-gate", "OneHotEncoder::transform: the copy-through loop skips a column iff it is in col_idx_categorical"
    try:
        b = prog.one(r"^preprocessing::categorical::OneHotEncoder::transform$")
    except AnchorError as e:
        ck.violation(rule, inst, "OneHotEncoder::transform", "", expected="anchor exists", found=f"anchor vanished: {e}")
        return
    cx = BodyCtx.of(b)
    res = cx.res

    def declared(t, depth=0):
        if depth > 40:
            return False
        if t[0] == "field" and t[2] == "col_idx_categorical":
            return True
        if t[0] == "call" and t[1].split("::")[-1] == "find_new_idxs":
            return False
        for x in t[1:]:
            if isinstance(x, tuple):
                if x and isinstance(x[0], str):
                    if declared(x, depth + 1):
                        return True
                else:
                    for y in x:
                        if isinstance(y, tuple) and y and isinstance(y[0], str) and declared(y, depth + 1):
                            return True
        return False
    copies = []
    for bb, t in b.calls():
        f = t.get("f")
        if f and f["path"].split("::")[-1] == "set" and len(t["args"]) == 4:
            v = res.operand(t["args"][3])
            if v[0] == "call" and v[1].split("::")[-1] == "get" and v[2] and v[2][0][0] == "arg":
                copies.append(bb)
    if not copies:
        ck.note(f"{inst}: no copy `res.set(r, new, x.get(r, old))` recognised: no instance")
        return
    be = guards.back_edges(b)
    gates, decl = [], []
    tests = [(c.bb, c.true_bb, c.false_bb, (c.lhs, c.rhs), c.where) for c in cx.cmps]
    tests += [(bb, tb, fb, (term,), b.where(bb)) for (bb, term, tb, fb) in guards.bool_switches(b, res)]
    for i, blk in enumerate(b.blocks):                          # `if let Some(..) = it.next()` style option tests
        t = blk["term"]
        if i in b.reach and t["k"] == "switch" and len(t["targets"]) == 1:
            d = res.operand(t["o"])
            if d[0] == "discr":
                tests.append((i, t["targets"][0][1], t["otherwise"], (d,), b.where(i)))
    for (bb, tb, fb, terms, where) in tests:
        r1 = bool(b.reachable_from([tb], cut_edges=be) & set(copies))
        r2 = bool(b.reachable_from([fb], cut_edges=be) & set(copies))
        if r1 != r2 and any(b.dominates(bb, c) or True for c in copies):
            # only tests inside the loop that contains the copy
            gates.append(where)
            if any(declared(t) for t in terms):
                decl.append(where)
    if decl:
        ck.ok(rule, inst, b.path, decl[0], f"{len(gates)} gating test(s), {len(decl)} on values taken from col_idx_categorical")
    else:
        ck.violation(rule, inst, b.path, b.where(copies[0]), expected="a column is skipped exactly when its index is in self.col_idx_categorical",
                     found=f"no test that gates the copy consults col_idx_categorical (gating tests at {gates[:3]}): the skip is decided by something else")


def run(ck, prog):
    _run_pre_skipset(ck, prog)
    copy_through_skips_declared(ck, prog)


EXPLANATION += (" transform: the copy-through of non-categorical columns is gated by a test on values taken from col_idx_categorical "
                "(not by the output span, which is 1 for a single-category column too).")


# ------------------------------------------------------------------ is_valid: a value is valid only if the category code represents it
_run_pre_isvalid = run


def is_valid_round_trips(ck, prog):
    """transform rejects a value exactly when it is not its own category code, and 'fitting a column with non-integer
    values returns an error'.  to_category truncates and saturates (2.0005 -> 2, negative -> 0, > 65535 -> 65535, NaN -> 0),
    so (a) the verdict depends on the category code of the value - to_category(self) or a cast of self to an integer type
    (round trip) - or on explicit range tests of self on both sides, and (b) the round trip is compared EXACTLY: no ordering
    comparison puts a tolerance on the difference between the value and its code (with `|code - v| < 0.001` the value 2.0005
    is merged into category 2 while 1.9995 is rejected)."""
    rule = "E2-provenance"
    bodies = prog.find(r"Categorizable>::is_valid$")
    if not bodies:
        ck.violation(rule, "Categorizable::is_valid exists", "is_valid", "", expected="anchor exists", found="anchor vanished")
        return
    is_self = lambda x: x[0] == "arg" and x[1] == 1
    for b in bodies:
        ty = b.path.split(" as ")[0].lstrip("<")
        inst = f"<{ty}>::is_valid: exact round trip through the category code (or two-sided range test)"
        res = Resolver(b)
        r = res.local(0)
        subs = list(subterms(r))
        rt = any((s[0] == "call" and s[1].split("::")[-1] == "to_category") or
                 (s[0] == "cast" and len(s) >= 4 and s[3] == "FloatToInt" and any(is_self(x) for x in subterms(s[1]))) for s in subs)
        rng = any(s[0] == "call" and s[1].split("::")[-1] == "contains" for s in subs)
        cmps = [s for s in subs if s[0] == "bin" and s[1] in ("Lt", "Le", "Gt", "Ge")]
        # range tests joined by `&&` are control flow, not part of the returned term: take the body's comparisons too
        OPS = {"<": "Lt", "<=": "Le", ">": "Gt", ">=": "Ge"}
        cmps += [("bin", OPS[c.rel], c.lhs, c.rhs) for c in BodyCtx.of(b).cmps if c.rel in OPS]
        direct = [s for s in cmps if is_self(s[2]) or is_self(s[3])]
        tol = [s for s in cmps if any(any(y[0] == "bin" and y[1] == "Sub" for y in subterms(side)) and any(is_self(y) for y in subterms(side))
                                      for side in (s[2], s[3]))]
        site = f"{b.loc[0]}:{b.loc[1]}"
        if tol:
            ck.violation(rule, inst, b.path, site, expected="code as T == self (exact)",
                         found=f"`{render(tol[0])[:100]}`: a tolerance on |code - value| accepts non-integer values just above an integer (2.0005 is encoded as category 2)")
        elif rt or rng or len(direct) >= 2:
            ck.ok(rule, inst, b.path, site, "exact round trip through the category code" if rt else "explicit range test")
        else:
            ck.violation(rule, inst, b.path, site, expected="to_category(self) as T == self, or 0 <= self <= 65535 and integral",
                         found=f"`{render(r)[:100]}` never consults the category code: integral values outside the code range count as valid and saturate to category 0 / 65535")


def run(ck, prog):
    _run_pre_isvalid(ck, prog)
    is_valid_round_trips(ck, prog)


EXPLANATION += " is_valid compares the value with its category code exactly (round trip through to_category / an integer cast, no tolerance; found and fixed: 2.0005 accepted as category 2) or uses a two-sided range test."
