"""C12 k-means: predict is an arg-min over squared Euclidean distances; BBD tree reads rows through its index table."""
from sa import guards
from sa.e1 import BodyCtx
from sa.mir import AnchorError
from sa.prov import Resolver, render, subterms, alts
from sa import flow

LEVEL = "other"
EXPLANATION = (
    "Structural clauses only. (A) 'predicting assigns every row to a centroid at minimal Euclidean distance'. Rules "
    "on the MIR of KMeans::predict (arg-min structure): (1) the compared quantity is Euclidian::squared_distance(row, "
    "self.centroids[j]) where `row` is the buffer filled from input row i (copy_row_as_vec(i, row)) and j the centroid loop "
    "variable; (2) the running minimum starts from max_value()/infinity() or a computed distance and is replaced exactly on "
    "the edge asserting dist < running minimum (or <=), together with the recorded cluster index, which is set to the same j; "
    "(3) the value stored for row i is the recorded index of that same row iteration. (B) In BBDTree::build_node every row of "
    "the data argument is read as index[position] - the tree permutes self.index while splitting, so a read at a raw position "
    "of begin..end attaches another row's coordinates to the node (wrong sums/boxes for the tree-accelerated assignment). "
    "(C) Parameter builders change only their own field. The centroid/mean identities of fit, "
    "the cluster sizes and the agreement of the tree-accelerated assignment with exhaustive search are numerical/geometric and "
    "NOT decided."
)
TECHNIQUE = "static analysis of rustc MIR: arg-min structure rule (gate + provenance) on KMeans::predict, index-indirection provenance rule on BBDTree::build_node, builder field-preservation rule"


def _argmin_fold(prog, b, res, is_dist):
    """fold form of the arg-min: `(0..k).fold((max, 0), |(min, best), j| { let d = dist(row, centroids[j]); if d < min
    { (d, j) } else { (min, best) } })` with component 1 of the result stored as the label.  Returns None if there is no
    such fold, else (ok, site, detail)."""
    from sa.prov import alts as _alts
    for bb, t in b.calls():
        f = t.get("f")
        if not (f and f["path"].endswith("Iterator::fold") and len(t["args"]) == 3):
            continue
        init, clo = res.operand(t["args"][1]), res.operand(t["args"][2])
        if not (clo[0] == "agg" and clo[1].startswith("closure:")):
            continue
        cb = prog.get(clo[1][len("closure:"):])
        if cb is None:
            continue
        ccx = BodyCtx.of(cb)
        hit = None
        for c in ccx.cmps:
            for (L, R, rel) in ((c.lhs, c.rhs, c.rel), (c.rhs, c.lhs, guards.FLIP[c.rel])):
                if is_dist(L) and any(s[0] == "arg" and s[1] == 2 for s in subterms(R)):
                    hit = (c, L, R, rel)
        if not hit:
            continue
        c, L, R, rel = hit
        site = c.where
        problems = []
        # distance operands: a centroid indexed by the item, and a row of the input
        cents = [a for a in L[2] if any(s[0] == "field" and s[2] == "centroids" for s in subterms(a)) or any(s[0] == "upvar" for s in subterms(a))]
        item_idx = any(s[0] == "idx" and any(x[0] == "arg" and x[1] == 3 for x in subterms(s[2])) for a in L[2] for s in subterms(a))
        if not item_idx:
            problems.append("the distance is not taken to the centroid indexed by the fold's item")
        # seed
        if not (init[0] == "agg" and init[2] and init[2][0][0] == "call" and init[2][0][1].endswith(("::max_value", "::infinity"))):
            problems.append(f"the running minimum starts from `{render(init)[:50]}`")
        # the tuple (dist, item) is produced on the strict dist < min edge only
        upd = []
        for i, j, st in cb.stmts():
            if st["k"] == "assign" and st["r"]["k"] == "agg" and len(st["r"].get("ops", [])) == 2:
                v0 = ccx.res.operand(st["r"]["ops"][0])
                v1 = ccx.res.operand(st["r"]["ops"][1])
                if v0 == L and any(s[0] == "arg" and s[1] == 3 for s in [v1] + list(subterms(v1))):
                    upd.append(i)
        if not upd:
            problems.append("no branch returns (distance, item)")
        else:
            atoms = set()
            for er, dst, other in ((rel, c.true_bb, c.false_bb), (guards.NEG[rel], c.false_bb, c.true_bb)):
                if any(cb.dominates(dst, u) and not cb.dominates(other, u) for u in upd):
                    atoms |= guards.ATOMS[er]
            if not (atoms <= frozenset("nz") and "n" in atoms):
                problems.append(f"(distance, item) is returned under atoms {sorted(atoms)} of sign(dist - min): expected dist < min")
        # component 1 of the fold result is what is stored
        st = flow.label_stores(b, res, ("BaseMatrix::set", "BaseVector::set"))
        folded = lambda v: any(s[0] == "field" and s[2] == "1" and any(x[0] == "call" and x[1].endswith("Iterator::fold") for x in [s[1]] + list(_alts(s[1])))
                               for s in subterms(v))
        if not st or not all(folded(v) for _, v in st):
            problems.append("the stored label is not component 1 of the fold result")
        if problems:
            return (False, site, "; ".join(problems))
        return (True, site, f"`{render(L)[:50]} {rel} {render(R)[:30]}` selects (dist, item); seed {render(init)[:30]}")
    return None


def run(ck, prog):
    rule, inst = "E1-argmin", "KMeans::predict picks the centroid with the smallest squared Euclidean distance to the row"
    try:
        b = prog.one(r"^cluster::kmeans::KMeans::<T>::predict$")
    except AnchorError as e:
        ck.violation(rule, inst, "KMeans::predict", "", expected="anchor exists", found=f"anchor vanished: {e}")
        return
    cx = BodyCtx.of(b)
    res = cx.res
    problems = []
    is_dist = lambda t: t[0] == "call" and t[1].endswith("Euclidian::squared_distance")
    site = f"{b.loc[0]}:{b.loc[1]}"
    hit = None
    for c in cx.cmps:
        for (L, R, rel) in ((c.lhs, c.rhs, c.rel), (c.rhs, c.lhs, guards.FLIP[c.rel])):
            if is_dist(L) and R[0] == "phi":
                hit = (c, L, R, rel)
    if not hit:
        r = _argmin_fold(prog, b, res, is_dist)
        if r is None:
            ck.violation(rule, inst, b.path, site, expected="a comparison of the squared Euclidean distance with the running minimum", found="none found")
        elif r[0]:
            ck.ok(rule, inst, b.path, r[1], "fold form: " + r[2])
        else:
            ck.violation(rule, inst, b.path, r[1], expected="fold((max, _), |(min, best), j| if d(row, c_j) < min { (d, j) } else { (min, best) }).1 is stored",
                         found=r[2])
        return
    c, L, R, rel = hit
    site = c.where
    # (1) operands of the distance: the row buffer and centroid j
    a0, a1 = L[2]
    cent = a1 if any(s[0] == "field" and s[2] == "centroids" for s in subterms(a1)) else a0
    rowb = a0 if cent is a1 else a1
    if not (cent[0] == "idx" and cent[1][0] == "field" and cent[1][2] == "centroids" and cent[1][1][0] == "arg" and cent[1][1][1] == 1):
        problems.append(f"the distance is not taken to self.centroids[j]: `{render(cent)[:60]}`")
    j = cent[2] if cent[0] == "idx" else None
    fills = [(bb, t) for bb, t in b.calls() if t.get("f") and t["f"]["path"].endswith("BaseMatrix::copy_row_as_vec")]
    row_ok = False
    for bb, t in fills:
        src = res.operand(t["args"][0])
        if src[0] == "arg" and src[1] == 2:
            row_ok = True
            row_i = res.operand(t["args"][1])
    if not row_ok and not any(s[0] == "call" and s[1].endswith(("get_row_as_vec", "get_row")) and s[2][0][0] == "arg" and s[2][0][1] == 2 for s in subterms(rowb)):
        problems.append("the compared vector is not a row of the input")
    # (2) seed and update edge of the running minimum
    seeds = [a for a in R[2] if not (a == L or (a[0] == "call" and a[1].startswith("mut:")))]
    for s in seeds:
        good = (s[0] == "call" and s[1].endswith(("::max_value", "::infinity")) and not s[2]) or is_dist(s)
        if not good:
            problems.append(f"the running minimum starts from `{render(s)[:40]}`")
    upd = [d.bb for d in b.defs.get(R[1], []) if d.kind == "assign" and res.rvalue(d.data["r"], 0, ()) == L]
    be = guards.back_edges(b)
    atoms = set()
    for er, dst, other in ((rel, c.true_bb, c.false_bb), (guards.NEG[rel], c.false_bb, c.true_bb)):
        reach = b.reachable_from([dst], cut_edges=be, cut_blocks=frozenset([other]))
        if any(u in reach for u in upd):
            atoms |= guards.ATOMS[er]
    if not upd:
        problems.append("the running minimum is never replaced by the compared distance")
    elif not (atoms <= frozenset("nz") and "n" in atoms):
        problems.append(f"the running minimum is replaced under atoms {sorted(atoms)} of sign(dist - min): expected dist < min")
    # (3) the stored label is a variable that is set to the centroid loop variable j on the very edge that replaces the minimum
    st = flow.label_stores(b, res, ("BaseMatrix::set", "BaseVector::set"))
    if not st:
        problems.append("no store into the returned vector")
    upd_region = set()
    for er, dst, other in ((rel, c.true_bb, c.false_bb), (guards.NEG[rel], c.false_bb, c.true_bb)):
        reach = b.reachable_from([dst], cut_edges=be, cut_blocks=frozenset([other]))
        if any(u in reach for u in upd):
            upd_region |= reach
    for bb, v in st:
        phis = [s for s in subterms(v) if s[0] == "phi" and j is not None and any(a == j for a in s[2])]
        if not phis:
            problems.append(f"the stored label `{render(v)[:60]}` is not the recorded arg-min index (a variable set to the centroid loop variable)")
            continue
        l = phis[0][1]
        sets_j = [d.bb for d in b.defs.get(l, []) if d.kind == "assign" and res.rvalue(d.data["r"], 0, ()) == j]
        if not sets_j or not all(x in upd_region for x in sets_j):
            problems.append("the recorded index is not updated together with (only when) the running minimum is")
    if problems:
        ck.violation(rule, inst, b.path, site, expected="argmin_j squared_distance(row_i, centroids[j]) recorded and stored for row i", found="; ".join(problems))
    else:
        ck.ok(rule, inst, b.path, site, f"`{render(L)[:70]} {rel} running minimum`; index recorded on the same edge and stored")
    ck.floor(rule, 1)


_run_pre_builders = run


def run(ck, prog):
    _run_pre_builders(ck, prog)
    # every setting of the quantifier is reachable through the public builder chain: setters must not clobber other fields
    from sa.builders import check_builders
    check_builders(ck, prog, r"^cluster::kmeans::KMeansParameters$")
    ck.floor("E2-builder", 2)


# ------------------------------------------------------------------ BBD tree: rows are reached through the permuted index table
_run_pre_indirection = run
ROW_READS = ("BaseMatrix::get", "BaseMatrix::get_row", "BaseMatrix::get_row_as_vec", "BaseMatrix::copy_row_as_vec")


def _is_position(t):
    """positively identified raw position: a Range loop variable or arithmetic on the begin/end arguments, with no
    look-up through self.index"""
    has_index = any(s[0] == "field" and s[2] == "index" for s in subterms(t))
    if has_index:
        return False
    for s in subterms(t):
        if s[0] == "agg" and s[1].endswith(("Range::Range", "RangeInclusive::new")):
            return True
        if s[0] == "call" and s[1].endswith("RangeInclusive::<Idx>::new"):
            return True
    return t[0] == "arg" or (t[0] == "bin" and all(x[0] in ("arg", "int") for x in t[2:4]))


def index_indirection(ck, prog):
    rule, inst = "E2-indirection", "BBDTree reads data rows through self.index"
    n = 0
    for fn in (r"^algorithm::neighbour::bbd_tree::BBDTree::<T>::build_node$",):
        try:
            b = prog.one(fn)
        except AnchorError as e:
            ck.violation(rule, inst, fn, "", expected="anchor exists", found=f"anchor vanished: {e}")
            continue
        for bd in [b] + prog.closures_of.get(b.path, []):
            rs = Resolver(bd)
            for bb, t in bd.calls():
                f = t.get("f")
                if not (f and f["path"].endswith(ROW_READS)) or len(t["args"]) < 2:
                    continue
                base = rs.operand(t["args"][0])
                if not any(a[0] in ("arg", "upvar") for a in alts(base)):
                    continue                       # a local matrix, not the data argument
                row = rs.operand(t["args"][1])
                n += 1
                if _is_position(row):
                    ck.violation(rule, inst, bd.path, bd.where(bb), ordinal=n,
                                 expected="the row read is index[position]: the tree permutes self.index, positions begin..end are not row numbers",
                                 found=f"row `{render(row)[:80]}` is a raw position (no look-up through self.index)")
                else:
                    ck.ok(rule, inst, bd.path, bd.where(bb), f"row {render(row)[:80]}")
    ck.floor(rule, 1)


def run(ck, prog):
    _run_pre_indirection(ck, prog)
    index_indirection(ck, prog)


# ------------------------------------------------------------------ per-row outputs: no state carried between row iterations
_run_pre_isolation = run
ISOLATION_FNS = [('KMeans::predict', '^cluster::kmeans::KMeans::<T>::predict$')]


def run(ck, prog):
    _run_pre_isolation(ck, prog)
    from sa import isolation
    isolation.run_rule(ck, prog, ISOLATION_FNS, xarg=2)


EXPLANATION += (" Row-loop isolation (E2-isolation): in the `for i in 0..rows(x)` loop of KMeans::predict every piece of state an "
                "iteration reads is completely re-defined earlier in the same iteration (fresh allocation, whole assignment, fill/clear/"
                "copy_row_as_vec, or a reset loop over the full length), except the loop iterator and the result container written "
                "at row i only: a buffer hoisted out of the loop and only partly reset makes the output for a row depend on the rows "
                "processed before it.")
TECHNIQUE += "; loop-carried-state (iteration isolation) rule on the row loops"


# ------------------------------------------------------------------ generic: rows/cols (outer/inner) mix-up of locally allocated buffers
_run_pre_dimension = run
DIMENSION_FILES = ['src/algorithm/neighbour/bbd_tree.rs', 'src/cluster/kmeans.rs', 'src/math/distance/euclidian.rs']


def run(ck, prog):
    _run_pre_dimension(ck, prog)
    from sa import dimension
    dimension.run_rule(ck, prog, set(DIMENSION_FILES))


# ------------------------------------------------------------------ generic: signed counters are not cast to unsigned on their negative side
_run_pre_negcast = run


def run(ck, prog):
    _run_pre_negcast(ck, prog)
    from sa import negcast
    negcast.run_rule(ck, prog, set(DIMENSION_FILES))


# ------------------------------------------------------------------ BBD tree: proper partitions at every scale
_run_pre_cutoff = run


def bbd_partition(ck, prog):
    """'The tree-accelerated assignment step ... produces, for any set of centroids, an assignment ...': build_node splits the
    rows of a node at the midpoint of their extreme values along the widest dimension (rows below the cut-off go down).
    For adjacent floating-point extremes the midpoint rounds down to the lower bound: no row is below it, the lower half
    is empty and the recursion never ends (stack overflow, or `attempt to subtract with overflow` at index 0). Necessary
    condition: the cut-off used by the partition is selected under a comparison of the midpoint with a bound.
    Scale: a node is a leaf by a zero test of its radius, not by an absolute constant (E4): with `radius < 1e-10` a whole
    data set of small magnitude collapses into one leaf."""
    rule, inst = "E1-guard", "BBDTree::build_node: the split cut-off is the midpoint only if that lies above the lower bound"
    b = prog.bodies.get("algorithm::neighbour::bbd_tree::BBDTree::<T>::build_node")
    if b is None:
        ck.violation(rule, inst, "build_node", "", expected="anchor exists", found="anchor vanished")
        return
    cx = BodyCtx.of(b)
    res = cx.res
    # the cut-off: right-hand side of the comparisons whose other side is a data element read through self.index
    is_elem = lambda t: t[0] == "call" and t[1].endswith("BaseMatrix::get") and any(s[0] == "field" and s[2] == "index" for s in subterms(t))
    cut = None
    site = f"{b.loc[0]}:{b.loc[1]}"
    for c in cx.cmps:
        for (L, R) in ((c.lhs, c.rhs), (c.rhs, c.lhs)):
            if is_elem(L) and not is_elem(R) and R[0] != "phi" or (is_elem(L) and R[0] == "phi" and not any(is_elem(a) for a in R[2])):
                if any(s[0] == "field" and s[2] == "center" for s in subterms(R)) or R[0] == "phi":
                    cut, site = R, c.where
    if cut is None:
        ck.note(f"{inst}: no partition test `element ? cut-off` with a cut-off derived from node.center: no instance")
    else:
        mids = [s for s in subterms(cut) if s[0] == "idx" and any(x[0] == "field" and x[2] == "center" for x in subterms(s[1]))]
        mid = mids[0] if mids else None
        guarded = cut[0] == "phi" and mid is not None and any((c.lhs == mid or c.rhs == mid or
                                                               any(x == mid for x in subterms(c.lhs)) or any(x == mid for x in subterms(c.rhs)))
                                                              and not is_elem(c.lhs) and not is_elem(c.rhs) for c in cx.cmps)
        if not guarded and cut[0] == "call":
            # helper form: `fn split_cutoff(center, lower, upper) -> T { if center <= lower { upper } else { center } }`
            cal = prog.bodies.get(cut[1])
            if cal is not None:
                from sa.prov import Resolver as _R
                cr = _R(cal)
                ra = [a for a in alts(cr.local(0)) if a[0] == "arg"]
                ccmp = [c for c in BodyCtx.of(cal).cmps if c.lhs[0] == "arg" and c.rhs[0] == "arg"]
                if len({a[1] for a in ra}) >= 2 and ccmp:
                    guarded = True
        if guarded:
            ck.ok(rule, inst, b.path, site, f"cut-off `{render(cut)[:80]}` is selected under a comparison of the midpoint with a bound")
        else:
            ck.violation(rule, inst, b.path, site,
                         expected="the midpoint is used as cut-off only if it compares above the lower bound, otherwise the upper bound is used",
                         found=f"cut-off = `{render(cut)[:80]}` unconditionally: for adjacent floating-point extremes the midpoint equals the lower "
                               f"bound, the lower half is empty and build_node recurses on the same range")
    # leaf test: no comparison of a node quantity with a positive literal (node.* are partial stores into a local struct,
    # which the generic E4 classifier does not follow, so the literal is looked for directly)
    import re as _re
    rule2, inst2 = "E4-scale", "BBDTree::build_node: no node quantity is compared with a positive literal"
    lit = []
    for c in cx.cmps:
        for side in (c.lhs, c.rhs):
            for s_ in subterms(side):
                if s_[0] == "const":
                    m = _re.search(r"(-?[0-9]+\.?[0-9]*(?:[eE]-?[0-9]+)?)", s_[1].replace("const ", ""))
                    if m and ("f64" in s_[1] or "f32" in s_[1] or "." in m.group(1) or "e" in m.group(1).lower()):
                        try:
                            if float(m.group(1)) > 0:
                                lit.append((c.where, render(side)[:50]))
                        except ValueError:
                            pass
    if lit:
        ck.violation(rule2, inst2, b.path, lit[0][0], expected="leaf/termination tests are zero tests (scale-free)",
                     found=f"comparison with `{lit[0][1]}`: data whose whole range is below that constant collapse into one leaf")
    else:
        ck.ok(rule2, inst2, b.path, f"{b.loc[0]}:{b.loc[1]}", f"{len(cx.cmps)} comparisons, none against a positive floating-point literal")


def run(ck, prog):
    _run_pre_cutoff(ck, prog)
    bbd_partition(ck, prog)


EXPLANATION += (' (D) BBD tree partition: the cut-off is the midpoint only under a comparison with a bound, and the leaf test is a zero test (found and fixed: endless recursion for adjacent floating-point extremes, collapse of small-scale data).')


# ------------------------------------------------------------------ generic: `while counter < bound` loops advance their counter
_run_pre_progress = run


def run(ck, prog):
    _run_pre_progress(ck, prog)
    from sa import progress
    progress.run_rule(ck, prog, set(DIMENSION_FILES))


# ------------------------------------------------------------------ BBD tree filter: centroids are addressed through the candidate list
_run_pre_filter = run


def filter_candidates(ck, prog):
    """filter() works on the candidate list of the current cell (centroid numbers that survived pruning higher up): a centroid
    compared with the cell centre is centroids[candidates[i]] - never centroids[i] or centroids[0], which may already have been
    pruned away. Index-indirection rule on the distance computations of BBDTree::filter."""
    rule, inst = "E2-indirection", "BBDTree::filter compares the cell centre with centroids[candidates[..]]"
    b = prog.bodies.get("algorithm::neighbour::bbd_tree::BBDTree::<T>::filter")
    if b is None:
        ck.violation(rule, inst, "filter", "", expected="anchor exists", found="anchor vanished")
        return
    res = Resolver(b)
    n = 0
    for bd in [b] + prog.closures_of.get(b.path, []):
        rs = Resolver(bd)
        for bb, t in bd.calls():
            f = t.get("f")
            if not (f and f["path"].endswith("squared_distance")):
                continue
            for a in t["args"]:
                tm = rs.operand(a)
                for s in subterms(tm):
                    if s[0] == "idx" and ((s[1][0] == "arg" and s[1][1] == 3) or (s[1][0] == "upvar" and s[1][1] == "centroids")):
                        n += 1
                        ix = s[2]
                        # through candidates: candidates[i], or an item of an iterator over candidates, or (in a closure) a parameter
                        through = any((x[0] == "arg" and x[1] == 4 and bd is b) or (x[0] == "upvar" and x[1] == "candidates") for x in subterms(ix)) \
                            or any(x[0] == "arg" and bd is not b for x in subterms(ix))
                        raw = ix[0] == "int" or (ix[0] == "field" and ix[2] == "0" and ix[1][0] == "variant" and not through)
                        if raw and not through:
                            ck.violation(rule, inst, bd.path, bd.where(bb), ordinal=n,
                                         expected="the centroid number comes from the candidate list of this cell",
                                         found=f"centroids[{render(ix)[:60]}] is addressed by a raw number: that centroid may have been pruned for this cell")
                        else:
                            ck.ok(rule, inst, bd.path, bd.where(bb), f"centroids[{render(ix)[:60]}]")
    if n == 0:
        ck.note(f"{inst}: no distance to an indexed centroid in filter: no instance")


def run(ck, prog):
    _run_pre_filter(ck, prog)
    filter_candidates(ck, prog)


EXPLANATION += (' (E) BBDTree::filter addresses centroids through the candidate list of the cell (centroids[candidates[..]]), never by a raw number.')


# ------------------------------------------------------------------ the returned centroids belong to the returned assignment
_run_pre_order = run


def centroids_after_assignment(ck, prog):
    """'each centroid with members is the mean of the training rows LAST assigned to it': inside the Lloyd loop the centroid
    update follows the assignment step of the same iteration on every path that leaves the loop - also when the loop ends by
    exhausting max_iter. Ordering rule on the CFG: from the block of the `clustering` call no loop exit is reachable (back
    edges cut) without passing a store into the centroid table."""
    from sa.isolation import natural_loops
    rule, inst = "E2-order", "KMeans::fit: every exit of the Lloyd loop lies behind the centroid update that follows the last assignment"
    bs = prog.find(r"^cluster::kmeans::KMeans::<T>::fit$")
    if len(bs) != 1:
        ck.violation(rule, inst, "KMeans::fit", "", expected="anchor exists", found=f"{len(bs)} bodies")
        return
    b = bs[0]
    res = Resolver(b)
    calls = [bb for bb, t in b.calls() if t.get("f") and t["f"]["path"].endswith("::clustering")]
    if len(calls) != 1:
        ck.note(f"{inst}: {len(calls)} assignment-step calls in KMeans::fit: no instance")
        return
    cbb = calls[0]
    # the centroid table: the local stored into the model's `centroids` field
    cl = None
    for i, j, s in b.stmts():
        r = s["r"] if s["k"] == "assign" else None
        if r and r["k"] == "agg" and r.get("name", "").endswith("kmeans::KMeans") and "centroids" in r.get("fields", []):
            o = r["ops"][r["fields"].index("centroids")]
            if o["k"] in ("move", "copy") and not o["p"]["pr"]:
                cl = o["p"]["l"]
                for _ in range(5):
                    ds = b.defs.get(cl, [])
                    if len(ds) == 1 and ds[0].kind == "assign" and ds[0].data["r"]["k"] == "use" and ds[0].data["r"]["o"]["k"] in ("move", "copy") \
                            and not ds[0].data["r"]["o"]["p"]["pr"]:
                        cl = ds[0].data["r"]["o"]["p"]["l"]
                    else:
                        break
    if cl is None:
        ck.note(f"{inst}: the centroid table handed to the model was not identified: no instance")
        return
    loops = natural_loops(b)
    mine = [(h, nodes) for h, nodes in loops.items() if cbb in nodes]
    if not mine:
        ck.note(f"{inst}: the assignment step is not inside a loop: no instance")
        return
    h, nodes = max(mine, key=lambda x: len(x[1]))
    upd = {d.bb for d in b.defs.get(cl, []) if d.kind in ("store", "mutcall") and d.bb in nodes and
           not (d.kind == "mutcall" and d.data["f"]["path"].endswith(("::clustering", "::deref", "::as_slice", "::len", "::iter", "Index::index")))}
    be = guards.back_edges(b)
    # the update is a loop over the clusters whose body stores conditionally (`if size[i] > 0`): passing the update means passing
    # the header of the outermost inner loop that contains a store
    cutset = set(upd)
    for h2, n2 in loops.items():
        if h2 != h and n2 < nodes and (n2 & upd):
            cutset.add(h2)
    reach = b.reachable_from([cbb], cut_edges=be, cut_blocks=frozenset(cutset))
    exits = sorted({v for u in reach if u in nodes for v in b.succs[u] if v not in nodes and not b.blocks[v]["cleanup"] and not b.is_panic_block(v)})
    # exits taken through `?`/panic paths do not return a model; keep those from which the constructor is reachable
    ctor = [i for i, j, s in b.stmts() if s["k"] == "assign" and s["r"]["k"] == "agg" and s["r"].get("name", "").endswith("kmeans::KMeans")]
    exits = [v for v in exits if any(c in b.reachable_from([v]) for c in ctor)]
    if not upd:
        ck.violation(rule, inst, b.path, b.where(cbb), expected="a centroid update inside the loop", found="the loop never stores into the centroid table")
    elif exits:
        ck.violation(rule, inst, b.path, b.where(cbb), expected="assignment step, then centroid update, then the exit tests",
                     found=f"the loop can be left at {b.where(exits[0])} after an assignment step without a centroid update in between: when max_iter is "
                           f"exhausted the returned centroids are the means of the previous assignment")
    else:
        ck.ok(rule, inst, b.path, b.where(cbb), f"{len(upd)} update block(s) cut every path from the assignment step to a loop exit")


def run(ck, prog):
    _run_pre_order(ck, prog)
    centroids_after_assignment(ck, prog)


EXPLANATION += (' (F) In KMeans::fit no exit of the Lloyd loop is reachable from the assignment step without passing the centroid update (E2-order): the returned centroids belong to the returned assignment, also when max_iter is exhausted.')


# ------------------------------------------------------------------ E4: no distance / distortion is compared with an absolute machine constant
_run_pre_e4km = run


def run(ck, prog):
    _run_pre_e4km(ck, prog)
    from props import C01
    C01.run_e4(ck, prog, r"^cluster::kmeans::KMeans::<T>::(fit|predict|kmeans_plus_plus)$|^algorithm::neighbour::bbd_tree::BBDTree::<T>::(filter|prune)$",
               ["KMeans::<T>::fit", "KMeans::<T>::predict", "BBDTree::<T>::filter", "BBDTree::<T>::prune"], floor=4)


EXPLANATION += (" Scale (E4): in KMeans::{fit, predict, kmeans_plus_plus} and BBDTree::{filter, prune} no distance, distortion or coordinate is "
                "compared with a non-zero machine constant ('nearest' and 'not worse' are comparisons between data-derived values; an "
                "`<= epsilon` early exit returns the first centroid for small-magnitude data).")
TECHNIQUE += "; scale-homogeneity classification of the comparisons in fit/predict/filter/prune"


# ------------------------------------------------------------------ generic: no magnitude is compared with a signed raw element
_run_pre_magnitude = run


def run(ck, prog):
    _run_pre_magnitude(ck, prog)
    from sa import magnitude
    magnitude.run_rule(ck, prog, set(DIMENSION_FILES))


# ------------------------------------------------------------------ generic: backward strided scans (`j -= step`) continue exactly while j >= step
_run_pre_subguard = run


def run(ck, prog):
    _run_pre_subguard(ck, prog)
    from sa import subguard
    subguard.run_rule(ck, prog, set(DIMENSION_FILES))


# ------------------------------------------------------------------ generic: a configuration field read on one successful path is read on every successful path
_run_pre_config = run


def run(ck, prog):
    _run_pre_config(ck, prog)
    from sa import config
    config.run_rule(ck, prog, set(DIMENSION_FILES))


# ------------------------------------------------------------------ generic: the value tested against a bound is the value set to the bound (clamps)
_run_pre_clamp = run


def run(ck, prog):
    _run_pre_clamp(ck, prog)
    from sa import clamp
    clamp.run_rule(ck, prog, set(DIMENSION_FILES))


# ------------------------------------------------------------------ generic: an index variable of one range addresses one buffer with one stride
_run_pre_stride = run


def run(ck, prog):
    _run_pre_stride(ck, prog)
    from sa import stride
    stride.run_rule(ck, prog, set(DIMENSION_FILES))



# ------------------------------------------------------------------ the centroid update divides by a member count only behind a test of it
_run_pre_countdiv = run


def centroid_division_guarded(ck, prog):
    """'k finite centroids': a cluster can lose all its rows during the iterations; sums / size is then 0/0 = NaN, and the NaN
    centroid poisons every later assignment.  Guarded-division rule on KMeans::fit: a division by a value converted from the
    member counts sits behind a `> 0` / `!= 0` test of that count."""
    from sa import divguard
    from sa.prov import subterms as _st
    rule, inst = "E2-guarded-division", "KMeans::fit: the centroid update divides by a cluster size only behind a test of it"
    b = prog.bodies.get("cluster::kmeans::KMeans::<T>::fit")
    if b is None:
        ck.violation(rule, inst, "KMeans::fit", "", expected="anchor exists", found="anchor vanished")
        return
    sizes = {l for l in range(len(b.locals)) if (b.local_name(l) or "") in ("size", "sizes", "counts")}

    def is_count(t):
        return t[0] == "idx" and t[1][0] in ("phi", "local") and t[1][1] in sizes
    sites = divguard.check(b, is_count)
    if not sites:
        ck.note(f"{inst}: no division by a converted member count in KMeans::fit: no instance")
        return
    for k, (where, den, guarded) in enumerate(sites):
        if guarded:
            ck.ok(rule, inst, b.path, where, "division behind a non-zero test of the count")
        else:
            ck.violation(rule, inst, b.path, where, ordinal=k, expected="`if size[i] > 0` around the update of centroid i",
                         found=f"divides by `{render(den)[:70]}` unconditionally: 0/0 = NaN for a cluster that lost all its rows")


def run(ck, prog):
    _run_pre_countdiv(ck, prog)
    centroid_division_guarded(ck, prog)


EXPLANATION += " The centroid update divides by a member count only behind a non-zero test of that count."
