"""C12 k-means: predict is an arg-min over squared Euclidean distances; BBD tree reads rows through its index table."""
from sa import guards
from sa.e1 import BodyCtx
from sa.mir import AnchorError
from sa.prov import Resolver, render, subterms, alts
from sa import flow

LEVEL = "other"
EXPLANATION = (
    "Structural clauses only. (A) 'predicting assigns every row to a centroid at minimal Euclidean distance'. Rules "
    "on the MIR of KMeans::predict (arg-min structure): (1) the compared quantity is Euclidian::squared_distance(row, "
    "self.centroids[j]) where `row` is the buffer filled from input row i (copy_row_as_vec(i, row)) and j the centroid loop "
    "variable; (2) the running minimum starts from max_value()/infinity() or a computed distance and is replaced exactly on "
    "the edge asserting dist < running minimum (or <=), together with the recorded cluster index, which is set to the same j; "
    "(3) the value stored for row i is the recorded index of that same row iteration. (B) In BBDTree::build_node every row of "
    "the data argument is read as index[position] - the tree permutes self.index while splitting, so a read at a raw position "
    "of begin..end attaches another row's coordinates to the node (wrong sums/boxes for the tree-accelerated assignment). "
    "(C) Parameter builders change only their own field. The centroid/mean identities of fit, "
    "the cluster sizes and the agreement of the tree-accelerated assignment with exhaustive search are numerical/geometric and "
    "NOT decided."
)
TECHNIQUE = "static analysis of rustc MIR: arg-min structure rule (gate + provenance) on KMeans::predict, index-indirection provenance rule on BBDTree::build_node, builder field-preservation rule"


def run(ck, prog):
    rule, inst = "E1-argmin", "KMeans::predict picks the centroid with the smallest squared Euclidean distance to the row"
    try:
        b = prog.one(r"^cluster::kmeans::KMeans::<T>::predict$")
    except AnchorError as e:
        ck.violation(rule, inst, "KMeans::predict", "", expected="anchor exists", found=f"anchor vanished: {e}")
        return
    cx = BodyCtx.of(b)
    res = cx.res
    problems = []
    is_dist = lambda t: t[0] == "call" and t[1].endswith("Euclidian::squared_distance")
    site = f"{b.loc[0]}:{b.loc[1]}"
    hit = None
    for c in cx.cmps:
        for (L, R, rel) in ((c.lhs, c.rhs, c.rel), (c.rhs, c.lhs, guards.FLIP[c.rel])):
            if is_dist(L) and R[0] == "phi":
                hit = (c, L, R, rel)
    if not hit:
        ck.violation(rule, inst, b.path, site, expected="a comparison of the squared Euclidean distance with the running minimum", found="none found")
        return
    c, L, R, rel = hit
    site = c.where
    # (1) operands of the distance: the row buffer and centroid j
    a0, a1 = L[2]
    cent = a1 if any(s[0] == "field" and s[2] == "centroids" for s in subterms(a1)) else a0
    rowb = a0 if cent is a1 else a1
    if not (cent[0] == "idx" and cent[1][0] == "field" and cent[1][2] == "centroids" and cent[1][1][0] == "arg" and cent[1][1][1] == 1):
        problems.append(f"the distance is not taken to self.centroids[j]: `{render(cent)[:60]}`")
    j = cent[2] if cent[0] == "idx" else None
    fills = [(bb, t) for bb, t in b.calls() if t.get("f") and t["f"]["path"].endswith("BaseMatrix::copy_row_as_vec")]
    row_ok = False
    for bb, t in fills:
        src = res.operand(t["args"][0])
        if src[0] == "arg" and src[1] == 2:
            row_ok = True
            row_i = res.operand(t["args"][1])
    if not row_ok and not any(s[0] == "call" and s[1].endswith(("get_row_as_vec", "get_row")) and s[2][0][0] == "arg" and s[2][0][1] == 2 for s in subterms(rowb)):
        problems.append("the compared vector is not a row of the input")
    # (2) seed and update edge of the running minimum
    seeds = [a for a in R[2] if not (a == L or (a[0] == "call" and a[1].startswith("mut:")))]
    for s in seeds:
        good = (s[0] == "call" and s[1].endswith(("::max_value", "::infinity")) and not s[2]) or is_dist(s)
        if not good:
            problems.append(f"the running minimum starts from `{render(s)[:40]}`")
    upd = [d.bb for d in b.defs.get(R[1], []) if d.kind == "assign" and res.rvalue(d.data["r"], 0, ()) == L]
    be = guards.back_edges(b)
    atoms = set()
    for er, dst, other in ((rel, c.true_bb, c.false_bb), (guards.NEG[rel], c.false_bb, c.true_bb)):
        reach = b.reachable_from([dst], cut_edges=be, cut_blocks=frozenset([other]))
        if any(u in reach for u in upd):
            atoms |= guards.ATOMS[er]
    if not upd:
        problems.append("the running minimum is never replaced by the compared distance")
    elif not (atoms <= frozenset("nz") and "n" in atoms):
        problems.append(f"the running minimum is replaced under atoms {sorted(atoms)} of sign(dist - min): expected dist < min")
    # (3) the stored label is a variable that is set to the centroid loop variable j on the very edge that replaces the minimum
    st = flow.label_stores(b, res, ("BaseMatrix::set", "BaseVector::set"))
    if not st:
        problems.append("no store into the returned vector")
    upd_region = set()
    for er, dst, other in ((rel, c.true_bb, c.false_bb), (guards.NEG[rel], c.false_bb, c.true_bb)):
        reach = b.reachable_from([dst], cut_edges=be, cut_blocks=frozenset([other]))
        if any(u in reach for u in upd):
            upd_region |= reach
    for bb, v in st:
        phis = [s for s in subterms(v) if s[0] == "phi" and j is not None and any(a == j for a in s[2])]
        if not phis:
            problems.append(f"the stored label `{render(v)[:60]}` is not the recorded arg-min index (a variable set to the centroid loop variable)")
            continue
        l = phis[0][1]
        sets_j = [d.bb for d in b.defs.get(l, []) if d.kind == "assign" and res.rvalue(d.data["r"], 0, ()) == j]
        if not sets_j or not all(x in upd_region for x in sets_j):
            problems.append("the recorded index is not updated together with (only when) the running minimum is")
    if problems:
        ck.violation(rule, inst, b.path, site, expected="argmin_j squared_distance(row_i, centroids[j]) recorded and stored for row i", found="; ".join(problems))
    else:
        ck.ok(rule, inst, b.path, site, f"`{render(L)[:70]} {rel} running minimum`; index recorded on the same edge and stored")
    ck.floor(rule, 1)


_run_pre_builders = run


def run(ck, prog):
    _run_pre_builders(ck, prog)
    # every setting of the quantifier is reachable through the public builder chain: setters must not clobber other fields
    from sa.builders import check_builders
    check_builders(ck, prog, r"^cluster::kmeans::KMeansParameters$")
    ck.floor("E2-builder", 2)


# ------------------------------------------------------------------ BBD tree: rows are reached through the permuted index table
_run_pre_indirection = run
ROW_READS = ("BaseMatrix::get", "BaseMatrix::get_row", "BaseMatrix::get_row_as_vec", "BaseMatrix::copy_row_as_vec")


def _is_position(t):
    """positively identified raw position: a Range loop variable or arithmetic on the begin/end arguments, with no
    look-up through self.index"""
    has_index = any(s[0] == "field" and s[2] == "index" for s in subterms(t))
    if has_index:
        return False
    for s in subterms(t):
        if s[0] == "agg" and s[1].endswith(("Range::Range", "RangeInclusive::new")):
            return True
        if s[0] == "call" and s[1].endswith("RangeInclusive::<Idx>::new"):
            return True
    return t[0] == "arg" or (t[0] == "bin" and all(x[0] in ("arg", "int") for x in t[2:4]))


def index_indirection(ck, prog):
    rule, inst = "E2-indirection", "BBDTree reads data rows through self.index"
    n = 0
    for fn in (r"^algorithm::neighbour::bbd_tree::BBDTree::<T>::build_node$",):
        try:
            b = prog.one(fn)
        except AnchorError as e:
            ck.violation(rule, inst, fn, "", expected="anchor exists", found=f"anchor vanished: {e}")
            continue
        for bd in [b] + prog.closures_of.get(b.path, []):
            rs = Resolver(bd)
            for bb, t in bd.calls():
                f = t.get("f")
                if not (f and f["path"].endswith(ROW_READS)) or len(t["args"]) < 2:
                    continue
                base = rs.operand(t["args"][0])
                if not any(a[0] in ("arg", "upvar") for a in alts(base)):
                    continue                       # a local matrix, not the data argument
                row = rs.operand(t["args"][1])
                n += 1
                if _is_position(row):
                    ck.violation(rule, inst, bd.path, bd.where(bb), ordinal=n,
                                 expected="the row read is index[position]: the tree permutes self.index, positions begin..end are not row numbers",
                                 found=f"row `{render(row)[:80]}` is a raw position (no look-up through self.index)")
                else:
                    ck.ok(rule, inst, bd.path, bd.where(bb), f"row {render(row)[:80]}")
    ck.floor(rule, 1)


def run(ck, prog):
    _run_pre_indirection(ck, prog)
    index_indirection(ck, prog)


# ------------------------------------------------------------------ per-row outputs: no state carried between row iterations
_run_pre_isolation = run
ISOLATION_FNS = [('KMeans::predict', '^cluster::kmeans::KMeans::<T>::predict$')]


def run(ck, prog):
    _run_pre_isolation(ck, prog)
    from sa import isolation
    isolation.run_rule(ck, prog, ISOLATION_FNS, xarg=2)


EXPLANATION += (" Row-loop isolation (E2-isolation): in the `for i in 0..rows(x)` loop of KMeans::predict every piece of state an "
                "iteration reads is completely re-defined earlier in the same iteration (fresh allocation, whole assignment, fill/clear/"
                "copy_row_as_vec, or a reset loop over the full length), except the loop iterator and the result container written "
                "at row i only: a buffer hoisted out of the loop and only partly reset makes the output for a row depend on the rows "
                "processed before it.")
TECHNIQUE += "; loop-carried-state (iteration isolation) rule on the row loops"


# ------------------------------------------------------------------ generic: rows/cols (outer/inner) mix-up of locally allocated buffers
_run_pre_dimension = run
DIMENSION_FILES = ['src/algorithm/neighbour/bbd_tree.rs', 'src/cluster/kmeans.rs', 'src/math/distance/euclidian.rs']


def run(ck, prog):
    _run_pre_dimension(ck, prog)
    from sa import dimension
    dimension.run_rule(ck, prog, set(DIMENSION_FILES))


# ------------------------------------------------------------------ generic: signed counters are not cast to unsigned on their negative side
_run_pre_negcast = run


def run(ck, prog):
    _run_pre_negcast(ck, prog)
    from sa import negcast
    negcast.run_rule(ck, prog, set(DIMENSION_FILES))
