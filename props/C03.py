"""C03 dense matrix / vector algebra: shape contracts (E1) + further engines."""
from sa import e1
from sa.e1 import G, NE, EQ
from sa.match import Dim, Base, Arg, Prod
from sa.prov import alts, render
from sa.match import dim_of

LEVEL = "other"
EXPLANATION = (
    "(a) E1 shape contracts on the built-in Vec<T>/DenseMatrix<T>: for every binary operation the statement lists "
    "(element-wise arithmetic, products, dot, stacking, reshape, copy) the comparison of the *right* pair of "
    "dimensions exists, its mismatch edge is post-dominated by a panic and it lies on every successful path; for "
    "approximate_eq / == the mismatch edge returns false."
)

DM = r"^<linalg::naive::dense_matrix::DenseMatrix<T> as linalg::BaseMatrix<T>>::"
VEC = r"^linalg::naive::dense_matrix::<impl linalg::BaseVector<T> for std::vec::Vec<T>>::"
ROWS, COLS, LEN = (lambda a: Dim("rows", a)), (lambda a: Dim("cols", a)), (lambda a: Dim("len", a))

SPECS = []
for m in ("dot", "add_mut", "sub_mut", "mul_mut", "div_mut", "copy_from"):
    SPECS.append(G(f"Vec::{m}: len(self)!=len(other)->panic", VEC + m + "$", LEN(1), LEN(2), NE, EQ, "panic"))
SPECS.append(G("Vec::approximate_eq: len mismatch->false", VEC + "approximate_eq$", LEN(1), LEN(2), NE, EQ, "false"))
SPECS += [
    G("v_stack: cols(self)!=cols(other)->panic", DM + "v_stack$", COLS(1), COLS(2), NE, EQ, "panic"),
    G("h_stack: rows(self)!=rows(other)->panic", DM + "h_stack$", ROWS(1), ROWS(2), NE, EQ, "panic"),
    G("matmul: cols(self)!=rows(other)->panic", DM + "matmul$", COLS(1), ROWS(2), NE, EQ, "panic"),
    G("reshape: rows*cols!=nrows*ncols->panic", DM + "reshape$", Prod(ROWS(1), COLS(1)), Prod(Arg(2), Arg(3)), NE, EQ, "panic"),
    G("dot: size(self)!=size(other)->panic", DM + "dot$", Prod(ROWS(1), COLS(1)), Prod(ROWS(2), COLS(2)), NE, EQ, "panic"),
]
for m in ("add_mut", "sub_mut", "mul_mut", "div_mut", "copy_from"):
    SPECS.append(G(f"{m}: rows(self)!=rows(other)->panic", DM + m + "$", ROWS(1), ROWS(2), NE, EQ, "panic"))
    SPECS.append(G(f"{m}: cols(self)!=cols(other)->panic", DM + m + "$", COLS(1), COLS(2), NE, EQ, "panic"))
EQFN = r"^<linalg::naive::dense_matrix::DenseMatrix<T> as std::cmp::PartialEq>::eq$"
for fn, nm in ((DM + "approximate_eq$", "approximate_eq"), (EQFN, "eq")):
    SPECS.append(G(f"{nm}: rows mismatch->false", fn, ROWS(1), ROWS(2), NE, EQ, "false"))
    SPECS.append(G(f"{nm}: cols mismatch->false", fn, COLS(1), COLS(2), NE, EQ, "false"))


def check_ab(ck, prog):
    """`ab` (product with optional transposes): the inner dimensions compared are,
    case by case, (rows A, rows B) for A^T*B, (cols A, cols B) for A*B^T and
    (rows A, cols B) for A^T*B^T; plain A*B delegates to matmul."""
    from sa.e1 import BodyCtx
    from sa import guards
    rule, inst = "E1-guard", "ab: inner dimensions of the transposed product mismatch->panic"
    try:
        b = prog.one(r"^<linalg::naive::dense_matrix::DenseMatrix<T> as linalg::high_order::HighOrderOperations<T>>::ab$")
    except Exception as e:
        ck.violation(rule, inst, "ab", "", expected="anchor exists", found=f"anchor vanished: {e}")
        return
    cx = BodyCtx.of(b)
    want = {("rows", 1, "rows", 3), ("cols", 1, "cols", 3), ("rows", 1, "cols", 3)}
    got = set()
    site = ""
    bad = []
    for c in cx.cmps:
        for rel, dst in ((c.rel, c.true_bb), (guards.NEG[c.rel], c.false_bb)):
            if guards.ATOMS[rel] != frozenset("np"):
                continue
            outs = cx.edges.get((c.bb, dst), set())
            if not guards.outcome_ok(outs, "panic"):
                continue
            # both sides project the same multi-definition tuple: pair the alternatives
            L, R = c.lhs, c.rhs
            pairs = _paired_alts(L, R)
            for (l, r) in pairs:
                dl, dr = dim_of(l), dim_of(r)
                if dl and dr and dl[1][0] == "arg" and dr[1][0] == "arg":
                    k = (dl[0], dl[1][1], dr[0], dr[1][1])
                    if k[1] > k[3]:
                        k = (k[2], k[3], k[0], k[1])
                    got.add(k)
                    site = c.where
                else:
                    bad.append(f"{render(l)} vs {render(r)}")
    # plain product must delegate to matmul (whose own guard is a separate instance)
    deleg = any(t.get("f") and t["f"]["path"].endswith("BaseMatrix::matmul") for _, t in b.calls())
    if got == want and not bad and deleg:
        ck.ok(rule, inst, b.path, site, f"compared pairs {sorted(got)}; A*B delegates to matmul")
    else:
        ck.violation(rule, inst, b.path, site or f"{b.loc[0]}:{b.loc[1]}",
                     expected=f"mismatch->panic comparisons over exactly the pairs {sorted(want)} and delegation to matmul",
                     found=f"pairs {sorted(got)}, unrecognised {bad}, delegates_to_matmul={deleg}")


def _paired_alts(L, R):
    """if L and R are fields of the same phi-of-tuples, pair alternatives index-wise"""
    if L[0] == "field" and R[0] == "field" and L[1] == R[1] and L[1][0] == "phi":
        out = []
        for a in L[1][2]:
            if a[0] == "agg" and a[1] == "tuple":
                i, j = int(L[2]), int(R[2])
                out.append((a[2][i], a[2][j]))
        return out
    return [(l, r) for l in alts(L) for r in alts(R)]


def run(ck, prog):
    e1.run(ck, prog, SPECS)
    check_ab(ck, prog)
    ck.floor("E1-guard", 27)
