"""C03 dense matrix / vector algebra: shape contracts (E1) + further engines."""
from sa import e1
from sa.e1 import G, NE, EQ
from sa.match import Dim, Base, Arg, Prod
from sa.prov import alts, render
from sa.match import dim_of

LEVEL = "other"
EXPLANATION = (
    "(a) E1 shape contracts on the built-in Vec<T>/DenseMatrix<T>: for every binary operation the statement lists "
    "(element-wise arithmetic, products, dot, stacking, reshape, copy) the comparison of the *right* pair of "
    "dimensions exists, its mismatch edge is post-dominated by a panic and it lies on every successful path; for "
    "approximate_eq / == the mismatch edge returns false."
)

DM = r"^<linalg::naive::dense_matrix::DenseMatrix<T> as linalg::BaseMatrix<T>>::"
VEC = r"^linalg::naive::dense_matrix::<impl linalg::BaseVector<T> for std::vec::Vec<T>>::"
ROWS, COLS, LEN = (lambda a: Dim("rows", a)), (lambda a: Dim("cols", a)), (lambda a: Dim("len", a))

SPECS = []
for m in ("dot", "add_mut", "sub_mut", "mul_mut", "div_mut", "copy_from"):
    SPECS.append(G(f"Vec::{m}: len(self)!=len(other)->panic", VEC + m + "$", LEN(1), LEN(2), NE, EQ, "panic"))
SPECS.append(G("Vec::approximate_eq: len mismatch->false", VEC + "approximate_eq$", LEN(1), LEN(2), NE, EQ, "false"))
SPECS += [
    G("v_stack: cols(self)!=cols(other)->panic", DM + "v_stack$", COLS(1), COLS(2), NE, EQ, "panic"),
    G("h_stack: rows(self)!=rows(other)->panic", DM + "h_stack$", ROWS(1), ROWS(2), NE, EQ, "panic"),
    G("matmul: cols(self)!=rows(other)->panic", DM + "matmul$", COLS(1), ROWS(2), NE, EQ, "panic"),
    G("reshape: rows*cols!=nrows*ncols->panic", DM + "reshape$", Prod(ROWS(1), COLS(1)), Prod(Arg(2), Arg(3)), NE, EQ, "panic"),
    G("dot: size(self)!=size(other)->panic", DM + "dot$", Prod(ROWS(1), COLS(1)), Prod(ROWS(2), COLS(2)), NE, EQ, "panic"),
]
for m in ("add_mut", "sub_mut", "mul_mut", "div_mut", "copy_from"):
    SPECS.append(G(f"{m}: rows(self)!=rows(other)->panic", DM + m + "$", ROWS(1), ROWS(2), NE, EQ, "panic"))
    SPECS.append(G(f"{m}: cols(self)!=cols(other)->panic", DM + m + "$", COLS(1), COLS(2), NE, EQ, "panic"))
# cell accessors: an index outside the logical shape is refused by every accessor (the flat offset col * nrows + row of an
# out-of-range row lands inside the buffer, in the next column: a silent write that depends on the storage order)
for m in ("get", "set", "add_element_mut", "sub_element_mut", "mul_element_mut", "div_element_mut"):
    SPECS.append(G(f"{m}: row>=rows(self)->panic", DM + m + "$", Arg(2), ROWS(1), "pz", "n", "panic"))
    SPECS.append(G(f"{m}: col>=cols(self)->panic", DM + m + "$", Arg(3), COLS(1), "pz", "n", "panic"))
def _implicit_length_check(kind):
    """the buffer is indexed by a range or an induction variable that runs to the matrix dimension: `result[..ncols]`,
    `for c in 0..ncols { result[c] = .. }` - the slice / element bounds check panics for a shorter buffer"""
    def alt(prog, body):
        from sa.prov import Resolver, alts, render
        res = Resolver(body)
        want = Dim(kind, 1)
        for bb, t in body.calls():
            f = t.get("f")
            if not (f and f["path"] in ("std::ops::Index::index", "std::ops::IndexMut::index_mut") and len(t["args"]) == 2):
                continue
            base, ix = res.operand(t["args"][0]), res.operand(t["args"][1])
            while base[0] == "call" and base[1].split("::")[-1] in ("deref", "deref_mut") and base[2]:
                base = base[2][0]
            if not any(a[0] == "arg" and a[1] == 3 for a in [base] + list(alts(base))):
                continue
            his = []
            if ix[0] == "agg" and ix[1].endswith(("RangeTo::RangeTo", "RangeTo")) and ix[2]:
                his.append(ix[2][0])
            if ix[0] == "agg" and ix[1].endswith("Range::Range") and len(ix[2]) == 2:
                his.append(ix[2][1])
            if ix[0] == "field" and ix[2] == "0" and ix[1][0] == "variant" and ix[1][1][0] == "call" and ix[1][1][1].endswith("Iterator::next") and ix[1][1][2]:
                for a in alts(ix[1][1][2][0]):
                    if a[0] == "agg" and a[1].endswith("Range::Range") and len(a[2]) == 2:
                        his.append(a[2][1])
            if any(want(h) for h in his):
                return True, f"`result` is indexed up to {render([h for h in his if want(h)][0])} at {body.where(bb)}: the bounds check refuses a shorter buffer"
        return False, ""
    return alt


for m, d, D in (("copy_row_as_vec", "cols", COLS), ("copy_col_as_vec", "rows", ROWS)):
    _g = G(f"{m}: len(result)<{d}(self)->panic", DM + m + "$", LEN(3), D(1), "n", "pz", "panic")
    _g.alt = _implicit_length_check(d)
    SPECS.append(_g)
EQFN = r"^<linalg::naive::dense_matrix::DenseMatrix<T> as std::cmp::PartialEq>::eq$"
for fn, nm in ((DM + "approximate_eq$", "approximate_eq"), (EQFN, "eq")):
    SPECS.append(G(f"{nm}: rows mismatch->false", fn, ROWS(1), ROWS(2), NE, EQ, "false"))
    SPECS.append(G(f"{nm}: cols mismatch->false", fn, COLS(1), COLS(2), NE, EQ, "false"))


def check_ab(ck, prog):
    """`ab` (product with optional transposes): the inner dimensions compared are,
    case by case, (rows A, rows B) for A^T*B, (cols A, cols B) for A*B^T and
    (rows A, cols B) for A^T*B^T; plain A*B delegates to matmul."""
    from sa.e1 import BodyCtx
    from sa import guards
    rule, inst = "E1-guard", "ab: inner dimensions of the transposed product mismatch->panic"
    try:
        b = prog.one(r"^<linalg::naive::dense_matrix::DenseMatrix<T> as linalg::high_order::HighOrderOperations<T>>::ab$")
    except Exception as e:
        ck.violation(rule, inst, "ab", "", expected="anchor exists", found=f"anchor vanished: {e}")
        return
    cx = BodyCtx.of(b)
    want = {("rows", 1, "rows", 3), ("cols", 1, "cols", 3), ("rows", 1, "cols", 3)}
    got = set()
    site = ""
    bad = []
    for c in cx.cmps:
        for rel, dst in ((c.rel, c.true_bb), (guards.NEG[c.rel], c.false_bb)):
            if guards.ATOMS[rel] != frozenset("np"):
                continue
            outs = cx.edges.get((c.bb, dst), set())
            if not guards.outcome_ok(outs, "panic"):
                continue
            # both sides project the same multi-definition tuple: pair the alternatives
            L, R = c.lhs, c.rhs
            pairs = _paired_alts(L, R)
            for (l, r) in pairs:
                dl, dr = dim_of(l), dim_of(r)
                if dl and dr and dl[1][0] == "arg" and dr[1][0] == "arg":
                    k = (dl[0], dl[1][1], dr[0], dr[1][1])
                    if k[1] > k[3]:
                        k = (k[2], k[3], k[0], k[1])
                    got.add(k)
                    site = c.where
                else:
                    bad.append(f"{render(l)} vs {render(r)}")
    # plain product must delegate to matmul (whose own guard is a separate instance)
    deleg = any(t.get("f") and t["f"]["path"].endswith("BaseMatrix::matmul") for _, t in b.calls())
    if got == want and not bad and deleg:
        ck.ok(rule, inst, b.path, site, f"compared pairs {sorted(got)}; A*B delegates to matmul")
    else:
        ck.violation(rule, inst, b.path, site or f"{b.loc[0]}:{b.loc[1]}",
                     expected=f"mismatch->panic comparisons over exactly the pairs {sorted(want)} and delegation to matmul",
                     found=f"pairs {sorted(got)}, unrecognised {bad}, delegates_to_matmul={deleg}")


def _paired_alts(L, R):
    """if L and R are fields of the same phi-of-tuples, pair alternatives index-wise"""
    if L[0] == "field" and R[0] == "field" and L[1] == R[1] and L[1][0] == "phi":
        out = []
        for a in L[1][2]:
            if a[0] == "agg" and a[1] == "tuple":
                i, j = int(L[2]), int(R[2])
                out.append((a[2][i], a[2][j]))
        return out
    return [(l, r) for l in alts(L) for r in alts(R)]


def run(ck, prog):
    e1.run(ck, prog, SPECS)
    check_ab(ck, prog)
    ck.floor("E1-guard", 27)


# ------------------------------------------------------------------ (b) sign, (c) centred variance, (d) by-construction, (e) storage map
EXPLANATION += (
    " (b) E2d: DenseMatrix max/min/argmax/softmax_mut take no absolute value and start from -inf/+inf or a data element - 'all-negative data', "
    "'softmax of any finite input is a probability vector'. (c) E2f: every product accumulated by the variance routines "
    "(MatrixStats::var, BaseVector::var) has centred factors (element - mean), not raw elements: the one-pass E[x^2]-E[x]^2 form loses "
    "(mean/spread)^2 * eps of relative accuracy, the statement demands accuracy at |mean|/spread = 1e8. (d) by construction: every copying "
    "variant (8 BaseVector, 11 BaseMatrix, binarize) is `clone(); r.op_mut(args); r` in the trait default body and is not overridden by the "
    "built-in types - this proves 'each in-place variant produces the same result as its copying counterpart' for every input. (e) storage-map "
    "agreement: the six cell accessors of DenseMatrix index `values` by one and the same function of (row, col, nrows, ncols); all other methods "
    "touch `values` only through these accessors, element-wise over 0..len(values), or as a whole. The value of each operation on the logical "
    "view (index arithmetic over runtime shapes) is not decided."
)
TECHNIQUE = "static analysis of rustc MIR: guard/post-dominance rules, sign-sensitivity and centred-accumulation rules, structural by-construction summaries, storage-map sibling agreement"


def sign_rules(ck, prog):
    from sa import siblings as sb
    from props.C20 import impl_body
    rule = "E2d-sign"
    for m in ("max", "min", "argmax", "softmax_mut"):
        inst = f"DenseMatrix::{m} does not depend on the sign of the data"
        b = impl_body(prog, "BaseMatrix", "dense", m)
        if not b:
            ck.violation(rule, inst, f"DenseMatrix::{m}", "", expected="impl exists", found="anchor vanished")
            continue
        probs = sb.sign_rule(prog, b, "softmax" if m == "softmax_mut" else m)
        if probs:
            ck.violation(rule, inst, b.path, f"{b.loc[0]}:{b.loc[1]}", expected="no absolute value in the reduction/shift; fold starts from -inf/+inf or a data element",
                         found="; ".join(probs))
        else:
            ck.ok(rule, inst, b.path, f"{b.loc[0]}:{b.loc[1]}", "no abs; identity start value")
    ck.floor(rule, 4)


def centred_variance(ck, prog):
    from sa.prov import Resolver, render, subterms
    rule = "E2f-centred"
    targets = [b for b in prog.bodies.values() if b.name == "var" and b.kind != "Closure" and
               (b.trait_default in ("linalg::stats::MatrixStats", "linalg::BaseVector") or b.impl_trait in ("linalg::stats::MatrixStats", "linalg::BaseVector"))]
    names = {b.trait_default or b.impl_trait for b in targets}
    for need in ("linalg::stats::MatrixStats", "linalg::BaseVector"):
        if need not in names:
            ck.violation(rule, f"{need}::var exists", need, "", expected="anchor exists", found="anchor vanished")
    is_elem = lambda s: s[0] == "call" and s[1].endswith(("BaseMatrix::get", "BaseVector::get")) or s[0] == "idx"
    for b in sorted(targets, key=lambda b: b.path):
        inst = f"{(b.trait_default or b.impl_trait).split('::')[-1]}::var accumulates centred products"
        bodies, stack = [b], list(prog.closures_of.get(b.path, []))
        while stack:
            c = stack.pop()
            bodies.append(c)
            stack.extend(prog.closures_of.get(c.path, []))
        n, bad, good, site = 0, [], [], f"{b.loc[0]}:{b.loc[1]}"

        def judge(v, where):
            nonlocal n, site
            factors = None
            if v[0] == "call" and v[1] == "std::ops::Mul::mul":
                factors = list(v[2])
            elif v[0] == "call" and v[1].endswith(("::powi", "::powf", "::square")):
                factors = [v[2][0]]
            if factors is None:
                return
            if not any(is_elem(s) or s[0] == "arg" for F in factors for s in subterms(F)):
                return
            n += 1
            site = where
            for F in factors:
                centred = F[0] == "call" and F[1] == "std::ops::Sub::sub" and (any(is_elem(s) for s in subterms(F[2][0])) or F[2][0][0] in ("arg", "field")) \
                    and not is_elem(F[2][1]) and F[2][1][0] in ("phi", "call", "local", "upvar")
                (good if centred else bad).append(render(F)[:60])
        for bd in bodies:
            rs = Resolver(bd)
            for bb, t in bd.calls():
                f = t.get("f")
                if f and f["path"] == "std::ops::AddAssign::add_assign":
                    judge(rs.operand(t["args"][1]), bd.where(bb))
            if bd.kind == "Closure":
                # fold / map closures: products in the returned expression
                for s in subterms(rs.local(0)):
                    if s[0] == "call" and (s[1] == "std::ops::Mul::mul" or s[1].endswith(("::powi", "::square"))):
                        judge(s, f"{bd.loc[0]}:{bd.loc[1]}")
        if n == 0:
            ck.violation(rule, inst, b.path, site, expected="an accumulation of squared deviations", found="no accumulated product found")
        elif bad:
            ck.violation(rule, inst, b.path, site, expected="each accumulated product has factors of the form (element - mean)",
                         found=f"accumulates a product of raw elements: {bad[:2]} (one-pass E[x^2] - E[x]^2: catastrophic cancellation for |mean| >> spread)")
        else:
            ck.ok(rule, inst, b.path, site, f"{n} accumulated product(s), all centred: {good[:2]}")
    ck.floor(rule, 2)


COPYING = {"linalg::BaseVector": ["add", "sub", "mul", "div", "add_scalar", "sub_scalar", "mul_scalar", "div_scalar"],
           "linalg::BaseMatrix": ["add", "sub", "mul", "div", "add_scalar", "sub_scalar", "mul_scalar", "div_scalar", "negative", "abs", "pow"],
           "linalg::stats::MatrixPreprocessing": ["binarize"]}


def by_construction(ck, prog):
    from sa import elementwise as ew
    rule = "E8-by-construction"
    overriding = {}
    for b in prog.bodies.values():
        if b.impl_trait in ("linalg::BaseVector", "linalg::BaseMatrix") and b.kind != "Closure":
            overriding.setdefault((b.impl_trait, b.name), []).append(b.impl_self)
    for trait, methods in COPYING.items():
        trait = trait.split("#")[0]
        for m in methods:
            inst = f"{trait.split('::')[-1]}::{m} == clone + {m}_mut"
            b = prog.bodies.get(f"{trait}::{m}")
            if not b:
                ck.violation(rule, inst, f"{trait}::{m}", "", expected="trait default body exists", found="anchor vanished (no default body)")
                continue
            nm, prob = ew.copying(prog, b)
            ov = [s for s in overriding.get((trait, m), []) if s and (s.startswith("std::vec::Vec") or "DenseMatrix" in s)]
            if nm == m + "_mut" and not prob and not ov:
                ck.ok(rule, inst, b.path, f"{b.loc[0]}:{b.loc[1]}", f"clone(self); {nm}(clone, args); return clone; not overridden by the built-in types")
            else:
                ck.violation(rule, inst, b.path, f"{b.loc[0]}:{b.loc[1]}", expected="the copying variant is exactly clone + the in-place sibling, not overridden",
                             found=f"in-place callee {nm}, problem: {prob}, overridden by {ov}")
    ck.floor(rule, 20)


ACCESSORS = ("get", "set", "add_element_mut", "sub_element_mut", "mul_element_mut", "div_element_mut")


def _norm_args(t):
    """drop argument names (positions stay) so that terms of sibling methods can be compared"""
    if not isinstance(t, tuple):
        return t
    if t and t[0] == "arg":
        return ("arg", t[1])
    return tuple(_norm_args(x) for x in t)


def _inline_local_helper(prog, t, depth=0):
    """an index computed by a private helper of the type (`fn offset(&self, row, col) -> usize`): replace the call by the
    helper's return value with the actual arguments substituted (one level of alternatives; guards in the helper do not matter
    here, they are checked by the accessor contracts)"""
    from sa.prov import Resolver
    if not isinstance(t, tuple) or not t:
        return t
    if t[0] == "call" and depth < 3 and t[1].startswith("linalg::naive::dense_matrix::DenseMatrix::<T>::") and t[1] in prog.bodies:
        hb = prog.bodies[t[1]]
        ret = Resolver(hb).local(0)
        actual = t[2]

        def subst(x):
            if not isinstance(x, tuple) or not x:
                return x
            if x[0] == "arg" and isinstance(x[1], int) and 1 <= x[1] <= len(actual):
                return actual[x[1] - 1]
            return tuple(subst(y) for y in x)
        return _inline_local_helper(prog, subst(ret), depth + 1)
    return tuple(_inline_local_helper(prog, x, depth) if isinstance(x, tuple) else x for x in t)


def storage_map(ck, prog):
    from sa.prov import Resolver, render, subterms, alts
    rule = "E6-storage-map"
    dm = [b for b in prog.bodies.values() if b.kind != "Closure" and (
        (b.impl_self or "").startswith("linalg::naive::dense_matrix::DenseMatrix<T>") or
        b.path.startswith("linalg::naive::dense_matrix::DenseMatrix::<T>::"))]
    is_values = lambda t: any(s[0] == "field" and s[2] == "values" and s[1][0] == "arg" and s[1][1] == 1 for s in subterms(t))

    def value_indices(b):
        res = Resolver(b)
        out = []
        for bb, t in b.calls():
            f = t.get("f")
            if f and f["path"] in ("std::ops::Index::index", "std::ops::IndexMut::index_mut"):
                a0, a1 = res.operand(t["args"][0]), res.operand(t["args"][1])
                base = a0
                while base[0] == "phi":
                    base = base[2][0]
                if base[0] == "field" and base[2] == "values" and base[1][0] == "arg":
                    out.append((bb, base[1][1], _inline_local_helper(prog, a1)))
        return out
    maps = {}
    for m in ACCESSORS:
        bs = [b for b in dm if b.name == m and b.impl_trait == "linalg::BaseMatrix"]
        inst = f"DenseMatrix::{m} addresses cell (row, col) through the common storage map"
        if len(bs) != 1:
            ck.violation(rule, inst, f"DenseMatrix::{m}", "", expected="accessor exists", found=f"{len(bs)} bodies")
            continue
        idx = value_indices(bs[0])
        if len(idx) != 1:
            ck.violation(rule, inst, bs[0].path, f"{bs[0].loc[0]}:{bs[0].loc[1]}", expected="exactly one indexed access of self.values", found=f"{len(idx)}")
            continue
        maps[m] = (bs[0], idx[0])
    if len(maps) == len(ACCESSORS):
        ref = _norm_args(maps["get"][1][2])
        for m, (b, (bb, _, term)) in maps.items():
            inst = f"DenseMatrix::{m} addresses cell (row, col) through the common storage map"
            uses_rc = {s[1] for s in subterms(term) if s[0] == "arg"} >= {2, 3}
            if _norm_args(term) == ref and uses_rc:
                ck.ok(rule, inst, b.path, b.where(bb), f"values[{render(term)}]")
            else:
                ck.violation(rule, inst, b.path, b.where(bb), expected=f"the same index function as get: values[{render(maps['get'][1][2])}]",
                             found=f"values[{render(term)}]")
    # every other method: element-wise over the whole buffer, or whole-buffer use
    n = 0
    for b in sorted(dm, key=lambda b: b.path):
        if b.name in ACCESSORS and b.impl_trait == "linalg::BaseMatrix":
            continue
        for (bb, who, term) in value_indices(b):
            n += 1
            inst = f"DenseMatrix::{b.name} indexes values only element-wise"
            ok = False
            if term[0] == "agg" and term[1].endswith(("RangeFull::RangeFull", "RangeFull")):
                ok = True

            def _whole(hi):
                d = dim_of(hi)
                return bool((d and d[0] == "len" and any(s[0] == "field" and s[2] == "values" for s in subterms(hi))) or
                            Prod(Dim("rows", 1), Dim("cols", 1))(hi))
            # a slice of the whole buffer: values[..len], values[0..len]
            if term[0] == "agg" and term[1].endswith(("RangeTo::RangeTo", "RangeTo")) and term[2] and _whole(term[2][0]):
                ok = True
            if term[0] == "agg" and term[1].endswith("Range::Range") and len(term[2]) == 2 and term[2][0] == ("int", 0) and _whole(term[2][1]):
                ok = True
            it = term
            if it[0] == "field" and it[2] == "0" and it[1][0] == "variant" and it[1][2] == "Some" and it[1][1][0] == "call" \
                    and it[1][1][1].endswith("Iterator::next"):
                rng = [a for a in alts(it[1][1][2][0]) if a[0] == "agg" and a[1].endswith("Range::Range")]
                if rng and rng[0][2][0] == ("int", 0):
                    hi = rng[0][2][1]
                    d = dim_of(hi)
                    whole = (d and d[0] == "len" and any(s[0] == "field" and s[2] == "values" for s in subterms(hi))) or \
                        Prod(Dim("rows", 1), Dim("cols", 1))(hi)
                    ok = bool(whole)
            if ok:
                ck.ok(rule, inst, b.path, b.where(bb), f"values[{render(term)[:60]}]")
            else:
                ck.violation(rule, inst, b.path, b.where(bb), ordinal=n,
                             expected="cells are addressed through get/set/..._element_mut; values[] is only walked over 0..len or used as a whole",
                             found=f"own index arithmetic on the buffer: values[{render(term)[:80]}]")
    # the raw buffer must not leave the type as a 'flattened' sequence
    conv = [b for b in prog.bodies.values() if b.kind != "Closure" and (b.impl_trait or "").startswith("std::convert::From")
            and b.name == "from" and b.arg_count == 1 and "dense_matrix::DenseMatrix<T>" in b.local_ty(1)
            and (b.loc and b.loc[0] == "src/linalg/naive/dense_matrix.rs")]
    for b in sorted(list(dm) + conv, key=lambda b: b.path):
        if not b.local_ty(0).startswith("std::vec::Vec<T"):
            continue
        res = Resolver(b)
        ret = res.local(0)
        esc = any(a[0] == "field" and a[2] == "values" and a[1][0] == "arg" for a in alts(ret))
        inst = f"DenseMatrix::{b.name} does not hand out the storage buffer as a flattened view" if b not in conv else \
            "Vec::from(DenseMatrix) does not hand out the storage buffer as a flattened view"
        if esc and b.name not in ("unique",):
            ck.violation(rule, inst, b.path, f"{b.loc[0]}:{b.loc[1]}", expected="a Vec built in logical (row-major) order through the accessors",
                         found="returns self.values (storage order) as the result")
        elif b.name in ("to_row_vector", "get_row_as_vec", "get_col_as_vec", "unique", "column_mean", "argmax"):
            ck.ok(rule, inst, b.path, f"{b.loc[0]}:{b.loc[1]}", "")
    ck.floor(rule, 20)


_run_e1_c03 = run


def run(ck, prog):
    _run_e1_c03(ck, prog)
    sign_rules(ck, prog)
    centred_variance(ck, prog)
    by_construction(ck, prog)
    storage_map(ck, prog)


def buffer_reuse(ck, prog):
    """a DenseMatrix built from (a copy of) self's whole storage buffer must have self's shape: the buffer is only
    meaningful together with the storage map of its own (nrows, ncols)"""
    from sa.prov import Resolver, render, subterms, alts
    rule, inst0 = "E6-storage-map", "whole-buffer reuse keeps the shape"
    n = 0
    for b in sorted(prog.bodies.values(), key=lambda b: b.path):
        if b.kind == "Closure" or not ((b.impl_self or "").startswith("linalg::naive::dense_matrix::DenseMatrix<T>")
                                       or b.path.startswith("linalg::naive::dense_matrix::DenseMatrix::<T>::")):
            continue
        if b.raw.get("span_x"):
            continue
        res = Resolver(b)
        is_self_values = lambda t: any(a[0] == "field" and a[2] == "values" and a[1][0] == "arg" and a[1][1] == 1 for a in alts(t))
        sites = []
        for bb, t in b.calls():
            f = t.get("f")
            if f and f["path"].endswith("DenseMatrix::<T>::new") and len(t["args"]) == 3:
                a = [res.operand(x) for x in t["args"]]
                if is_self_values(a[2]):
                    sites.append((b.where(bb), a[0], a[1]))
        for i, j, s in b.stmts():
            r = s["r"] if s["k"] == "assign" else None
            if r and r["k"] == "agg" and r["ak"] == "adt" and r["name"].endswith("dense_matrix::DenseMatrix") and not s.get("x"):
                vals = dict(zip(r["fields"], [res.operand(o) for o in r["ops"]]))
                if "values" in vals and is_self_values(vals["values"]):
                    sites.append((b.where(i, j), vals.get("nrows"), vals.get("ncols")))
        for where, nr, nc in sites:
            n += 1
            inst = f"DenseMatrix::{b.name}: {inst0}"
            dr, dc = dim_of(nr) if nr else None, dim_of(nc) if nc else None
            same = dr and dc and dr[0] == "rows" and dc[0] == "cols" and dr[1][0] == "arg" and dr[1][1] == 1 and dc[1][0] == "arg" and dc[1][1] == 1
            if same:
                ck.ok(rule, inst, b.path, where, "same (nrows, ncols) as self")
            else:
                ck.violation(rule, inst, b.path, where, ordinal=n, expected="a matrix that takes over self.values also takes over (self.nrows, self.ncols)",
                             found=f"self.values is reused with shape ({render(nr)[:40] if nr else None}, {render(nc)[:40] if nc else None}): the buffer is re-read under a different storage map")


def centred_cov(ck, prog):
    """covariance: each factor of an accumulated product is (x[k, c] - mean[c]) with the SAME column c in both places"""
    from sa.prov import Resolver, render, subterms
    rule, inst = "E2f-centred", "DenseMatrix::cov centres column c with the mean of column c"
    bs = [b for b in prog.bodies.values() if b.name == "cov" and b.impl_trait == "linalg::BaseMatrix" and (b.impl_self or "").startswith("linalg::naive::dense_matrix")]
    if len(bs) != 1:
        ck.violation(rule, inst, "DenseMatrix::cov", "", expected="anchor exists", found=f"{len(bs)}")
        return
    b = bs[0]
    res = Resolver(b)
    n = 0
    for bb, t in b.calls():
        f = t.get("f")
        if not (f and f["path"].endswith(("::add_element_mut", "AddAssign::add_assign"))):
            continue
        v = res.operand(t["args"][-1])
        if not (v[0] == "call" and v[1] == "std::ops::Mul::mul"):
            continue
        for F in v[2]:
            if not (F[0] == "call" and F[1] == "std::ops::Sub::sub"):
                continue
            x, m = F[2]
            if x[0] == "call" and x[1].endswith("BaseMatrix::get") and m[0] == "idx":
                n += 1
                col = x[2][2]
                if m[2] == col:
                    ck.ok(rule, inst, b.path, b.where(bb), f"{render(F)[:80]}")
                else:
                    ck.violation(rule, inst, b.path, b.where(bb), ordinal=n, expected="x[k, c] - mean[c]",
                                 found=f"column `{render(col)[:40]}` is centred with the mean of column `{render(m[2])[:40]}`")
    if n < 2:
        ck.violation(rule, inst, b.path, f"{b.loc[0]}:{b.loc[1]}", expected="two centred factors in the accumulated product", found=f"{n} recognised")


_run_c03b = run


def run(ck, prog):
    _run_c03b(ck, prog)
    buffer_reuse(ck, prog)
    centred_cov(ck, prog)
    ck.floor("E2f-centred", 4)


# ------------------------------------------------------------------ generic: rows/cols (outer/inner) mix-up of locally allocated buffers
_run_pre_dimension = run
DIMENSION_FILES = ['src/linalg/high_order.rs', 'src/linalg/mod.rs', 'src/linalg/naive/dense_matrix.rs', 'src/linalg/stats.rs']


def run(ck, prog):
    _run_pre_dimension(ck, prog)
    from sa import dimension
    dimension.run_rule(ck, prog, set(DIMENSION_FILES))


# ------------------------------------------------------------------ generic: signed counters are not cast to unsigned on their negative side
_run_pre_negcast = run


def run(ck, prog):
    _run_pre_negcast(ck, prog)
    from sa import negcast
    negcast.run_rule(ck, prog, set(DIMENSION_FILES))


# ------------------------------------------------------------------ dot: both operands are vectors (truth-table gate)
_run_pre_dotvec = run


def dot_operands_are_vectors(ck, prog):
    """'dot ... between operands of incompatible shape [is] rejected': DenseMatrix::dot walks the two storage buffers in
    parallel, which is the inner product only when BOTH operands are row or column vectors. Truth-table gate: for each of the
    16 assignments of (self.nrows == 1, self.ncols == 1, other.nrows == 1, other.ncols == 1) the comparisons of a dimension
    with the constant 1 are evaluated and their impossible edges cut; a non-panicking return must be unreachable exactly for
    the assignments where some operand has neither dimension equal to 1. (The separate size test is left undetermined.)"""
    from sa.e1 import BodyCtx
    from sa import guards
    from sa.match import dim_of
    import itertools
    rule, inst = "E1-guard", "dot: an operand that is not a row or column vector -> panic"
    try:
        b = prog.one(DM + "dot$")
    except Exception as e:
        ck.violation(rule, inst, "dot", "", expected="anchor exists", found=f"anchor vanished: {e}")
        return
    from sa.siblings import dot_vector_gate
    ntests, bad = dot_vector_gate(b, prog)
    tests = [None] * ntests
    site = f"{b.loc[0]}:{b.loc[1]}"
    if bad:
        ck.violation(rule, inst, b.path, site, expected="a return is reachable iff each operand has a unit dimension",
                     found=f"accepted although an operand is a proper matrix (m, n > 1): {bad[:6]} ({len(tests)} unit-dimension tests evaluated)")
    else:
        ck.ok(rule, inst, b.path, site, f"16 assignments of the 4 unit-dimension tests: rejected exactly when an operand is a proper matrix ({len(tests)} tests)")


def run(ck, prog):
    _run_pre_dotvec(ck, prog)
    dot_operands_are_vectors(ck, prog)


EXPLANATION += (' dot: truth table over the four unit-dimension tests - a return is reachable iff each operand is a row or column vector (found and fixed: 2x3 . 1x6 was accepted). Vec::from(DenseMatrix) is covered by the hand-out rule (found and fixed: it returned the storage buffer).')


# ------------------------------------------------------------------ generic: `while counter < bound` loops advance their counter
_run_pre_progress = run


def run(ck, prog):
    _run_pre_progress(ck, prog)
    from sa import progress
    progress.run_rule(ck, prog, set(DIMENSION_FILES))


# ------------------------------------------------------------------ binarise writes every cell
_run_pre_binarize = run


def binarize_every_cell(ck, prog):
    """'binarise ... returns the value defined by the corresponding formula': every cell becomes 1 if x > t else 0 - for every
    threshold, negative ones included (an exact zero is above a negative threshold). No-skip rule: in binarize_mut no path
    of the innermost loop's iteration reaches the latch without passing a cell store (a `continue` for 'already zero' cells
    skips the comparison)."""
    from sa import guards
    from sa.isolation import natural_loops
    rule, inst = "E8-by-construction", "MatrixPreprocessing::binarize_mut stores into every cell"
    b = prog.bodies.get("linalg::stats::MatrixPreprocessing::binarize_mut")
    if b is None:
        ck.note(f"{inst}: binarize_mut default body not found: no instance")
        return
    sets = [bb for bb, t in b.calls() if t.get("f") and t["f"]["path"].endswith(("BaseMatrix::set", "_element_mut"))]
    loops = natural_loops(b)
    inner = [(h, nodes) for h, nodes in loops.items() if any(s in nodes for s in sets)]
    if not sets or not inner:
        ck.note(f"{inst}: no element loop with cell stores (iterator / whole-matrix form): no instance")
        return
    h, nodes = min(inner, key=lambda x: len(x[1]))
    be = guards.back_edges(b)
    latches = [u for (u, hh) in be if hh == h]
    # blocks of one iteration: from the header's in-loop successor(s), cut at stores and back edges
    reach = b.reachable_from([h], cut_edges=be, cut_blocks=frozenset(sets))
    skipped = [u for u in latches if u in reach]
    if skipped:
        ck.violation(rule, inst, b.path, b.where(skipped[0]), expected="every iteration of the cell loop stores 1 or 0 into its cell",
                     found="an iteration can reach the loop latch without a store: some cells keep their old value (e.g. zeros under a negative threshold)")
    else:
        ck.ok(rule, inst, b.path, b.where(h), f"{len(sets)} store(s); every path of an iteration passes one")


def run(ck, prog):
    _run_pre_binarize(ck, prog)
    binarize_every_cell(ck, prog)


EXPLANATION += (' binarize_mut stores into every cell (no path of an iteration skips the store).')


# ------------------------------------------------------------------ generic: no magnitude is compared with a signed raw element
_run_pre_magnitude = run


def run(ck, prog):
    _run_pre_magnitude(ck, prog)
    from sa import magnitude
    magnitude.run_rule(ck, prog, set(DIMENSION_FILES))


# ------------------------------------------------------------------ generic: backward strided scans (`j -= step`) continue exactly while j >= step
_run_pre_subguard = run


def run(ck, prog):
    _run_pre_subguard(ck, prog)
    from sa import subguard
    subguard.run_rule(ck, prog, set(DIMENSION_FILES))


# ------------------------------------------------------------------ generic: a configuration field read on one successful path is read on every successful path
_run_pre_config = run


def run(ck, prog):
    _run_pre_config(ck, prog)
    from sa import config
    config.run_rule(ck, prog, set(DIMENSION_FILES))


# ------------------------------------------------------------------ generic: the value tested against a bound is the value set to the bound (clamps)
_run_pre_clamp = run


def run(ck, prog):
    _run_pre_clamp(ck, prog)
    from sa import clamp
    clamp.run_rule(ck, prog, set(DIMENSION_FILES))


# ------------------------------------------------------------------ generic: an index variable of one range addresses one buffer with one stride
_run_pre_stride = run


def run(ck, prog):
    _run_pre_stride(ck, prog)
    from sa import stride
    stride.run_rule(ck, prog, set(DIMENSION_FILES))
