"""C13 DBSCAN: density thresholds, eps provenance, parameter domain."""
from sa import e1, guards
from sa.e1 import G, BodyCtx
from sa.match import Dim, Field, Int, Zero, contains
from sa.mir import AnchorError
from sa.prov import render, Resolver

LEVEL = "other"
EXPLANATION = (
    "E1: every comparison of a neighbourhood size len(find_radius(..)) with min_samples puts equality on the core "
    "side (core iff size >= min_samples: only the >= side reaches cluster expansion / queue growth); every radius "
    "query in fit takes parameters.eps, the fitted model stores parameters.eps and predict queries with the stored "
    "eps; the parameter guards of fit refuse no eps > 0 and no min_samples >= 1. The radius boundary itself (d <= r, "
    "same in both backends) is the C04 gate rule, re-evaluated here together with the cover tree's pruning rule (a subtree is kept whenever d <= eps + covering radius, so a point at distance exactly eps is never pruned away: backend-independent neighbourhoods). Connectivity, border assignment and label "
    "numbering are not decided."
)
FIT = r"^cluster::dbscan::DBSCAN::<T, D>::fit$"
PRED = r"^cluster::dbscan::DBSCAN::<T, D>::predict$"
SPECS = [
    G("fit accepts every min_samples>=1", FIT, Field(2, "min_samples"), Int(), [], [("ge", 1)], "reject", int_domain=guards.USIZE),
    G("fit accepts every eps>0", FIT, Field(2, "eps"), Zero(), "", "p", "reject"),
]
IS_FR = lambda t: t[0] == "call" and t[1].endswith("::find_radius")
IS_PUSH = lambda f: f["path"].endswith("Vec::<T, A>::push")
IS_FRF = lambda f: f["path"].endswith("::find_radius")


def density(ck, prog):
    rule, inst = "E1-gate", "core iff |N_eps| >= min_samples"
    try:
        b = prog.one(FIT)
    except AnchorError as e:
        ck.violation(rule, inst, FIT, "", expected="anchor exists", found=f"anchor vanished: {e}")
        return
    cx = BodyCtx.of(b)
    ms = Field(2, "min_samples")
    n = 0
    for c in cx.cmps:
        for (L, R, lhs_subj) in ((c.lhs, c.rhs, True), (c.rhs, c.lhs, False)):
            d = Dim("len", None)
            from sa.match import dim_of
            dl = dim_of(L)
            if dl and dl[0] == "len" and contains(dl[1], IS_FR) and ms(R):
                n += 1
                # core-side sinks: pushes onto the work queue, and radius queries other than the one being compared
                sinks = set(guards.call_blocks(b, IS_PUSH))
                for bb in guards.call_blocks(b, IS_FRF):
                    if not b.dominates(bb, c.bb):
                        sinks.add(bb)
                acc = guards.gate_atoms(b, c, sinks, lhs_subj)
                if acc == frozenset("zp"):
                    ck.ok(rule, inst, b.path, c.where, f"`len(N) ? min_samples`: expansion reachable iff len >= min_samples")
                else:
                    ck.violation(rule, inst, b.path, c.where, ordinal=n,
                                 expected="cluster expansion reachable exactly when |N| > min_samples or |N| == min_samples",
                                 found=f"reachable under atoms {sorted(acc)} of sign(|N| - min_samples)")
    if n < 2:
        ck.violation(rule, inst, b.path, f"{b.loc[0]}:{b.loc[1]}", expected="two density comparisons (seed point, expansion point)",
                     found=f"found {n}")


def eps_flow(ck, prog):
    rule = "E2-provenance"
    try:
        fit = prog.one(FIT)
        pred = prog.one(PRED)
    except AnchorError as e:
        ck.violation(rule, "eps", FIT, "", expected="anchors exist", found=f"anchor vanished: {e}")
        return
    res = Resolver(fit)
    eps = Field(2, "eps")
    n = 0
    for bb, t in fit.calls():
        if t.get("f") and IS_FRF(t["f"]):
            n += 1
            r = res.operand(t["args"][-1])
            if eps(r):
                ck.ok(rule, "fit: radius query uses parameters.eps", fit.path, fit.where(bb), render(r))
            else:
                ck.violation(rule, "fit: radius query uses parameters.eps", fit.path, fit.where(bb), ordinal=n,
                             expected="radius argument is parameters.eps", found=f"radius argument is `{render(r)}`")
    if n < 2:
        ck.violation(rule, "fit: radius query uses parameters.eps", fit.path, "", expected="two radius queries in fit", found=f"{n}")
    # stored eps
    stored = None
    for i, j, s in fit.stmts():
        r = s["r"] if s["k"] == "assign" else None
        if r and r["k"] == "agg" and r.get("name", "").endswith("dbscan::DBSCAN") and "eps" in r["fields"]:
            stored = (res.operand(r["ops"][r["fields"].index("eps")]), fit.where(i, j))
    if stored and eps(stored[0]):
        ck.ok(rule, "fit stores parameters.eps", fit.path, stored[1], render(stored[0]))
    else:
        ck.violation(rule, "fit stores parameters.eps", fit.path, stored[1] if stored else "",
                     expected="the model's eps field is parameters.eps", found=render(stored[0]) if stored else "constructor not found")
    pres = Resolver(pred)
    m = 0
    for bb, t in pred.calls():
        if t.get("f") and IS_FRF(t["f"]):
            m += 1
            r = pres.operand(t["args"][-1])
            if Field(1, "eps")(r):
                ck.ok(rule, "predict queries with the stored eps", pred.path, pred.where(bb), render(r))
            else:
                ck.violation(rule, "predict queries with the stored eps", pred.path, pred.where(bb),
                             expected="radius argument is self.eps", found=f"`{render(r)}`")
    if m < 1:
        ck.violation(rule, "predict queries with the stored eps", pred.path, "", expected="a radius query in predict", found="none")


def run(ck, prog):
    e1.run(ck, prog, SPECS)
    density(ck, prog)
    eps_flow(ck, prog)
    from props import C04
    C04.radius_gate(ck, prog, C04.LS + "find_radius$", "LinearKNNSearch::find_radius admits d<=r")
    C04.radius_gate(ck, prog, C04.CT + "find_radius$", "CoverTree::find_radius admits d<=r")
    # the cover tree must not prune a subtree that can still hold a point at distance exactly eps
    C04.pruning(ck, prog, C04.CT + "find_radius$", "CoverTree::find_radius prunes by radius + max_dist",
                lambda t: t[0] == "arg" and t[1] == 3, frozenset("nz"))
    ck.floor("E2g-pruning", 1)
    ck.floor("E1-guard", 2)
    ck.floor("E1-gate", 4)
    ck.floor("E2-provenance", 4)


_run_pre_builders = run


def run(ck, prog):
    _run_pre_builders(ck, prog)
    # every setting of the quantifier is reachable through the public builder chain: setters must not clobber other fields
    from sa.builders import check_builders
    check_builders(ck, prog, r"^cluster::dbscan::DBSCANParameters$")
    ck.floor("E2-builder", 4)


# ------------------------------------------------------------------ predict: no state carried between rows
_run_pre_isolation = run


def run(ck, prog):
    _run_pre_isolation(ck, prog)
    from sa import isolation
    isolation.run_rule(ck, prog, [("DBSCAN::predict", PRED)], xarg=2)


TECHNIQUE = "static analysis of rustc MIR (custom rustc_private driver + rule engine): guard/post-dominance rules"

EXPLANATION += (" Row-loop isolation (E2-isolation): in the `for i in 0..rows(x)` loop of DBSCAN::predict every piece of state an "
                "iteration reads is completely re-defined earlier in the same iteration (fresh allocation, whole assignment, fill/clear/"
                "copy_row_as_vec, or a reset loop over the full length), except the loop iterator and the result container written "
                "at row i only: a buffer hoisted out of the loop and only partly reset makes the output for a row depend on the rows "
                "processed before it.")
TECHNIQUE += "; loop-carried-state (iteration isolation) rule on the row loops"


# ------------------------------------------------------------------ border points first seen as noise are picked up later
_run_pre_border = run
_REL = {"==": lambda a, b: a == b, "!=": lambda a, b: a != b, "<": lambda a, b: a < b, "<=": lambda a, b: a <= b,
        ">": lambda a, b: a > b, ">=": lambda a, b: a >= b}


def border_relabel(ck, prog):
    """A point visited before any of its core neighbours is provisionally marked as noise. When the expansion later reaches a
    core point q that has it in its neighbourhood, it must be enqueued or relabelled - otherwise a border point stays noise.
    Decided by constant-propagated reachability: with the examined label equal to the noise marker, a push onto the work
    queue or a store of a cluster id into the label vector is reachable inside the loop over q's neighbours."""
    from sa.match import dim_of
    rule, inst = "E1-gate", "expansion picks up neighbours currently marked as noise"
    try:
        b = prog.one(FIT)
    except AnchorError as e:
        ck.violation(rule, inst, FIT, "", expected="anchor exists", found=f"anchor vanished: {e}")
        return
    cx = BodyCtx.of(b)
    res = cx.res
    be = guards.back_edges(b)
    # the label vector: what the model stores as cluster_labels
    ylocal = None
    for i, j, s in b.stmts():
        r = s["r"] if s["k"] == "assign" else None
        if r and r["k"] == "agg" and r.get("name", "").endswith("dbscan::DBSCAN") and "cluster_labels" in r["fields"]:
            o = r["ops"][r["fields"].index("cluster_labels")]
            if o["k"] in ("move", "copy") and not o["p"]["pr"]:
                ylocal = o["p"]["l"]
                for _ in range(6):                                  # temporaries moved into the constructor
                    ds = [d for d in b.defs.get(ylocal, []) if d.kind == "assign"]
                    if len(b.defs.get(ylocal, [])) == 1 and ds and ds[0].data["r"]["k"] == "use" and \
                            ds[0].data["r"]["o"]["k"] in ("move", "copy") and not ds[0].data["r"]["o"]["p"]["pr"]:
                        ylocal = ds[0].data["r"]["o"]["p"]["l"]
                    else:
                        break
    fr = sorted(guards.call_blocks(b, IS_FRF), key=lambda bb: len(b.dom[bb]))
    if ylocal is None or len(fr) < 2:
        ck.note(f"{inst}: label vector / second radius query not found in DBSCAN::fit (different algorithm shape): no instance")
        return
    fr2 = fr[-1]
    stores = []
    for d in b.defs.get(ylocal, []):
        if d.kind == "store":
            stores.append((d.bb, res.rvalue(d.data["r"], 0, ())))
    # noise marker: the constant stored on the non-core side of the seed point's density test
    marker = None
    ms = Field(2, "min_samples")
    for c in cx.cmps:
        for (L, R, lhs_subj) in ((c.lhs, c.rhs, True), (c.rhs, c.lhs, False)):
            dl = dim_of(L)
            if not (dl and dl[0] == "len" and contains(dl[1], IS_FR) and ms(R)) or b.dominates(fr2, c.bb):
                continue
            rel = c.rel if lhs_subj else guards.FLIP[c.rel]
            for edge_rel, dst, other in ((rel, c.true_bb, c.false_bb), (guards.NEG[rel], c.false_bb, c.true_bb)):
                if guards.ATOMS[edge_rel] <= frozenset("n"):            # |N| < min_samples
                    here = b.reachable_from([dst], cut_edges=be)
                    there = b.reachable_from([other], cut_edges=be)
                    for (sb, v) in stores:
                        if sb in here and sb not in there and v[0] == "int":
                            marker = v[1]
    if marker is None:
        ck.note(f"{inst}: no constant noise marker stored on the |N| < min_samples side: no instance")
        return
    ycmps = [c for c in cx.cmps if b.dominates(fr2, c.bb) and c.bb != fr2 and c.rhs[0] == "int" and c.lhs[0] == "idx"]
    groups = {}
    for c in ycmps:
        groups.setdefault(render(c.lhs), []).append(c)
    if not groups:
        ck.note(f"{inst}: no label tests behind the second radius query: no instance")
        return
    grp = max(groups.values(), key=len)
    start = min(grp, key=lambda c: len(b.dom[c.bb])).bb
    cut = set(be)
    for c in grp:
        if _REL[c.rel](marker, c.rhs[1]):
            cut.add((c.bb, c.false_bb))
        else:
            cut.add((c.bb, c.true_bb))
    reach = b.reachable_from([start], cut_edges=frozenset(cut))
    sinks = {bb for bb in guards.call_blocks(b, IS_PUSH) if b.dominates(fr2, bb)}
    sinks |= {sb for (sb, v) in stores if b.dominates(fr2, sb) and v[0] != "int"}
    where = b.where(start)
    if reach & sinks:
        ck.ok(rule, inst, b.path, where, f"noise marker {marker}; with label == {marker} the queue push / relabel at "
              f"{sorted(b.where(s) for s in reach & sinks)[:2]} is reachable ({len(grp)} label tests evaluated)")
    else:
        ck.violation(rule, inst, b.path, where,
                     expected=f"with the neighbour's label equal to the noise marker ({marker}) a push onto the work queue or a store of the "
                              f"cluster id is reachable",
                     found=f"under label == {marker} the tests {[c.where for c in grp]} lead to neither: a border point that was visited before "
                           f"its core neighbour keeps the noise label")


def run(ck, prog):
    _run_pre_border(ck, prog)
    border_relabel(ck, prog)


# ------------------------------------------------------------------ generic: rows/cols (outer/inner) mix-up of locally allocated buffers
_run_pre_dimension = run
DIMENSION_FILES = ['src/algorithm/neighbour/cover_tree.rs', 'src/algorithm/neighbour/linear_search.rs', 'src/cluster/dbscan.rs']


def run(ck, prog):
    _run_pre_dimension(ck, prog)
    from sa import dimension
    dimension.run_rule(ck, prog, set(DIMENSION_FILES))


# ------------------------------------------------------------------ cover-tree construction (the default neighbourhood backend), pop-site relabel
_run_pre_ct = run


def pop_site_relabel(ck, prog):
    """Direct neighbours of a seed core point that were marked as noise earlier are on the work list from the start; when
    one is popped while still carrying the noise marker, a store of the cluster id must be reachable before the next
    radius query (constant-propagated gate on the label tests that follow the pop)."""
    rule, inst = "E1-gate", "a popped neighbour still marked as noise receives the cluster id"
    try:
        b = prog.one(FIT)
    except AnchorError as e:
        ck.violation(rule, inst, FIT, "", expected="anchor exists", found=f"anchor vanished: {e}")
        return
    cx = BodyCtx.of(b)
    res = cx.res
    be = guards.back_edges(b)
    pops = [bb for bb, t in b.calls() if t.get("f") and t["f"]["path"].endswith(("Vec::<T, A>::pop", "VecDeque::<T, A>::pop_front",
                                                                                 "VecDeque::<T, A>::pop_back", "Vec::<T, A>::remove"))]
    fr = sorted(guards.call_blocks(b, IS_FRF), key=lambda bb: len(b.dom[bb]))
    if not pops or len(fr) < 2:
        ck.note(f"{inst}: no work-list pop / second radius query in DBSCAN::fit: no instance")
        return
    fr2 = fr[-1]
    pop = [p for p in pops if b.dominates(p, fr2)]
    if not pop:
        ck.note(f"{inst}: the second radius query is not behind a work-list pop: no instance")
        return
    pop = pop[-1]
    # label vector and noise marker as in border_relabel
    ylocal, marker = _labels_and_marker(b, cx)
    if ylocal is None or marker is None:
        ck.note(f"{inst}: label vector / noise marker not identified: no instance")
        return
    stores = [(d.bb, res.rvalue(d.data["r"], 0, ())) for d in b.defs.get(ylocal, []) if d.kind == "store"]
    grp = [c for c in cx.cmps if b.dominates(pop, c.bb) and not b.dominates(fr2, c.bb) and c.rhs[0] == "int" and c.lhs[0] == "idx"]
    cut = set(be)
    for c in grp:
        if _REL[c.rel](marker, c.rhs[1]):
            cut.add((c.bb, c.false_bb))
        else:
            cut.add((c.bb, c.true_bb))
    # the marker is overwritten by the relabel itself: evaluate only up to the first store into the label vector
    reach = b.reachable_from([pop], cut_edges=frozenset(cut))
    sinks = {sb for (sb, v) in stores if b.dominates(pop, sb) and v[0] != "int" and not b.dominates(fr2, sb)}
    hit = set()
    for sb in sinks & reach:
        # reachable without passing another label store first (a store changes the label the tests read)
        others = frozenset(x for (x, _) in stores if x != sb and b.dominates(pop, x))
        if sb in b.reachable_from([pop], cut_edges=frozenset(cut), cut_blocks=others):
            hit.add(sb)
    where = b.where(pop)
    if hit:
        ck.ok(rule, inst, b.path, where, f"noise marker {marker}; with the popped label == {marker} the cluster-id store at "
              f"{sorted(b.where(s) for s in hit)[:2]} is reachable ({len(grp)} label tests evaluated)")
    else:
        ck.violation(rule, inst, b.path, where,
                     expected=f"with the popped neighbour's label equal to the noise marker ({marker}) a store of the cluster id is reachable",
                     found=f"under label == {marker} the tests {[c.where for c in grp][:4]} lead to no store of the cluster id: a border point that "
                           f"is a direct neighbour of the seed point but was visited earlier keeps the noise label")


def _labels_and_marker(b, cx):
    from sa.match import dim_of
    res = cx.res
    be = guards.back_edges(b)
    ylocal = None
    for i, j, s in b.stmts():
        r = s["r"] if s["k"] == "assign" else None
        if r and r["k"] == "agg" and r.get("name", "").endswith("dbscan::DBSCAN") and "cluster_labels" in r["fields"]:
            o = r["ops"][r["fields"].index("cluster_labels")]
            if o["k"] in ("move", "copy") and not o["p"]["pr"]:
                ylocal = o["p"]["l"]
                for _ in range(6):
                    ds = [d for d in b.defs.get(ylocal, []) if d.kind == "assign"]
                    if len(b.defs.get(ylocal, [])) == 1 and ds and ds[0].data["r"]["k"] == "use" and \
                            ds[0].data["r"]["o"]["k"] in ("move", "copy") and not ds[0].data["r"]["o"]["p"]["pr"]:
                        ylocal = ds[0].data["r"]["o"]["p"]["l"]
                    else:
                        break
    if ylocal is None:
        return None, None
    fr = sorted(guards.call_blocks(b, IS_FRF), key=lambda bb: len(b.dom[bb]))
    fr2 = fr[-1] if len(fr) >= 2 else None
    stores = [(d.bb, res.rvalue(d.data["r"], 0, ())) for d in b.defs.get(ylocal, []) if d.kind == "store"]
    marker = None
    ms = Field(2, "min_samples")
    for c in cx.cmps:
        for (L, R, lhs_subj) in ((c.lhs, c.rhs, True), (c.rhs, c.lhs, False)):
            dl = dim_of(L)
            if not (dl and dl[0] == "len" and contains(dl[1], IS_FR) and ms(R)) or (fr2 is not None and b.dominates(fr2, c.bb)):
                continue
            rel = c.rel if lhs_subj else guards.FLIP[c.rel]
            for edge_rel, dst, other in ((rel, c.true_bb, c.false_bb), (guards.NEG[rel], c.false_bb, c.true_bb)):
                if guards.ATOMS[edge_rel] <= frozenset("n"):
                    here = b.reachable_from([dst], cut_edges=be)
                    there = b.reachable_from([other], cut_edges=be)
                    for (sb, v) in stores:
                        if sb in here and sb not in there and v[0] == "int":
                            marker = v[1]
    return ylocal, marker


def run(ck, prog):
    _run_pre_ct(ck, prog)
    from props import C04
    # points on the cover radius stay in the tree; stored covering radii come from measured distances; duplicate leaves keep their index
    C04.cover_radius_boundary(ck, prog)
    C04.radius_provenance(ck, prog)
    C04.leaf_index_provenance(ck, prog)
    pop_site_relabel(ck, prog)


EXPLANATION += (" Border points: (i) with a neighbour's label equal to the noise marker (the constant stored on the |N| < min_samples "
                "side), the label tests in the loop over an expansion core point's neighbours leave a queue push or a cluster-id store "
                "reachable; (ii) a popped work-list entry still carrying the marker reaches a cluster-id store (constant-propagated gate). "
                "Cover-tree construction as in C04: points on the cover radius stay in the near set, covering radii come from measured "
                "distances, duplicate leaves keep their own index.")
TECHNIQUE += "; constant-propagated reachability (gate) rules"


# ------------------------------------------------------------------ predict: a row with no training point within eps is noise
_run_pre_empty = run


def empty_neighbourhood_is_noise(ck, prog):
    """'noise when there are none': with an empty neighbour list every slot of the vote table is zero. The arg-max helper
    resolves ties to the first (or last) index; the prediction is noise only if that index is the noise slot, or if an
    explicit emptiness test of the neighbour list leads to the noise value. Decided from: the tie class of the arg-max
    helper (which comparison replaces the running maximum), the slot the noise votes are counted in, and the gates on
    is_empty()/len() of the radius query's result."""
    from sa.siblings import argmax_tie_class
    from sa.match import dim_of
    rule, inst = "E1-gate", "predict: an empty neighbourhood yields the noise label"
    try:
        b = prog.one(PRED)
    except AnchorError as e:
        ck.violation(rule, inst, PRED, "", expected="anchor exists", found=f"anchor vanished: {e}")
        return
    cx = BodyCtx.of(b)
    res = cx.res
    am = [(bb, t) for bb, t in b.calls() if t.get("f") and t["f"]["name"] in ("which_max", "argmax")]
    if len(am) != 1:
        ck.note(f"{inst}: {len(am)} arg-max helper calls in DBSCAN::predict (vote resolved differently): no instance")
        return
    abb, at = am[0]
    cal = prog.bodies.get(at["f"].get("resolved") or "") or prog.bodies.get(at["f"]["path"])
    tie = argmax_tie_class(prog, cal) if cal is not None else None
    # (a) explicit emptiness gate: a test of len(N) / is_empty(N) one side of which reaches a result store without the arg-max
    gated = False
    sets = [bb for bb, t in b.calls() if t.get("f") and t["f"]["path"].endswith("BaseMatrix::set")]
    be = guards.back_edges(b)
    for c in cx.cmps:
        for (L, R) in ((c.lhs, c.rhs), (c.rhs, c.lhs)):
            dl = dim_of(L)
            if dl and dl[0] == "len" and contains(dl[1], IS_FR) and R == ("int", 0):
                for dst in (c.true_bb, c.false_bb):
                    r = b.reachable_from([dst], cut_edges=be, cut_blocks=frozenset([abb]))
                    if r & set(sets):
                        gated = True
    for (sw, term, tb, fb) in guards.bool_switches(b, res):
        if term[0] == "call" and term[1].endswith("::is_empty") and term[2] and contains(term[2][0], IS_FR):
            for dst in (tb, fb):
                r = b.reachable_from([dst], cut_edges=be, cut_blocks=frozenset([abb]))
                if r & set(sets):
                    gated = True
    # (b) the slot counted for unclustered neighbours
    noise_slot = None
    for c in cx.cmps:
        # the arg-max result compared with the noise slot index
        for (L, R) in ((c.lhs, c.rhs), (c.rhs, c.lhs)):
            if L[0] == "call" and L[1].endswith(("which_max", "argmax")):
                noise_slot = R
    where = b.where(abb)
    if gated:
        ck.ok(rule, inst, b.path, where, "an emptiness test of the neighbour list bypasses the vote")
        return
    if tie is None or noise_slot is None:
        ck.note(f"{inst}: tie class of the arg-max helper ({tie}) / noise slot ({noise_slot}) not recognised: not decided")
        return
    first_is_noise = noise_slot == ("int", 0)
    if (tie == "first" and first_is_noise) or (tie == "last" and not first_is_noise and noise_slot[0] == "field"):
        ck.ok(rule, inst, b.path, where, f"ties resolve to the {tie} slot, which is the noise slot `{render(noise_slot)}`")
    else:
        ck.violation(rule, inst, b.path, where,
                     expected="an all-zero vote table (no training point within eps) resolves to the noise slot, or an emptiness test returns noise",
                     found=f"the arg-max helper resolves ties to the {tie} index; the noise votes are in slot `{render(noise_slot)}`; with no "
                           f"neighbour every slot is 0, slot 0 wins and the row is labelled cluster 0 (whenever the model has a cluster)")


def run(ck, prog):
    _run_pre_empty(ck, prog)
    empty_neighbourhood_is_noise(ck, prog)


EXPLANATION += (" Empty neighbourhood: predict returns noise for a row with no training point within eps - an emptiness test of the "
                "radius query's result bypasses the vote, or the arg-max helper's tie class (first/last, read off the comparison that "
                "replaces the running maximum) selects the noise slot on an all-zero table.")


# ------------------------------------------------------------------ generic: signed counters are not cast to unsigned on their negative side
_run_pre_negcast = run


def run(ck, prog):
    _run_pre_negcast(ck, prog)
    from sa import negcast
    negcast.run_rule(ck, prog, set(DIMENSION_FILES))


# ------------------------------------------------------------------ generic: `while counter < bound` loops advance their counter
_run_pre_progress = run


def run(ck, prog):
    _run_pre_progress(ck, prog)
    from sa import progress
    progress.run_rule(ck, prog, set(DIMENSION_FILES))


# ------------------------------------------------------------------ generic: no magnitude is compared with a signed raw element
_run_pre_magnitude = run


def run(ck, prog):
    _run_pre_magnitude(ck, prog)
    from sa import magnitude
    magnitude.run_rule(ck, prog, set(DIMENSION_FILES))


# ------------------------------------------------------------------ generic: backward strided scans (`j -= step`) continue exactly while j >= step
_run_pre_subguard = run


def run(ck, prog):
    _run_pre_subguard(ck, prog)
    from sa import subguard
    subguard.run_rule(ck, prog, set(DIMENSION_FILES))


# ------------------------------------------------------------------ generic: a configuration field read on one successful path is read on every successful path
_run_pre_config = run


def run(ck, prog):
    _run_pre_config(ck, prog)
    from sa import config
    config.run_rule(ck, prog, set(DIMENSION_FILES))


# ------------------------------------------------------------------ generic: the value tested against a bound is the value set to the bound (clamps)
_run_pre_clamp = run


def run(ck, prog):
    _run_pre_clamp(ck, prog)
    from sa import clamp
    clamp.run_rule(ck, prog, set(DIMENSION_FILES))


# ------------------------------------------------------------------ generic: an index variable of one range addresses one buffer with one stride
_run_pre_stride = run


def run(ck, prog):
    _run_pre_stride(ck, prog)
    from sa import stride
    stride.run_rule(ck, prog, set(DIMENSION_FILES))
