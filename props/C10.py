"""C10 SVM: kernel symmetry (E3, proof of that clause) + label decoding (E2a)."""
from sa import absint, elementwise as ew, flow, guards
from sa.e1 import BodyCtx
from sa.mir import AnchorError
from sa.prov import Resolver, render, alts
from props.C09 import classes_from_unique

LEVEL = "proof"
EXPLANATION = (
    "Proof (abstract interpretation over MIR, all inputs, both float widths) of ONE clause of the statement: the four "
    "built-in kernels are symmetric, K(x,y) == K(y,x) bit for bit. Obligations: the abstract value of each "
    "Kernel::apply return place is S (swap-symmetric) in the parity domain, where apply is analysed polymorphically "
    "over V: BaseVector<T> using the vector-level axioms dot(X,Y):S, sub(X,Y):antisymmetric vector, mul(v,v):square, "
    "sum preserves parity; each axiom is itself an obligation discharged on the built-in Vec<T> implementation "
    "(dot and sum by the same interpreter on the impl bodies; sub/mul by the structural element-wise summary: copying "
    "variant = clone + in-place sibling, in-place sibling = one `self[i] op= other[i]` per i in 0..len). Additionally "
    "(E2a, not part of the proof count): SVC::predict stores classes[0|1] and classes = unique(y). Dual feasibility, "
    "KKT conditions, closed forms, positive semi-definiteness and termination are NOT decided."
)
CLAIM = EXPLANATION
TECHNIQUE = "abstract interpretation over rustc MIR (swap-parity domain) with structurally discharged vector axioms; value-provenance rule for labels"
NOTE = ("trusted base: rustc MIR; the transfer table of sa/absint.py (IEEE: negation, abs, products and commutative +,* are exactly "
        "sign-symmetric; external num_traits/std float functions are deterministic functions of their arguments); weak updates; the "
        "element-wise summary recogniser sa/elementwise.py")

KERNELS = ["LinearKernel", "RBFKernel<T>", "PolynomialKernel<T>", "SigmoidKernel<T>"]
VEC = "linalg::naive::dense_matrix::<impl linalg::BaseVector<T> for std::vec::Vec<T>>::"


def run(ck, prog):
    ck.trusted_base = [NOTE]
    rule = "E3-symmetry"
    for k in KERNELS:
        path = f"<svm::{k} as svm::Kernel<T, V>>::apply"
        b = prog.bodies.get(path)
        if not b:
            ck.obligation(rule, f"{k}::apply is symmetric", path, False, detail="anchor vanished")
            continue
        ai = absint.AbsInt(b, prog, {1: "S", 2: "XV", 3: "YV"})
        v = ai.val.get(0)
        ck.obligation(rule, f"{k}::apply is symmetric", b.path, v[0] == "S", site=f"{b.loc[0]}:{b.loc[1]}",
                      detail=f"abstract return value {v}; unknown callees {ai.unknown[:3]}",
                      expected="return place has parity S under exchange of the two arguments")
    # ---- axioms on Vec<T>
    rule = "E3-axiom"
    b = prog.bodies.get(VEC + "dot")
    if b:
        v = absint.AbsInt(b, prog, {1: "XV", 2: "YV"}).val.get(0)
        ck.obligation(rule, "Vec::dot(X,Y) is symmetric", b.path, v[0] == "S", site=f"{b.loc[0]}:{b.loc[1]}", detail=f"{v}")
    else:
        ck.obligation(rule, "Vec::dot(X,Y) is symmetric", VEC + "dot", False, detail="anchor vanished")
    b = prog.bodies.get(VEC + "sum")
    if b:
        v1 = absint.AbsInt(b, prog, {1: "SV"}).val.get(0)
        ck.obligation(rule, "Vec::sum preserves symmetry", b.path, v1[0] == "S", site=f"{b.loc[0]}:{b.loc[1]}", detail=f"sum(SV) = {v1}")
    else:
        ck.obligation(rule, "Vec::sum preserves symmetry", VEC + "sum", False, detail="anchor vanished")
    for op, want in (("sub", "Sub"), ("mul", "Mul")):
        inst = f"BaseVector::{op}(a,b)[i] == a[i] {want} b[i] on Vec<T>"
        d = prog.bodies.get(f"linalg::BaseVector::{op}")
        m = prog.bodies.get(VEC + op + "_mut")
        if not d or not m:
            ck.obligation(rule, inst, f"linalg::BaseVector::{op}", False, detail="anchor vanished")
            continue
        # no override of the copying variant on Vec<T>
        overridden = (VEC + op) in prog.bodies
        nm, p1 = ew.copying(prog, d)
        o, p2 = ew.vec_op(prog, m)
        ok = (not overridden) and nm == op + "_mut" and o == want
        ck.obligation(rule, inst, d.path, ok, site=f"{m.loc[0]}:{m.loc[1]}",
                      detail=f"copying -> {nm} ({p1}); {op}_mut is elementwise {o} ({p2}); overridden on Vec: {overridden}")
    ck.floor("E3-symmetry", 4)
    ck.floor("E3-axiom", 4)
    # ---- E2a (informational for the proof level; violations still fail the check)
    rule = "E2a-label-decode"
    try:
        b = prog.one(r"^svm::svc::SVC::<T, M, K>::predict$")
        res = Resolver(b)
        st = flow.label_stores(b, res)
        tbl = lambda t: t[0] == "field" and t[2] == "classes" and t[1][0] == "arg" and t[1][1] == 1
        if not st:
            ck.violation(rule, "SVC::predict stores classes[0|1]", b.path, "", expected="a store into the returned vector", found="none")
        for k, (bb, v) in enumerate(st):
            ok = flow.is_label_elem(v, tbl) and all(a[2][0] == "int" and a[2][1] in (0, 1) for a in alts(v))
            if ok:
                ck.ok(rule, "SVC::predict stores classes[0|1]", b.path, b.where(bb), render(v)[:100])
            else:
                ck.violation(rule, "SVC::predict stores classes[0|1]", b.path, b.where(bb), ordinal=k,
                             expected="an element of self.classes at index 0 or 1", found=render(v)[:200])
    except AnchorError as e:
        ck.violation(rule, "SVC::predict stores classes[0|1]", "SVC::predict", "", expected="anchor exists", found=f"anchor vanished: {e}")
    classes_from_unique(ck, prog, r"^svm::svc::SVC::<T, M, K>::fit$", "SVC::fit: classes = unique(y)", "svc::SVC")


_run_pre_builders = run


def run(ck, prog):
    _run_pre_builders(ck, prog)
    # every setting of the quantifier is reachable through the public builder chain: setters must not clobber other fields
    from sa.builders import check_builders
    check_builders(ck, prog, r"^svm::(svc::SVC|svr::SVR)Parameters$")
    ck.floor("E2-builder", 8)


# ------------------------------------------------------------------ per-row outputs: no state carried between row iterations
_run_pre_isolation = run
ISOLATION_FNS = [('SVC::decision_function', '^svm::svc::SVC::<T, M, K>::decision_function$'), ('SVR::predict', '^svm::svr::SVR::<T, M, K>::predict$')]


def run(ck, prog):
    _run_pre_isolation(ck, prog)
    from sa import isolation
    isolation.run_rule(ck, prog, ISOLATION_FNS, xarg=2)


# ------------------------------------------------------------------ RBF kernel: translation-invariant form
_run_pre_difference = run


def run(ck, prog):
    _run_pre_difference(ck, prog)
    from sa import difference
    difference.run_rule(ck, prog, [("RBFKernel::apply", r"^<svm::RBFKernel<T> as svm::Kernel<T, V>>::apply$", 2, 3)])
    ck.floor("E2f-difference", 1)


EXPLANATION += (" Row-loop isolation (E2-isolation): in the `for i in 0..rows(x)` loop of SVC::decision_function and SVR::predict every piece of state an "
                "iteration reads is completely re-defined earlier in the same iteration (fresh allocation, whole assignment, fill/clear/"
                "copy_row_as_vec, or a reset loop over the full length), except the loop iterator and the result container written "
                "at row i only: a buffer hoisted out of the loop and only partly reset makes the output for a row depend on the rows "
                "processed before it.")
TECHNIQUE += "; loop-carried-state (iteration isolation) rule on the row loops"


EXPLANATION += (" Difference form (E2f-difference): the RBF kernel depend on their two vector arguments only through x - y - no "
                "arithmetic node of the result (dot, norm, sum, product, power) is computed from one of the vectors alone. The "
                "algebraically equal expansion |x|^2 + |y|^2 - 2 x.y cancels catastrophically for data with a large common offset "
                "(distinct points at distance 0, K = 1 or K > 1, negative squared distances).")
TECHNIQUE += "; difference-form provenance rule"


# ------------------------------------------------------------------ generic: rows/cols (outer/inner) mix-up of locally allocated buffers
_run_pre_dimension = run
DIMENSION_FILES = ['src/svm/mod.rs', 'src/svm/svc.rs', 'src/svm/svr.rs']


def run(ck, prog):
    _run_pre_dimension(ck, prog)
    from sa import dimension
    dimension.run_rule(ck, prog, set(DIMENSION_FILES))


# ------------------------------------------------------------------ generic: signed counters are not cast to unsigned on their negative side
_run_pre_negcast = run


def run(ck, prog):
    _run_pre_negcast(ck, prog)
    from sa import negcast
    negcast.run_rule(ck, prog, set(DIMENSION_FILES))


# ------------------------------------------------------------------ generic: `while counter < bound` loops advance their counter
_run_pre_progress = run


def run(ck, prog):
    _run_pre_progress(ck, prog)
    from sa import progress
    progress.run_rule(ck, prog, set(DIMENSION_FILES))


# ------------------------------------------------------------------ SVC::fit: every label goes through the class table
_run_pre_remap = run


def svc_label_remap(ck, prog):
    """'both label encodings ({-1,1} and arbitrary pairs)': the internal targets are -1 for classes[0] and +1 for classes[1],
    decided by comparing the label with the class table - also when the label happens to be -1 or 1 already (with classes
    {1, 2} the label 1 must become -1). Constant-propagated gate: for a label equal to -1, to 1 and to neither, every path
    through one iteration of the remapping loop passes a store into the working copy of y."""
    from sa.isolation import natural_loops
    rule, inst = "E1-gate", "SVC::fit remaps every label through the class table, including labels equal to -1 or 1"
    bs = prog.find(r"^svm::svc::SVC::<T, M, K>::fit$")
    if len(bs) != 1:
        ck.violation(rule, inst, "SVC::fit", "", expected="anchor exists", found=f"{len(bs)} bodies")
        return
    b = bs[0]
    cx = BodyCtx.of(b)
    res = cx.res
    sets = [bb for bb, t in b.calls() if t.get("f") and t["f"]["path"].endswith("BaseVector::set")]
    loops = natural_loops(b)
    loop = [(h, nodes) for h, nodes in loops.items() if any(s in nodes for s in sets)]
    if not sets or not loop:
        ck.note(f"{inst}: no element-wise remapping loop with BaseVector::set in SVC::fit: no instance")
        return
    h, nodes = min(loop, key=lambda x: len(x[1]))
    be = guards.back_edges(b)
    latches = [u for (u, hh) in be if hh == h]

    def const_of(t):
        if t[0] == "call" and t[1].endswith("::one") and not t[2]:
            return 1
        if t[0] == "call" and t[1].endswith(("Neg::neg", "::neg")) and t[2] and const_of(t[2][0]) == 1:
            return -1
        if t[0] == "un" and t[1] == "Neg" and const_of(t[2]) == 1:
            return -1
        return None
    is_label = lambda t: t[0] == "call" and t[1].endswith("BaseVector::get")
    tests = []
    for c in cx.cmps:
        if c.bb not in nodes:
            continue
        for (L, R, rel) in ((c.lhs, c.rhs, c.rel), (c.rhs, c.lhs, guards.FLIP[c.rel])):
            k = const_of(R)
            if is_label(L) and k is not None and rel in ("==", "!="):
                tests.append((c, k, rel))
    bad = []
    for v in (-1, 1, 7):
        cut = set(be)
        for c, k, rel in tests:
            truth = (v == k) if rel == "==" else (v != k)
            cut.add((c.bb, c.false_bb) if truth else (c.bb, c.true_bb))
        reach = b.reachable_from([h], cut_edges=frozenset(cut), cut_blocks=frozenset(sets))
        if any(u in reach for u in latches):
            bad.append(v)
    where = b.where(h)
    if bad:
        ck.violation(rule, inst, b.path, where, expected="a store into the working labels on every path of an iteration, whatever the label value",
                     found=f"a label equal to {bad} passes the loop body without being remapped ({len(tests)} tests of the label against -1 / 1 evaluated): "
                           f"with classes such as {{1, 2}} or {{-3, -1}} both classes end up with the same internal target")
    else:
        ck.ok(rule, inst, b.path, where, f"labels -1, 1 and any other value all reach a remapping store ({len(tests)} label tests evaluated)")


def run(ck, prog):
    _run_pre_remap(ck, prog)
    svc_label_remap(ck, prog)


EXPLANATION += (' SVC::fit remaps every label through the class table, also labels equal to -1 or 1 (constant-propagated gate).')


# ------------------------------------------------------------------ generic: no magnitude is compared with a signed raw element
_run_pre_magnitude = run


def run(ck, prog):
    _run_pre_magnitude(ck, prog)
    from sa import magnitude
    magnitude.run_rule(ck, prog, set(DIMENSION_FILES))


# ------------------------------------------------------------------ generic: backward strided scans (`j -= step`) continue exactly while j >= step
_run_pre_subguard = run


def run(ck, prog):
    _run_pre_subguard(ck, prog)
    from sa import subguard
    subguard.run_rule(ck, prog, set(DIMENSION_FILES))


# ------------------------------------------------------------------ generic: a configuration field read on one successful path is read on every successful path
_run_pre_config = run


def run(ck, prog):
    _run_pre_config(ck, prog)
    from sa import config
    config.run_rule(ck, prog, set(DIMENSION_FILES))


# ------------------------------------------------------------------ generic: the value tested against a bound is the value set to the bound (clamps)
_run_pre_clamp = run


def run(ck, prog):
    _run_pre_clamp(ck, prog)
    from sa import clamp
    clamp.run_rule(ck, prog, set(DIMENSION_FILES))


# ------------------------------------------------------------------ generic: an index variable of one range addresses one buffer with one stride
_run_pre_stride = run


def run(ck, prog):
    _run_pre_stride(ck, prog)
    from sa import stride
    stride.run_rule(ck, prog, set(DIMENSION_FILES))
