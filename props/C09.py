"""C09 logistic regression: label decoding (E2a)."""
from sa import flow
from sa.mir import AnchorError
from sa.prov import Resolver, render

LEVEL = "other"
EXPLANATION = (
    "E2a label decoding: every value LogisticRegression::predict stores into the returned vector is an element of the "
    "model's class-label table self.classes (binary arm: classes[0|1]; multi-class arm: classes[argmax]) with no "
    "arithmetic and no numeric conversion on the way - 'predicted labels are original label values'. The table itself "
    "has value provenance unique(y) in fit. Stationarity, monotone decrease and L-BFGS behaviour are not decided."
)
TECHNIQUE = "static analysis of rustc MIR: value-provenance slice of the predicted labels"

SELF_CLASSES = lambda t: t[0] == "field" and t[2] == "classes" and t[1][0] == "arg" and t[1][1] == 1


def decode_rule(ck, prog, fn, inst, floor, table=SELF_CLASSES, what="self.classes"):
    rule = "E2a-label-decode"
    try:
        b = prog.one(fn)
    except AnchorError as e:
        ck.violation(rule, inst, fn, "", expected="anchor exists", found=f"anchor vanished: {e}")
        return None
    res = Resolver(b)
    st = flow.label_stores(b, res)
    if len(st) < floor:
        ck.violation(rule, inst, b.path, f"{b.loc[0]}:{b.loc[1]}", expected=f">= {floor} stores into the returned vector", found=f"{len(st)} found")
    for k, (bb, v) in enumerate(st):
        if flow.is_label_elem(v, table):
            ck.ok(rule, inst, b.path, b.where(bb), render(v)[:120])
        else:
            ck.violation(rule, inst, b.path, b.where(bb), ordinal=k,
                         expected=f"the stored value is an element of {what} (original label), no arithmetic / conversion",
                         found=f"stores `{render(v)[:200]}`")
    return b


def classes_from_unique(ck, prog, fn, inst, ctor_suffix, y_arg=2, field="classes"):
    """in fit, the model's label table is unique(y) (possibly via from_row_vector(y))"""
    rule = "E2a-label-table"
    try:
        b = prog.one(fn)
    except AnchorError as e:
        ck.violation(rule, inst, fn, "", expected="anchor exists", found=f"anchor vanished: {e}")
        return
    res = Resolver(b)
    found = False
    for i, j, s in b.stmts():
        r = s["r"] if s["k"] == "assign" else None
        if r and r["k"] == "agg" and r.get("name", "").endswith(ctor_suffix) and field in r.get("fields", []):
            found = True
            t = res.operand(r["ops"][r["fields"].index(field)])
            ok = False
            from sa.prov import subterms, alts
            for a in alts(t):
                if a[0] == "call" and a[1].endswith("::unique") and any(s2[0] == "arg" and s2[1] == y_arg for s2 in subterms(a)):
                    ok = True
                else:
                    ok = False
                    break
            if ok:
                ck.ok(rule, inst, b.path, b.where(i, j), render(t)[:100])
            else:
                ck.violation(rule, inst, b.path, b.where(i, j), expected=f"{field} = unique(y)", found=render(t)[:200])
    if not found:
        ck.violation(rule, inst, b.path, f"{b.loc[0]}:{b.loc[1]}", expected=f"a constructor of {ctor_suffix} with field {field}", found="none")


def run(ck, prog):
    decode_rule(ck, prog, r"^linear::logistic_regression::LogisticRegression::<T, M>::predict$",
                "LogisticRegression::predict stores classes[..]", 2)
    classes_from_unique(ck, prog, r"^linear::logistic_regression::LogisticRegression::<T, M>::fit$",
                        "LogisticRegression::fit: classes = unique(y)", "LogisticRegression")
    ck.floor("E2a-label-decode", 2)
    ck.floor("E2a-label-table", 1)


_run_pre_builders = run


def run(ck, prog):
    _run_pre_builders(ck, prog)
    # every setting of the quantifier is reachable through the public builder chain: setters must not clobber other fields
    from sa.builders import check_builders
    check_builders(ck, prog, r"^linear::logistic_regression::LogisticRegressionParameters$")
    ck.floor("E2-builder", 2)


# ------------------------------------------------------------------ per-row outputs: no state carried between row iterations
_run_pre_isolation = run
ISOLATION_FNS = [('LogisticRegression::predict', '^linear::logistic_regression::LogisticRegression::<T, M>::predict$')]


def run(ck, prog):
    _run_pre_isolation(ck, prog)
    from sa import isolation
    isolation.run_rule(ck, prog, ISOLATION_FNS, xarg=2)


EXPLANATION += (" Row-loop isolation (E2-isolation): in the `for i in 0..rows(x)` loop of LogisticRegression::predict every piece of state an "
                "iteration reads is completely re-defined earlier in the same iteration (fresh allocation, whole assignment, fill/clear/"
                "copy_row_as_vec, or a reset loop over the full length), except the loop iterator and the result container written "
                "at row i only: a buffer hoisted out of the loop and only partly reset makes the output for a row depend on the rows "
                "processed before it.")
TECHNIQUE += "; loop-carried-state (iteration isolation) rule on the row loops"


# ------------------------------------------------------------------ generic: rows/cols (outer/inner) mix-up of locally allocated buffers
_run_pre_dimension = run
DIMENSION_FILES = ['src/linalg/naive/dense_matrix.rs', 'src/linear/logistic_regression.rs', 'src/math/num.rs', 'src/optimization/first_order/lbfgs.rs', 'src/optimization/line_search.rs']


def run(ck, prog):
    _run_pre_dimension(ck, prog)
    from sa import dimension
    dimension.run_rule(ck, prog, set(DIMENSION_FILES))


# ------------------------------------------------------------------ generic: signed counters are not cast to unsigned on their negative side
_run_pre_negcast = run


def run(ck, prog):
    _run_pre_negcast(ck, prog)
    from sa import negcast
    negcast.run_rule(ck, prog, set(DIMENSION_FILES))


# ------------------------------------------------------------------ generic: `while counter < bound` loops advance their counter
_run_pre_progress = run


def run(ck, prog):
    _run_pre_progress(ck, prog)
    from sa import progress
    progress.run_rule(ck, prog, set(DIMENSION_FILES))


# ------------------------------------------------------------------ labels reach class indices only through the class table
_run_pre_taint = run


def label_taint(ck, prog):
    """'Labels need not be 0..k-1 / integers': the class index of a sample is the position of its label in `classes`
    (a look-up by comparison), never a numeric conversion of the label itself. No value derived from y - other than through
    unique() / its length - reaches a float->int conversion or an index position in LogisticRegression::fit and its closures."""
    from props.C11 import y_raw, CONV
    rule, inst = "E2b-label-taint", "LogisticRegression::fit: labels are mapped to class indices by look-up, not by conversion"
    bs = prog.find(r"^linear::logistic_regression::LogisticRegression::<T, M>::fit$")
    if len(bs) != 1:
        ck.violation(rule, inst, "LogisticRegression::fit", "", expected="anchor exists", found=f"{len(bs)} bodies")
        return
    b = bs[0]
    yarg = 2
    problems = []
    n = 0
    stop = ("::unique", "::unique_with_indices", "::len", "::shape")
    for bd in [b] + prog.closures_of.get(b.path, []):
        rs = Resolver(bd)
        for bb, t in bd.calls():
            f = t.get("f")
            if not f:
                continue
            if f["path"].endswith(CONV) and t["args"]:
                n += 1
                a = rs.operand(t["args"][0])
                if bd is b and y_raw(a, yarg, stop):
                    problems.append(f"label value converted to an integer by {f['path'].split('::')[-1]} at {bd.where(bb)}: `{render(a)[:70]}`")
            if f["path"] in ("std::ops::Index::index", "std::ops::IndexMut::index_mut") and len(t["args"]) == 2:
                n += 1
                a = rs.operand(t["args"][1])
                if bd is b and y_raw(a, yarg, stop):
                    problems.append(f"label value used as an index at {bd.where(bb)}: `{render(a)[:70]}`")
        for i, j, s in bd.stmts():
            if s["k"] == "assign" and s["r"]["k"] == "cast" and s["r"]["ck"] == "FloatToInt":
                n += 1
                a = rs.operand(s["r"]["o"])
                if bd is b and y_raw(a, yarg, stop):
                    problems.append(f"label value cast to an integer at {bd.where(i, j)}")
    site = f"{b.loc[0]}:{b.loc[1]}"
    if problems:
        ck.violation(rule, inst, b.path, site, expected="class index = position of the label in classes", found="; ".join(problems[:3]))
    else:
        ck.ok(rule, inst, b.path, site, f"{n} conversion / index sites, none fed by a raw label")


def run(ck, prog):
    _run_pre_taint(ck, prog)
    label_taint(ck, prog)


EXPLANATION += (' Labels reach class indices only through the class table: no label-derived value is converted to an integer or used as an index in fit (E2b-label-taint).')


# ------------------------------------------------------------------ generic: no magnitude is compared with a signed raw element
_run_pre_magnitude = run


def run(ck, prog):
    _run_pre_magnitude(ck, prog)
    from sa import magnitude
    magnitude.run_rule(ck, prog, set(DIMENSION_FILES))


# ------------------------------------------------------------------ generic: backward strided scans (`j -= step`) continue exactly while j >= step
_run_pre_subguard = run


def run(ck, prog):
    _run_pre_subguard(ck, prog)
    from sa import subguard
    subguard.run_rule(ck, prog, set(DIMENSION_FILES))


# ------------------------------------------------------------------ generic: a configuration field read on one successful path is read on every successful path
_run_pre_config = run


def run(ck, prog):
    _run_pre_config(ck, prog)
    from sa import config
    config.run_rule(ck, prog, set(DIMENSION_FILES))


# ------------------------------------------------------------------ generic: the value tested against a bound is the value set to the bound (clamps)
_run_pre_clamp = run


def run(ck, prog):
    _run_pre_clamp(ck, prog)
    from sa import clamp
    clamp.run_rule(ck, prog, set(DIMENSION_FILES))


# ------------------------------------------------------------------ generic: an index variable of one range addresses one buffer with one stride
_run_pre_stride = run


def run(ck, prog):
    _run_pre_stride(ck, prog)
    from sa import stride
    stride.run_rule(ck, prog, set(DIMENSION_FILES))
