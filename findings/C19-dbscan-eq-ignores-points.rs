// DBSCAN::eq ignores the stored training points: two models fitted on different rows compare equal although they
// predict differently.  Fails on the tree as it stands (recorded finding of C19).
use smartcore::cluster::dbscan::{DBSCAN, DBSCANParameters};
use smartcore::linalg::naive::dense_matrix::DenseMatrix;
use smartcore::neighbors::KNNAlgorithmName;

fn fit(shift: f64, algo: KNNAlgorithmName) -> DBSCAN<f64, smartcore::math::distance::euclidian::Euclidian> {
    let x = DenseMatrix::from_2d_array(&[
        &[0.0 + shift], &[0.1 + shift], &[0.2 + shift], &[10.0 + shift], &[10.1 + shift], &[10.2 + shift],
    ]);
    DBSCAN::fit(&x, DBSCANParameters::default().with_eps(0.5).with_min_samples(2).with_algorithm(algo)).unwrap()
}

#[test]
fn models_fitted_on_different_rows_are_not_equal() {
    for algo in [KNNAlgorithmName::LinearSearch, KNNAlgorithmName::CoverTree] {
        let a = fit(0.0, algo.clone());
        let b = fit(100.0, algo.clone());
        let q = DenseMatrix::from_2d_array(&[&[0.1]]);
        let pa = a.predict(&q).unwrap();
        let pb = b.predict(&q).unwrap();
        assert_ne!(pa, pb, "the two models predict differently on [0.1]");
        assert!(a != b, "models fitted on different rows (and predicting differently) compare equal");
    }
}
