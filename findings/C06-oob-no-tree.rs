// C06: RandomForestRegressor::predict_oob silently returns NaN (inside Ok) for every
// training row that has no out-of-bag tree (0/0 in predict_for_row_oob).
use smartcore::ensemble::random_forest_regressor::*;
use smartcore::linalg::naive::dense_matrix::DenseMatrix;

#[test]
fn oob_prediction_is_never_nan() {
    let x = DenseMatrix::from_2d_array(&[&[1.0], &[2.0], &[3.0], &[4.0], &[5.0], &[6.0]]);
    let y: Vec<f64> = vec![1.0, 2.0, 3.0, 4.0, 5.0, 6.0];
    let (lo, hi): (f64, f64) = (1.0, 6.0);

    for seed in 0..20u64 {
        let rf = RandomForestRegressor::fit(
            &x,
            &y,
            RandomForestRegressorParameters::default()
                .with_n_trees(1)
                .with_keep_samples(true)
                .with_seed(seed),
        )
        .unwrap();

        // ordinary predictions are fine
        for v in rf.predict(&x).unwrap() {
            assert!(v >= lo && v <= hi);
        }

        // With a single tree every in-bag row has an empty set of OOB trees.  A correct
        // implementation either refuses (Err) or returns a finite value inside the target
        // range for every row; it must not hand back NaN inside an Ok.
        match rf.predict_oob(&x) {
            Err(_) => {}
            Ok(oob) => {
                for (i, v) in oob.iter().enumerate() {
                    assert!(
                        v.is_finite() && *v >= lo && *v <= hi,
                        "seed {}: OOB prediction for row {} is {} (expected a value in [{}, {}] or an Err)",
                        seed, i, v, lo, hi
                    );
                }
            }
        }
    }
}
