// F-beta must follow from the binary confusion counts:
//   F_beta = (1+b^2) tp / ((1+b^2) tp + b^2 fn + fp)
// When the classifier predicts no positive at all (tp = 0, fp = 0) but the ground truth
// has positives (fn > 0) the counts give F_beta = 0 / (b^2 fn) = 0.
// The library computes precision = 0/0 = NaN first and lets it poison the result.
use smartcore::metrics::f1::F1;
use smartcore::metrics::{f1, ClassificationMetrics};

fn f_from_counts(y_true: &[f64], y_pred: &[f64], beta: f64) -> f64 {
    let (mut tp, mut fp, mut fn_) = (0.0, 0.0, 0.0);
    for i in 0..y_true.len() {
        if y_true[i] == 1.0 && y_pred[i] == 1.0 {
            tp += 1.0;
        }
        if y_true[i] == 0.0 && y_pred[i] == 1.0 {
            fp += 1.0;
        }
        if y_true[i] == 1.0 && y_pred[i] == 0.0 {
            fn_ += 1.0;
        }
    }
    let b2 = beta * beta;
    (1.0 + b2) * tp / ((1.0 + b2) * tp + b2 * fn_ + fp)
}

#[test]
fn f_beta_is_zero_when_nothing_is_predicted_positive() {
    let y_true: Vec<f64> = vec![1., 0., 1., 0., 0., 1.];
    let y_pred: Vec<f64> = vec![0., 0., 0., 0., 0., 0.];

    for &beta in &[0.5, 1.0, 2.0] {
        let expected = f_from_counts(&y_true, &y_pred, beta);
        assert_eq!(expected, 0.0);

        let got: f64 = F1 { beta }.get_score(&y_true, &y_pred);
        assert!(
            got == expected,
            "beta = {}: F-beta from the confusion counts is {}, library returned {}",
            beta,
            expected,
            got
        );
        let got: f64 = f1(&y_true, &y_pred, beta);
        assert!(got == expected, "metrics::f1 returned {}", got);
        let got: f64 = ClassificationMetrics::f1(beta).get_score(&y_true, &y_pred);
        assert!(got == expected, "ClassificationMetrics::f1 returned {}", got);
    }
}

#[test]
fn f_beta_single_positive_missed() {
    // a single positive in the ground truth, missed by the classifier
    let y_true: Vec<f32> = vec![0., 0., 0., 1., 0.];
    let y_pred: Vec<f32> = vec![0., 0., 0., 0., 0.];
    let got: f32 = F1 { beta: 1.0f32 }.get_score(&y_true, &y_pred);
    assert!(got == 0.0, "expected 0, got {}", got);
}
