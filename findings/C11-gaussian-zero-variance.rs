// GaussianNB::predict panics (Option::unwrap on a None partial_cmp in
// BaseNaiveBayes::predict) as soon as one class has a zero per-class variance
// for some feature: the Gaussian log-density is evaluated as
//   -(x-mu)^2/(2*0) - ln(2 pi)/2 - ln(0)/2  =  NaN   (0/0 or -inf + inf)
// and the arg-max over classes compares NaNs.
//
// Zero variances are unavoidable inside the documented domain: a class with a
// single training row (every 2-row / 2-class training set!), or a feature that
// is constant within one class.
use smartcore::linalg::naive::dense_matrix::DenseMatrix;
use smartcore::naive_bayes::gaussian::GaussianNB;

// Smallest valid training set: 2 rows, 2 classes, 1 feature.
#[test]
fn two_rows_two_classes() {
    let x = DenseMatrix::from_2d_array(&[&[-1.0], &[1.0]]);
    let y = vec![3., 8.];
    let nb = GaussianNB::fit(&x, &y, Default::default()).unwrap();
    assert_eq!(nb.classes(), &vec![3., 8.]);
    assert_eq!(nb.class_count(), &vec![1, 1]);
    assert_eq!(nb.theta(), &vec![vec![-1.0], vec![1.0]]);
    // each training row sits exactly on the mean of its own class and
    // infinitely many standard deviations away from the other one
    let y_hat = nb.predict(&x).unwrap();
    assert_eq!(y_hat, y);
}

// Skewed frequencies: the minority class has one single row.
#[test]
fn singleton_minority_class() {
    let x = DenseMatrix::from_2d_array(&[
        &[0.0, 0.3],
        &[0.2, -0.1],
        &[-0.1, 0.1],
        &[0.1, -0.2],
        &[10.0, 10.0],
    ]);
    let y = vec![1., 1., 1., 1., 5.];
    let nb = GaussianNB::fit(&x, &y, Default::default()).unwrap();
    assert_eq!(nb.class_count(), &vec![4, 1]);
    let y_hat = nb.predict(&x).unwrap();
    assert_eq!(y_hat, y);
}

// Every class has several rows, but one feature is constant inside class 0.
#[test]
fn feature_constant_within_one_class() {
    let x = DenseMatrix::from_2d_array(&[
        &[1.0, 0.0],
        &[2.0, 0.0],
        &[3.0, 0.0],
        &[11.0, 1.0],
        &[12.0, 2.0],
        &[13.0, 3.0],
    ]);
    let y = vec![0., 0., 0., 1., 1., 1.];
    let nb = GaussianNB::fit(&x, &y, Default::default()).unwrap();
    assert_eq!(nb.var()[0][1], 0.0);
    let y_hat = nb.predict(&x).unwrap();
    assert_eq!(y_hat, y);
}
