// C18: values within 0.001 of an integer (but not integers) pass Categorizable::is_valid,
// so OneHotEncoder::fit accepts non-integer columns and transform accepts unseen values.
use smartcore::linalg::naive::dense_matrix::DenseMatrix;
use smartcore::linalg::BaseMatrix;
use smartcore::preprocessing::categorical::{OneHotEncoder, OneHotEncoderParams};

#[test]
fn fit_rejects_near_integer_f64() {
    let m = DenseMatrix::from_2d_array(&[&[1.0, 7.5], &[2.0005, 8.5], &[3.0, 9.5]]);
    let r = OneHotEncoder::fit(&m, OneHotEncoderParams::from_cat_idx(&[0]));
    assert!(r.is_err(), "fit accepted the non-integer value 2.0005 in a categorical column");
}

#[test]
fn fit_rejects_near_integer_f32() {
    let m: DenseMatrix<f32> =
        DenseMatrix::from_2d_array(&[&[1.0, 7.5], &[2.0005, 8.5], &[3.0, 9.5]]);
    let r = OneHotEncoder::fit(&m, OneHotEncoderParams::from_cat_idx(&[0]));
    assert!(r.is_err(), "fit accepted the non-integer value 2.0005 in a categorical column");
}

#[test]
fn fit_rejects_slightly_negative() {
    let m = DenseMatrix::from_2d_array(&[&[0.0, 7.5], &[-0.0005, 8.5], &[3.0, 9.5]]);
    let r = OneHotEncoder::fit(&m, OneHotEncoderParams::from_cat_idx(&[0]));
    assert!(r.is_err(), "fit accepted the non-integer value -0.0005 in a categorical column");
}

#[test]
fn transform_rejects_unseen_near_integer() {
    let m = DenseMatrix::from_2d_array(&[&[1.0, 7.5], &[2.0, 8.5], &[3.0, 9.5]]);
    let enc = OneHotEncoder::fit(&m, OneHotEncoderParams::from_cat_idx(&[0])).unwrap();
    // 2.0005 was never seen during fitting
    let x = DenseMatrix::from_2d_array(&[&[1.0, 7.5], &[2.0005, 8.5], &[3.0, 9.5]]);
    let r = enc.transform(&x);
    assert!(
        r.is_err(),
        "transform encoded the unseen value 2.0005 as category 2: {:?}",
        r.map(|m| m.get_row_as_vec(1))
    );
}
