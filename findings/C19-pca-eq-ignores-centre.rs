// PCA::eq only looks at the full eigenvector matrix and the eigenvalues. It ignores
// `projection` (hence n_components), `mu` and `pmu`, i.e. everything that `transform`
// actually uses, so models that map the same input to different outputs (even to outputs
// of a different shape) compare equal.
use smartcore::decomposition::pca::*;
use smartcore::linalg::naive::dense_matrix::DenseMatrix;
use smartcore::linalg::BaseMatrix;

fn data() -> DenseMatrix<f64> {
    // column sums are multiples of 8 (8 rows), so the column means are exact integers
    DenseMatrix::from_2d_array(&[
        &[1., 2., 3.],
        &[5., 1., 0.],
        &[2., 7., 4.],
        &[8., 2., 1.],
        &[3., 9., 6.],
        &[0., 4., 2.],
        &[6., 3., 7.],
        &[7., 4., 1.],
    ])
}

#[test]
fn pca_eq_is_reflexive_for_a_refit() {
    // sanity: passes before and after a fix
    let x = data();
    let a = PCA::fit(&x, PCAParameters::default().with_n_components(2)).unwrap();
    let b = PCA::fit(&x, PCAParameters::default().with_n_components(2)).unwrap();
    assert!(a == b);
}

#[test]
fn pca_eq_must_see_n_components() {
    let x = data();
    let a = PCA::fit(&x, PCAParameters::default().with_n_components(1)).unwrap();
    let b = PCA::fit(&x, PCAParameters::default().with_n_components(3)).unwrap();
    let ta = a.transform(&x).unwrap();
    let tb = b.transform(&x).unwrap();
    assert_eq!(a.components().shape(), (3, 1));
    assert_eq!(b.components().shape(), (3, 3));
    assert_eq!(ta.shape(), (8, 1));
    assert_eq!(tb.shape(), (8, 3));
    assert!(
        a != b,
        "a 1-component PCA (8x1 output) compares equal to a 3-component PCA (8x3 output)"
    );
}

#[test]
fn pca_eq_must_see_the_centre() {
    let x = data();
    let mut y = x.clone();
    y.add_scalar_mut(1000.0); // exact shift: same centred data, different mu
    let a = PCA::fit(&x, PCAParameters::default().with_n_components(2)).unwrap();
    let b = PCA::fit(&y, PCAParameters::default().with_n_components(2)).unwrap();
    let ta = a.transform(&x).unwrap();
    let tb = b.transform(&x).unwrap();
    // the two models really are different maps
    assert!(!ta.approximate_eq(&tb, 1.0));
    assert!(
        a != b,
        "PCA models centred at mu and mu+1000 compare equal although transform differs: {} vs {}",
        ta.get(0, 0),
        tb.get(0, 0)
    );
}
