// DenseMatrix::set (and add/sub/mul/div_element_mut) do not validate (row, col)
// against the logical shape.  An out-of-range row index whose flat offset
// col * nrows + row still lies inside the backing Vec silently overwrites a
// DIFFERENT logical element (the write "wraps" into the next column because the
// storage is column-major).  DenseMatrix::get rejects exactly the same index, and
// the ndarray / nalgebra backends of BaseMatrix::set panic.
use smartcore::linalg::naive::dense_matrix::*;
use std::panic::{catch_unwind, AssertUnwindSafe};

fn m32() -> DenseMatrix<f64> {
    // 3 rows x 2 columns
    DenseMatrix::from_2d_array(&[&[1., 2.], &[3., 4.], &[5., 6.]])
}

#[test]
fn get_rejects_row_out_of_range() {
    // sanity: the read side already enforces the contract
    let m = m32();
    assert!(catch_unwind(AssertUnwindSafe(|| m.get(3, 0))).is_err());
}

#[test]
fn set_rejects_row_out_of_range() {
    let mut m = m32();
    let r = catch_unwind(AssertUnwindSafe(|| m.set(3, 0, 99.)));
    // observed on the unmodified tree: no panic and element (0, 1) becomes 99
    assert_eq!(
        m,
        m32(),
        "set(3, 0, _) on a 3x2 matrix silently modified another element: {}",
        m
    );
    assert!(r.is_err(), "set(3, 0, _) on a 3x2 matrix must be rejected");
}

#[test]
fn set_rejects_row_out_of_range_f32_row_vector_shape() {
    // 1xN case: row 1 does not exist, yet set(1, 0) writes element (0, 1)
    let mut m: DenseMatrix<f32> = DenseMatrix::from_2d_array(&[&[1., 2., 3.]]);
    let r = catch_unwind(AssertUnwindSafe(|| m.set(1, 0, 99.)));
    assert_eq!(m.get_row_as_vec(0), vec![1., 2., 3.]);
    assert!(r.is_err());
}

#[test]
fn element_mut_ops_reject_row_out_of_range() {
    let mut m = m32();
    let r = catch_unwind(AssertUnwindSafe(|| m.add_element_mut(4, 0, 1.)));
    assert_eq!(m, m32(), "add_element_mut(4, 0, _) modified another element");
    assert!(r.is_err());

    let mut m = m32();
    let r = catch_unwind(AssertUnwindSafe(|| m.sub_element_mut(5, 0, 1.)));
    assert_eq!(m, m32(), "sub_element_mut(5, 0, _) modified another element");
    assert!(r.is_err());

    let mut m = m32();
    let r = catch_unwind(AssertUnwindSafe(|| m.mul_element_mut(3, 0, 2.)));
    assert_eq!(m, m32(), "mul_element_mut(3, 0, _) modified another element");
    assert!(r.is_err());

    let mut m = m32();
    let r = catch_unwind(AssertUnwindSafe(|| m.div_element_mut(3, 0, 2.)));
    assert_eq!(m, m32(), "div_element_mut(3, 0, _) modified another element");
    assert!(r.is_err());
}
