// QR least-squares solve of a tall system must return the n x k solution,
// not the m x k right-hand side with the solution in its first n rows.
use smartcore::linalg::naive::dense_matrix::*;
use smartcore::linalg::qr::QRDecomposableMatrix;
use smartcore::linalg::svd::SVDDecomposableMatrix;

#[test]
fn qr_solve_of_tall_system_returns_n_rows() {
    // A is 4 x 2 with full column rank, B is 4 x 2.
    let a = DenseMatrix::from_2d_array(&[&[1., 0.], &[1., 1.], &[1., 2.], &[1., 3.]]);
    let b = DenseMatrix::from_2d_array(&[&[1., 0.], &[3., 1.], &[5., 1.], &[7., 3.]]);
    // least-squares solution (first column is an exact fit y = 1 + 2 t,
    // second column: normal equations give intercept -0.1, slope 0.9)
    let expected = DenseMatrix::from_2d_array(&[&[1., -0.1], &[2., 0.9]]);

    let x = a.clone().qr_solve_mut(b.clone()).unwrap();

    // the SVD based solver of the same crate already answers with a 2 x 2 matrix
    let x_svd = a.svd_solve(b.clone()).unwrap();
    assert_eq!(x_svd.shape(), (2, 2));
    assert!(x_svd.approximate_eq(&expected, 1e-10));

    assert_eq!(
        x.shape(),
        (2, 2),
        "qr_solve_mut of a 4x2 system with 2 right-hand sides must be 2x2, got {:?}: {}",
        x.shape(),
        x
    );
    assert!(x.approximate_eq(&expected, 1e-10));

    // and A * X must be computable: A^T (A X - B) = 0
    let r = a.matmul(&x).sub(&b);
    let g = a.transpose().matmul(&r);
    assert!(g.abs().max() < 1e-10);
}
