// DenseMatrix::copy_row_as_vec / copy_col_as_vec silently copy a truncated row
// (column) when the receiving buffer is shorter than the row (column); the
// ndarray and nalgebra backends reject the same call with an index panic.
//
// cargo test --offline --features serde,ndarray-bindings,nalgebra-bindings --test demo
use nalgebra::DMatrix;
use ndarray::arr2;
use smartcore::linalg::naive::dense_matrix::DenseMatrix;
use smartcore::linalg::BaseMatrix;
use std::panic::{catch_unwind, AssertUnwindSafe};

fn outcome<F: FnOnce() -> Vec<f64>>(f: F) -> Option<Vec<f64>> {
    catch_unwind(AssertUnwindSafe(f)).ok()
}

#[test]
fn copy_row_as_vec_into_a_short_buffer_is_handled_alike() {
    let nd = arr2(&[[1., 2., 3.], [4., 5., 6.]]);
    let na = DMatrix::from_row_slice(2, 3, &[1., 2., 3., 4., 5., 6.]);
    let de = DenseMatrix::from_2d_array(&[&[1., 2., 3.], &[4., 5., 6.]]);

    let r_nd = outcome(|| {
        let mut buf = vec![0.; 2];
        nd.copy_row_as_vec(1, &mut buf);
        buf
    });
    let r_na = outcome(|| {
        let mut buf = vec![0.; 2];
        na.copy_row_as_vec(1, &mut buf);
        buf
    });
    let r_de = outcome(|| {
        let mut buf = vec![0.; 2];
        de.copy_row_as_vec(1, &mut buf);
        buf
    });
    assert_eq!(r_nd, r_na);
    assert_eq!(r_de, r_nd, "DenseMatrix handled the short buffer differently");
}

#[test]
fn copy_col_as_vec_into_a_short_buffer_is_handled_alike() {
    let nd = arr2(&[[1., 2., 3.], [4., 5., 6.]]);
    let na = DMatrix::from_row_slice(2, 3, &[1., 2., 3., 4., 5., 6.]);
    let de = DenseMatrix::from_2d_array(&[&[1., 2., 3.], &[4., 5., 6.]]);

    let r_nd = outcome(|| {
        let mut buf = vec![0.; 1];
        nd.copy_col_as_vec(2, &mut buf);
        buf
    });
    let r_na = outcome(|| {
        let mut buf = vec![0.; 1];
        na.copy_col_as_vec(2, &mut buf);
        buf
    });
    let r_de = outcome(|| {
        let mut buf = vec![0.; 1];
        de.copy_col_as_vec(2, &mut buf);
        buf
    });
    assert_eq!(r_nd, r_na);
    assert_eq!(r_de, r_nd, "DenseMatrix handled the short buffer differently");
}
