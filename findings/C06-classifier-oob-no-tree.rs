// C06 / RandomForestClassifier::predict_oob
//
// The out-of-bag prediction for training row i must aggregate ONLY the trees whose bootstrap
// sample did not contain row i.  When no such tree exists (always the case for some rows when
// n_trees = 1, and common for n_trees <= 5) there are no votes at all, yet predict_oob returns
// Ok(..) with the smallest class label for that row: `which_max` over an all-zero vote vector
// yields index 0.  The fabricated label is indistinguishable from a real out-of-bag vote and
// silently biases any OOB accuracy estimate towards the first class.
//
// A correct implementation has to signal the missing prediction (return Err, or mark the row with
// a non-label value such as NaN, as R's randomForest does with NA); this test accepts either.
//
// run with: cargo test --offline --features serde --test demo
#![cfg(feature = "serde")]

use smartcore::ensemble::random_forest_classifier::{
    RandomForestClassifier, RandomForestClassifierParameters,
};
use smartcore::linalg::naive::dense_matrix::DenseMatrix;

#[test]
fn oob_prediction_without_any_oob_tree_is_not_a_fabricated_label() {
    // perfectly separable: x < 6 -> class 5, x >= 6 -> class 7
    let n = 12;
    let xv: Vec<Vec<f64>> = (0..n).map(|i| vec![i as f64]).collect();
    let y: Vec<f64> = (0..n).map(|i| if i < 6 { 5.0 } else { 7.0 }).collect();
    let x = DenseMatrix::from_2d_vec(&xv);

    for seed in 0..20u64 {
        for n_trees in 1..=3u16 {
            let forest = RandomForestClassifier::fit(
                &x,
                &y,
                RandomForestClassifierParameters::default()
                    .with_n_trees(n_trees)
                    .with_keep_samples(true)
                    .with_seed(seed),
            )
            .unwrap();

            // which rows were in-bag for which tree
            let v = serde_json::to_value(&forest).unwrap();
            let samples: Vec<Vec<bool>> = serde_json::from_value(v["samples"].clone()).unwrap();
            assert_eq!(samples.len(), n_trees as usize);
            let no_oob_tree: Vec<usize> = (0..n)
                .filter(|&i| samples.iter().all(|s| s[i]))
                .collect();
            if no_oob_tree.is_empty() {
                continue;
            }

            match forest.predict_oob(&x) {
                Err(_) => {} // rejecting is fine
                Ok(oob) => {
                    for &i in no_oob_tree.iter().rev() {
                        assert!(
                            oob[i] != 5.0 && oob[i] != 7.0,
                            "seed {} n_trees {}: row {} (true class {}) was in-bag for every tree, \
                             so no tree may vote for it, but predict_oob reported class {}",
                            seed, n_trees, i, y[i], oob[i]
                        );
                    }
                }
            }
        }
    }
}
