// C08 / defect 3: a constant target makes Lasso::fit / ElasticNet::fit fail.
//
// After centring, y = 0, so at the very first iterate (w = 0) pobj = dobj = gap = 0 and the
// stopping test `gap / dobj < tol` evaluates 0/0 = NaN < tol = false.  Instead of returning the
// (exact) optimum w = 0 the optimizer goes on: for n*alpha >= 1 the PCG tolerance becomes
// eta*gap = 0 and the solver rejects it ("tolerance shoud be > 0"), for n*alpha < 1 the Newton
// step is NaN and the line search gives up ("Exceeded maximum number of iteration ...").
use smartcore::linalg::naive::dense_matrix::DenseMatrix;
use smartcore::linalg::BaseMatrix;
use smartcore::linear::elastic_net::{ElasticNet, ElasticNetParameters};
use smartcore::linear::lasso::{Lasso, LassoParameters};

fn x() -> DenseMatrix<f64> {
    DenseMatrix::from_2d_array(&[
        &[1.0, 2.0],
        &[2.0, 1.5],
        &[3.0, 4.0],
        &[4.0, 0.5],
        &[5.0, 3.0],
        &[6.5, 2.5],
    ])
}

#[test]
fn lasso_constant_target() {
    for &c in &[0.0, 3.0, 1e5] {
        for &alpha in &[1e-3, 0.1, 1.0] {
            for &normalize in &[true, false] {
                let y = vec![c; 6];
                let m = Lasso::fit(
                    &x(),
                    &y,
                    LassoParameters {
                        alpha,
                        normalize,
                        tol: 1e-4,
                        max_iter: 1000,
                    },
                )
                .unwrap_or_else(|e| {
                    panic!(
                        "Lasso::fit failed for y = [{}; 6], alpha = {}, normalize = {}: {}",
                        c, alpha, normalize, e
                    )
                });
                assert!(m.coefficients().get(0, 0).abs() < 1e-9);
                assert!(m.coefficients().get(1, 0).abs() < 1e-9);
                assert!((m.intercept() - c).abs() <= 1e-9 * (1.0 + c.abs()));
                for v in m.predict(&x()).unwrap() {
                    assert!((v - c).abs() <= 1e-8 * (1.0 + c.abs()));
                }
            }
        }
    }
}

#[test]
fn elastic_net_constant_target() {
    for &alpha in &[1e-3, 1.0] {
        for &normalize in &[true, false] {
            let y = vec![3.0; 6];
            let m = ElasticNet::fit(
                &x(),
                &y,
                ElasticNetParameters {
                    alpha,
                    l1_ratio: 0.5,
                    normalize,
                    tol: 1e-4,
                    max_iter: 1000,
                },
            )
            .unwrap_or_else(|e| {
                panic!(
                    "ElasticNet::fit failed for y = [3; 6], alpha = {}, normalize = {}: {}",
                    alpha, normalize, e
                )
            });
            assert!(m.coefficients().get(0, 0).abs() < 1e-9);
            assert!(m.coefficients().get(1, 0).abs() < 1e-9);
            assert!((m.intercept() - 3.0).abs() < 1e-9);
        }
    }
}
